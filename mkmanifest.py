#!/usr/bin/env python3
"""Writes MANIFEST.json from props_meta.PROPS and the fixed property list."""
import json
import subprocess
from props_meta import PROPS

ids = [json.loads(l)["id"] for l in open("/verif/properties.jsonl")]
hooks = subprocess.run(["git", "-C", "/repo", "log", "--format=%h %s", "--grep=^verif hooks"], capture_output=True, text=True).stdout.strip().splitlines()
checks = []
na = []
for i in ids:
    if i in PROPS and PROPS[i].get("claimed", True):
        m = PROPS[i]
        checks.append({
            "property_id": i,
            "quick_cmd": "./check %s --tier quick" % i,
            "thorough_cmd": "./check %s --tier thorough" % i,
            "evidence_file": "/verif/evidence/%s.json" % i,
            "replay_cmd_template": "./check %s --replay {path}" % i,
            "engine": m.get("engine", "kvh"),
            "level_claimed": {"category": m["level"], "text": m["level_text"], "design_ref": "DESIGN.md section 3, %s" % i},
            "level_note": m["level_note"],
            "technique": m["technique"],
        })
    else:
        reason = PROPS.get(i, {}).get("na_reason", "check not built yet (work in progress; see DESIGN.md section 6)")
        na.append({"property_id": i, "reason": reason})
manifest = {
    "version": 1,
    "setup_cmd": "cd /verif/harness && CARGO_NET_OFFLINE=true cargo build --release --offline && mkdir -p /verif/cache && ./target/release/kvh genkeys 2048 /verif/cache/keys.pem",
    "hooks": {
        "guard": "krill_verif",
        "enable": "rustflags = [\"--cfg\", \"krill_verif\"] in /verif/harness/.cargo/config.toml (the harness crate depends on /repo by path, so every check rebuilds krill from the current working tree with the hooks on)",
        "baseline_off_cmd": "cd /repo && cargo test --workspace --no-fail-fast --offline",
        "source_commits": [h.split()[0] for h in hooks],
        "add_only": True,
    },
    "engines": [
        {"name": "kvh", "path": "/verif/harness", "serves_properties": [c["property_id"] for c in checks],
         "kind_free_text": "Rust harness binary linking krill with hooks on: proptest strategies, in-process worlds with a deterministic task pump and virtual clock, relying-party validator, reference models; driven by /verif/check (python) which spawns one worker process per core"},
    ],
    "checks": checks,
    "not_applicable": na,
    "notes": "Known findings are listed in /verif/known_findings.jsonl (status known / fixed). Replays of kept findings are under /verif/replays_kept.",
}
json.dump(manifest, open("/verif/MANIFEST.json", "w"), indent=1)
print("claimed:", [c["property_id"] for c in checks])
