"""Per-property metadata for the driver: tier sizes, evidence texts, floors."""

W_ASSUME = [
    "rpki 0.19.2 decoding/validation code is the trusted base of the relying-party walk",
    "time is a virtual clock (clock_gettime interposed in the harness process); krill reads no other clock for decisions",
    "RSA keys come from a pre-generated pool (hook H8); key size and algorithm are unchanged",
    "background tasks are run by a deterministic pump that mirrors scheduler::run's result handling",
]

PROPS = {
    "C01": {
        "level": "exploration",
        "cases": {"quick": 1600, "thorough": 16000},
        "rule": "cases = generated (configuration, hierarchy set-up, operation history) triples run against an in-process krill; "
        "distinct by hash of the canonical case JSON; non-trivial iff the history exercised at least one of: ROA aggregation "
        "mode switch between checkpoints, entitlement shrink followed by regain with ROAs present, a prefix held under two "
        "parents with VRPs, a key roll in progress at a checkpoint, a checkpoint after a clock jump, a child removed or suspended",
        "floors": {"__nontrivial__": 0.40, "agg_switch": 0.02, "roll_at_checkpoint": 0.03, "two_parents": 0.03},
        "assumptions": W_ASSUME,
        "technique": "property-based testing: generated hierarchies and operation histories against an in-process krill; oracle = relying-party walk (rpki crate) + intent model, set equality of payloads",
        "level_text": "Exploration by generated cases: every checkpoint of every generated history is validated top-down like a relying party would and compared with the configuration that krill accepted. It samples the space of histories/configurations (thousands of histories per run) and cannot show absence; it is the right level because the property quantifies over histories of a large stateful system for which an executable oracle (the RP walk) exists.",
        "level_note": "Trusted base: rpki 0.19.2 validation code, the harness' intent model (updated only from accepted operations), the deterministic pump standing in for scheduler::run, the virtual clock. 'Background work has caught up' = no task due, after three rounds of the periodic parent refresh. Two known findings (dangling CA certificates after a departing child) are listed in known_findings.jsonl.",
    },
    "C02": {
        "level": "exploration",
        "cases": {"quick": 1600, "thorough": 30000},
        "rule": "cases = generated (configuration, hierarchy, history) triples biased to entitlement changes (grow, shrink to partial overlap, "
        "shrink to nothing, regain), suspend/unsuspend, class-name mappings, two parents and key rolls; distinct by hash of the case JSON; "
        "non-trivial iff at least one (parent, child, class) exactness comparison was made at a checkpoint AND the history contains an "
        "entitlement shrink, a shrink followed by a regain, or an unsuspend",
        "floors": {"__nontrivial__": 0.25, "entitlement_shrunk": 0.30, "shrink_and_regain": 0.10, "child_unsuspended": 0.03},
        "assumptions": W_ASSUME + ["request limits (RequestResourceLimit) are exercised by C12's signed-message generator, not here"],
        "technique": "property-based testing of operation histories; oracles: decoded published certificates vs entitlement model (exactness), "
        "containment check after every publication (never over-claims), issuing judged when it happens (after every operation and task: a newly issued certificate exceeds its predecessor only within the entitlement), metamorphic idempotence (two extra sync rounds change nothing with the clock frozen)",
        "level_text": "Exploration by generated histories. After every SyncRepo of an issuer the published child certificates are compared with the certificate the issuer holds; "
        "at every checkpoint (after a bounded number of sync rounds) each child certificate must equal entitlement ∩ issuer resources, no requests may be open, and two further "
        "sync rounds must leave command histories and repository bytes unchanged. Sampling, not proof; appropriate because the property quantifies over histories.",
        "level_note": "Trusted base: rpki decoding, the entitlement model (updated from accepted operations only), the pump. Certificates the parent re-issues on its own initiative are only required to be contained (by design of krill) until the convergence step.",
    },
    "C03": {
        "level": "exploration",
        "cases": {"quick": 1600, "thorough": 30000},
        "rule": "cases = generated (configuration, hierarchy, history) triples biased to the ways an object stops being current; the check "
        "records every (issuer key, serial, notAfter, uri, hash) ever observed in the repository (scanned after every SyncRepo task and at checkpoints); "
        "distinct by hash of the case JSON; non-trivial iff at least two different ways of stopping to be current occurred (configuration removal, "
        "child removal, suspension, entitlement shrink, parent removal, CA deletion, key activation, forced re-issue, class mapping) AND at least one "
        "previously seen object was found replaced-and-revoked at a checkpoint",
        "floors": {"__nontrivial__": 0.40, "keyroll_activate": 0.10, "child_suspended": 0.05, "ca_deleted": 0.03, "parent_removed": 0.02},
        "assumptions": W_ASSUME + ["objects are identified by (issuer key identifier, serial); manifests and CRLs are excluded as the property says"],
        "technique": "property-based testing of operation histories with a history invariant: every object ever observed is either still published byte-identical or its serial is on the issuing key's CRL (while that key publishes one and the object is unexpired); plus model-driven absence checks; parent synchronisations are held back in part of the histories so that checkpoints see key rolls in their intermediate states",
        "level_text": "Exploration by generated histories with a model-free history invariant over all objects ever published, plus absence checks driven by the intent model (no certificate for a non-child key, nothing under a removed class or deleted CA). Sampling, not proof.",
        "level_note": "Trusted base: rpki decoding of certificates, ROAs, ASPAs and CRLs; the intent model for the absence checks. 'After the next synchronisation' = the checkpoint after convergence.",
    },
    "C04": {
        "level": "exploration",
        "cases": {"quick": 1600, "thorough": 30000},
        "rule": "cases = generated (configuration, hierarchy, history) triples with key-roll steps (initiate / activate, also at wrong moments) interleaved with "
        "configuration changes, entitlement changes, suspensions, partial pumps and held-back trust-anchor signer exchanges; distinct by hash of the case JSON; "
        "non-trivial iff some class reached the state with a certified new key (RollNew) AND at least one operation other than roll steps and pumps was applied while a roll was in progress",
        "floors": {"__nontrivial__": 0.25, "roll_under_ta": 0.10, "two_classes_rolling": 0.02, "entitlement_change_during_roll": 0.05},
        "assumptions": W_ASSUME,
        "technique": "property-based testing of interleavings of key-roll steps with all other operations; oracles: per-publication invariant 'one key signs the products of a class', payload set equality and RP validity at checkpoints, no panic / would-be exit (catch_unwind + exit hook), completion from every reached state",
        "level_text": "Exploration by generated histories. After every repository synchronisation the products of each class directory must carry a single issuing key that also publishes a manifest there; at checkpoints the products are under the current key, payloads equal the configuration and the tree is RP-valid; every call is wrapped so a panic or would-be process exit is attributed to the operation; at the end every open roll must finish in the single-active-key state after activation and synchronisation. Interleavings are sampled, not enumerated.",
        "level_note": "Trusted base: rpki decoding, the pump, the intent model. Commands krill refuses during a roll are accepted as refusals. Rolls of a CA whose parent relation was removed on purpose are not required to finish.",
    },
    "C13": {
        "level": "exploration",
        "cases": {"quick": 320, "thorough": 6400},
        "rule": "cases = generated (role = subset of the 22 permissions drawn uniformly / nearly full / nearly empty, with or without scoping to a subset of two CAs; testbed mode on (one third; one CA then has an unreachable parent and therefore an issue to report) or off; 20-60 (thorough 40-160) requests) against the real daemon. "
        "Each request picks one of the 114 routes of /verif/routes.json (every method of every route of the HTTP interface), fills the path with an existing CA, the other CA or an unknown one, sends a valid-looking or an unusable body, and comes from a caller with no credential, "
        "a wrong token, the admin token, the session token of a configured user with the generated role, or the socket peer mapped to the generated role; distinct by hash of the case JSON; non-trivial iff the generated role was refused at least once and served at least once",
        "floors": {"__nontrivial__": 0.80, "refused_insufficient_role": 0.80, "refused_state_changing_request": 0.60, "served_role": 0.80, "served_with_per_ca_grant": 0.25, "refused_unauthenticated": 0.70, "public_route": 0.70, "listing_checked": 0.05, "issues_listing_checked": 0.02},
        "assumptions": ["the permission each operation requires is taken from the committed table /verif/routes.json (read off the dispatch code at the pinned commit) after it passed semantic lint rules that do not depend on krill: no state-changing method rides on a read permission, CA routes are checked against the addressed CA, "
                        "every API route has a permission (the two listing routes filter instead), permissions belong to the family of the route",
                        "a request counts as served unless it is answered 401 or 403; 'no effect' is read through an administrator's view (CA list, command counts, CA details, publishers)",
                        "state-changing requests that are served may change the state; the two CAs are restored by the administrator afterwards"],
        "technique": "table-driven property-based testing of the running daemon: generated roles over the permission lattice and generated callers, with the route table plus a re-implementation of the role evaluation (specific CA, else blanket, else none) as oracle; refused requests are checked for absence of effect, listings for showing exactly the readable CAs",
        "level_text": "Exploration: every route and method is in the table and drawn with equal weight; roles sample the lattice. Sampling, not proof.",
        "level_note": "Trusted base: the committed route table (linted) and the harness HTTP client.",
    },
    "C14": {
        "level": "exploration",
        "cases": {"quick": 1200, "thorough": 24000},
        "rule": "cases = generated (timing configuration, hierarchy, history) triples; timing is drawn around the limits krill's own configuration check accepts "
        "(ASPA/BGPsec margins may equal or exceed lifetimes); every clock advance in a history is a maintenance experiment: the state is settled and decoded at T0, "
        "the clock jumps to T (amounts biased to land just before / inside / after the configured margins), the republish and renew runs are executed and the "
        "repository is decoded again; distinct by hash of the case JSON; non-trivial iff some experiment had at least one key set due and at least one not due, or ran while a key roll was in progress",
        "floors": {"__nontrivial__": 0.20, "run_with_due_set": 0.30, "run_with_nothing_due": 0.03, "run_during_roll": 0.05},
        "assumptions": W_ASSUME + ["'due' is computed from the decoded next-update / not-after values (krill adds random jitter to next-update)", "the embedded trust anchor's own manifest is only refreshed by signer exchanges; histories stay below its next-update time and its key is exempt from the 'due' clauses"],
        "technique": "property-based testing with a virtual clock: before/after comparison of decoded manifest and CRL numbers, validity windows and payload sets around each maintenance run (metamorphic: a pure re-issue changes numbers by exactly one and nothing else); timing configurations include margins one to three weeks below the lifetime and clock advances aimed at every object kind's margin, so that objects do enter their re-issue margin",
        "level_text": "Exploration by generated timing configurations and histories. For every maintenance run: each key set that was due is re-issued exactly once (manifest number +1, equal to the CRL number), sets that were not due are untouched, nothing due means byte-identical repository, signed objects inside their re-issue margin are renewed, all windows contain the present (RP walk), numbers never decrease over the whole history, and the payload sets are unchanged. Sampling, not proof.",
        "level_note": "Trusted base: rpki decoding, the virtual clock, the pump. For steps in which commands were recorded for a CA the number increment is only bounded (at most commands+1), as several commands can re-issue within one task.",
    },
    "C05": {
        "level": "exploration",
        "cases": {"quick": 4800, "thorough": 60000},
        "rule": "cases = generated sequences of 3-15 (thorough: up to 30) configuration requests against a CA whose held resources also change (ROA deltas with 0-6 additions "
        "and 0-5 removals mixing valid and invalid entries, implicit/explicit max length, out-of-range max length, AS0, duplicates inside one delta, same payload with another "
        "comment, removals of absent payloads; ASPA updates and provider updates; BGPsec updates incl. an invalidly self-signed CSR; child add/update incl. empty, superset, "
        "duplicate, unknown, trust-anchor child); each request is judged; distinct by hash of the case JSON; non-trivial iff at least one multi-entry request was refused and at least one request was accepted",
        "floors": {"__nontrivial__": 0.50, "roa:accepted": 0.30, "roa:refused": 0.50, "aspa-providers:accepted": 0.10, "bgpsec:refused": 0.10, "child-add:accepted": 0.10},
        "assumptions": W_ASSUME + ["held resources = union of the certificates of the CA's current keys, as the code documents", "error kinds are not compared, only accept / refuse and the resulting state"],
        "technique": "property-based differential testing: accept/refuse verdict and resulting configuration of every generated request compared with a reference decision procedure written from the property text and the doc comments; refused requests must leave configuration, repository bytes and scheduled tasks unchanged; requests name new as well as existing definitions (also an existing router-key definition as a whole after the AS was lost)",
        "level_text": "Exploration by generated request sequences with a reference model as oracle (iff on the verdict, equality on the applied state, no-change on refusal). Tens of thousands of judged requests per run; sampling, not proof.",
        "level_note": "Trusted base: the 150-line reference procedure in harness/src/props/c05.rs, rpki ResourceSet arithmetic. ca_child_update with the empty set is accepted by design (documented) and modelled so.",
    },
    "C06": {
        "level": "exploration",
        "cases": {"quick": 800, "thorough": 16000},
        "rule": "cases = generated (configuration, hierarchy, history) triples on memory and disk storage with the snapshot task executed at generated points and restarts on disk; "
        "at every checkpoint each event-sourced entity (every CA, the TA proxy, the TA signer, repository access; repository content via its write-ahead log) is rebuilt twice - by a fresh store "
        "on the same storage (snapshot + later commands) and by a fresh store on a copy without snapshots (replay from the initialisation command) - and compared with the live state; "
        "distinct by hash of the case JSON; non-trivial iff at least 15 commands were stored, at least two entities compared and a snapshot existed at a checkpoint",
        "floors": {"__nontrivial__": 0.30, "snapshot_present": 0.30, "disk": 0.25, "restart": 0.05},
        "assumptions": W_ASSUME + ["two wall-clock fields that apply() fills in and no API exposes (last_key_change, RouteInfo.since) are masked", "the write-ahead-logged repository content can only be rebuilt from its last snapshot (by design); it is compared through list replies and statistics"],
        "technique": "property-based testing of command histories with a three-way round trip: live state = state from snapshot + later commands = state replayed from scratch (serde views with two masked fields), replay wrapped in catch_unwind",
        "level_text": "Exploration by generated histories; the oracle is a three-way differential between constructions of the same state from the stored audit log. Sampling of histories, not proof of purity of apply().",
        "level_note": "Trusted base: serde views of the aggregates (complete state), the storage copy routine of the harness.",
    },
    "C07": {
        "level": "exploration",
        "cases": {"quick": 16000, "thorough": 320000},
        "rule": "cases = generated (back-end memory/disk, history cache on/off, 1-3 entities, 2-5 writer threads with 3-25 (thorough 5-60) commands each drawn from accepted (one and two events), rejected, no-op and pre-save-failing commands addressed to generated entities, "
        "0-2 reader threads, half of them on a second store object with a cache of its own, schedule perturbation seed) tuples run on krill's real AggregateStore with real threads; the yield points (hook H-yield) at the storage locks, before processing, before the store and "
        "before the cache update sleep/yield pseudo-randomly from the seed; distinct by hash of the case JSON; non-trivial iff some entity's audit log shows commands of at least two threads interleaved (two or more switches)",
        "floors": {"__nontrivial__": 0.50, "entity_with_2plus_writers": 0.80, "rejected_recorded": 0.60, "presave_failure": 0.50, "noop": 0.50, "disk": 0.30, "second_store_object": 0.15},
        "assumptions": ["the aggregate is a small one of the harness (state = list of applied commands) so that every read-out names the order it results from; the store, locking, cache and history code are krill's",
                        "all writers use one store object, as in the daemon; a second store object over the same storage is only read from",
                        "the thread schedule is chosen by the OS and perturbed at the yield points; it is not enumerated"],
        "technique": "property-based concurrency testing: generated multi-threaded command schedules against the real store, with an invariant over the resulting history as oracle (contiguous versions, one record per state-changing or rejected command with actor and error, none for no-op and pre-save failures, "
        "final state = fold of the audit log = replay in a fresh store, every state returned to any caller or seen by any reader = the state after a prefix of the log, post-save listeners see every accepted event once; for an entity that the writer threads create (and in some cases drop) themselves: successful creations <= successful drops + 1, and without drops every command its caller was told about is in the log of the one creation)",
        "level_text": "Exploration by generated concurrent schedules with random perturbation at hook points; linearisability-style history check. Sampling of schedules, not proof.",
        "level_note": "Trusted base: the harness aggregate; OS scheduling.",
    },
    "C08": {
        "level": "exploration",
        "cases": {"quick": 960, "thorough": 19200},
        "rule": "cases = generated (disk-backed configuration, hierarchy of up to three CAs under the trust anchor, history of 0-13 (thorough 0-29) operations that brings keys, rolls, children and publication into some state, target operation = the last operation of the history that writes something (operation kinds that only drive the clock or the task pump, and the two documented best-effort operations - deleting a CA, removing a parent - are not targets; if the generated target is refused before its first write, a plain ROA / ASPA / BGPsec / key-roll / re-publication request takes its place), cut position as a fraction of the "
        "storage and file-system mutations that the fault-free twin counted for the target (and, in two thirds of the cases, for the background tasks it queues: repository synchronisation, RRDP and rsync writes, parent synchronisation), crash or single failed write) tuples; "
        "distinct by hash of the case JSON; non-trivial iff the fault fired (the cut position was reached)",
        "floors": {"__nontrivial__": 0.60, "crash_fired": 0.25, "failed_write_fired": 0.28, "tasks_under_fault": 0.40, "fault_inside_the_operation": 0.30, "effect_present_after_fault": 0.12, "effect_absent_after_fault": 0.07, "resubmitted": 0.12, "cut_in_presave_window": 0.30, "cut_at_published_object_set": 0.06, "cut_at_task_queue": 0.09, "cut_at_command_log": 0.15, "cut_at_repository_log": 0.015, "cut_at_rrdp_files": 0.03, "cut_at_rsync_files": 0.04},
        "assumptions": ["disk storage only (the memory back-end cannot be re-opened); a crash is realised as 'every mutation from the n-th on fails, then the runtime is dropped and a fresh one opened on the directory'",
                        "mutations are the hook points H-kv (store/move/delete/clear of the key-value store) and H-fs (file writes, renames, removals of file.rs, rrdp.rs, rsync.rs) below the world's directory",
                        "'equal up to fresh keys, serial numbers and class names' is decided on the configuration as the API shows it (ROA, ASPA, BGPsec definitions, parents, children with entitlements and state) and on the payloads a relying party validates, not on key identifiers or serials",
                        "histories whose tree is already invalid before the fault (known findings of C01) are not used", "background work has caught up = task queue empty incl. tasks that were rescheduled to within two hours, the periodic parent refresh, and, if the comparison still fails, one cycle of the periodic re-publication (clock moved past the next manifest re-issue)", "a failed write after which the scheduler gives up (krill exits there) is followed by a restart", "operations that are several commands in a row (attach = add child + add parent, add CA = create + connect repository) may be cut between the commands; they are re-submitted step by step and only the final comparison applies"],
        "technique": "fault-injection property-based testing with a differential oracle: generated history, then the target operation runs fault-free in a twin opened on a copy of the data directory and with an injected failed write or crash+restart in the original; "
        "all-or-nothing and acknowledged-implies-present are decided by comparing the configuration with the states before and of the twin, validity and payloads by the relying-party walk, convergence after re-submission by comparison with the twin",
        "level_text": "Exploration: cut positions are sampled over the counted mutations of generated operations (half uniformly, half by first choosing one of the stores the operation touched and then a mutation of that store); not an exhaustive enumeration of every cut of every operation. Sampling, not proof.",
        "level_note": "Trusted base: the hook points cover the mutation sites listed; the directory copy; the relying-party walk.",
    },
    "C12": {
        "level": "exploration",
        "cases": {"quick": 1600, "thorough": 32000},
        "rule": "cases = generated sequences of CMS-signed RFC 6492 requests to a parent CA with two registered remote children and CMS-signed RFC 8181 requests to the publication server with two registered "
        "publishers; the signing identity is drawn from five harness keys (the two children's, the two publishers', one unregistered), the claimed sender / addressed publisher from the registered ones and a stranger, "
        "payloads list / issue (class, resource limit, CSR key) / revoke and list / deltas with URIs inside the own base, another publisher's base, a CA's base and outside the repository; a quarter of the messages get one "
        "bit flipped; identity replacements of children and of the parent are interleaved; distinct by hash of the case JSON; non-trivial iff the case has at least one accepted and at least one refused request",
        "floors": {"__nontrivial__": 0.60, "wrong_key_refused": 0.50, "flip_refused": 0.50, "accepted_issue": 0.40, "accepted_delta": 0.30, "child_identity_replaced": 0.20, "server_identity_replaced": 0.10},
        "assumptions": ["requests enter through CaManager::rfc6492 and RepositoryManager::rfc8181 (the calls behind the HTTP endpoints) with harness-built CMS bytes", "the recipient handle inside an RFC 6492 message is not required to be checked (the property does not state it)",
                        "hash/precondition verdicts of deltas are C10's business: for a delta inside the own base either verdict is accepted, and an error must leave everything unchanged"],
        "technique": "property-based testing of generated request sequences with an explicit authorisation oracle (request may be acted upon iff signed by the identity registered for the claimed sender and, for a damaged message, iff it still decodes to the identical message), state comparison around refused requests, reply validation under the server's current identity key, entitlement / base-URI containment of what accepted requests obtain",
        "level_text": "Exploration by generated request sequences incl. single-bit corruptions of valid messages; explicit oracle. Sampling, not proof.",
        "level_note": "Trusted base: rpki-rs CMS encoding/decoding used to build requests and to validate replies; krill's own signer used with harness-owned identity keys.",
    },
    "C15": {
        "level": "exploration",
        "cases": {"quick": 1200, "thorough": 24000},
        "rule": "cases = generated sequences of operations on a krill instance that runs the trust-anchor proxy only and stand-alone signer installations (the krillta signer manager with its own storage and keys): add children under the TA, key rolls of those children "
        "(issuance and revocation requests queue up at the proxy), partial and full runs of the background tasks, make-request, processing of a chosen request at a chosen signer (current, old, forged with another key, clear text altered, signed message bit-flipped; "
        "the associated signer or a signer set up for another proxy), delivery of a chosen response to the proxy (latest, old/replayed, an old one with the open nonce pasted in, forged with another key, clear text altered, bit-flipped), honest exchanges, signer re-initialisation "
        "with the same TA key, clock advances; distinct by hash of the case JSON; non-trivial iff at least one message was refused and at least two responses were accepted",
        "floors": {"__nontrivial__": 0.50, "stale_or_replayed_response_refused": 0.40, "tampered_response_refused": 0.15, "forged_response_refused": 0.08, "unauthentic_request_refused": 0.30, "child_requests_signed": 0.50, "signer_reinitialised": 0.05, "second_request_refused": 0.20},
        "assumptions": ["messages are moved between proxy and signer as the typed request/response values that the CLI reads from and writes to files; altered messages are made by editing their JSON form", "the clock is advanced by less than the validity of signed messages",
                        "after a signer re-initialisation the operator passes the next manifest number (ta_mft_nr_override); the final tree check is skipped for such histories because the new signer does not know the certificates issued by its predecessor"],
        "technique": "property-based testing of generated message histories with an explicit acceptance oracle (a response is accepted iff it carries the open nonce, comes unaltered from the associated signer; a request is processed iff unaltered and signed by the proxy the signer was set up for), state comparison around refusals, "
        "one-response-per-child-request check on every signer response, relying-party read-out of the TA manifest/CRL numbers after every step (never decrease, agree), convergence check (no open request or undelivered response, valid tree) after honest exchanges",
        "level_text": "Exploration by generated message histories with replayed, re-ordered, cross-wired, altered and forged messages; explicit oracle. Sampling, not proof.",
        "level_note": "Trusted base: krill's own signer for forging messages under harness keys; the rpki-rs based relying-party walk for manifest numbers.",
    },
    "C16": {
        "fuzz": True,
        "level": "exploration",
        "cases": {"quick": 1600, "thorough": 32000},
        "rule": "cases = sequences of 20-80 (thorough 40-200) generated hostile inputs against one krill instance with a parent CA, two remote children and two publishers: byte-level mutations (truncate, bit flip, byte set, insert, delete, duplicate) "
        "of valid signed RFC 6492 / RFC 8181 messages; token-level mutations of the XML (attribute values, numbers, base64 bodies replaced by damaged DER / truncated / doubled, elements deleted or duplicated) re-signed under the registered identity so the handlers "
        "behind the signature check are reached; random bytes bare and under a valid signature; tree-level mutations of valid JSON bodies of the ROA, ASPA, BGPsec, add-child, update-child, add-parent, repository-contact and import routes "
        "(leaf replaced by out-of-range numbers, nulls, nested arrays or strings from a list of hostile notations, member dropped, element duplicated) decoded with krill's types and passed to the manager call behind the route (for ROAs also the dry-run analysis); "
        "text notations (ROA payload, ASPA definition, resource sets, handles as path segments, router key names, URIs) glued from the same list. One case in five is an HTTP case instead: 20-70 (thorough 40-160) requests to the real daemon running in the worker (testbed mode, two CAs, one a child of the other, ROA and ASPA configured), "
        "each derived from one of the 114 routes of /verif/routes.json: every placeholder segment filled with the valid name, a percent-encoded hostile string, a special segment (dot segments, encoded slashes and NULs, invalid percent escapes and UTF-8, numbers at and beyond the 32/64-bit limits, look-alike names) or a raw hostile string, "
        "optionally an extra trailing segment and a query string; the body the route expects either valid, JSON-tree mutated, the RFC 8183 XML form token-mutated, random bytes, hostile text or absent, with five content types; sent as administrator (7/8) or without / with a garbage token, over TCP or the Unix socket; "
        "distinct by hash of the case JSON; non-trivial iff some mutated input got past the decoders into a handler (HTTP cases: a mutated path behind the authorisation gate and a mutated body were both sent)",
        "floors": {"__nontrivial__": 0.90, "rfc6492-xml:error": 0.50, "rfc8181-xml:error": 0.50, "rfc6492-xml:accepted": 0.30, "json-roa:error": 0.15, "json-roa:accepted": 0.10, "json-aspa:accepted": 0.10, "rfc6492-cms:error": 0.50, "http:mutated-path-behind-auth": 0.12, "http:mutated-body:refused": 0.12, "http:404": 0.12, "http:400": 0.12},
        "assumptions": ["signed protocol messages and most JSON bodies enter through the manager calls behind the HTTP routes (CaManager::rfc6492, RepositoryManager::rfc8181, ca_routes_update, ...); the HTTP cases go through the real listener, request parser, path dispatch and handlers of the daemon",
                        "in the HTTP cases a panic on any thread of the process is seen through the panic hook (counted), the daemon must answer /health afterwards, and 'unchanged' is judged on the configuration an administrator can read back (CA list, configured ROAs/ASPAs/router keys, parents, children with entitlements and identity, publishers), not on objects that background tasks issue",
                        "the harness is built like krill's release profile without overflow checks (wrapping arithmetic is not a panic in the shipped binary) but with unwinding so that a panic can be observed",
                        "process exits are observed through hook H-exit (commons/verif exit_point) and count like panics"],
        "technique": "generator-driven fuzzing (proptest strategies for structured byte, XML-token and JSON-tree mutations of valid messages) with the oracle inside the target: catch_unwind + exit hook for 'no panic, no exit', and a configuration/content digest compared around every request that returned an error; plus route-table-driven mutation of paths, queries and bodies against the real daemon over its sockets (panic hook, health probe, configuration digest); HTTP part: path segments include integer limits as a kind of their own, and routes that take no body are mostly sent none, so that mutated paths and queries get behind the early request checks",
        "level_text": "Exploration by structured mutation fuzzing in-process and over the daemon's sockets; tens of thousands of hostile inputs per quick run. Sampling, not proof; not coverage-guided.",
        "level_note": "Trusted base: the manager entry points are what the HTTP handlers call; the hand-written HTTP client; the route table for the shape of paths and bodies.",
    },
    "C18": {
        "level": "exploration",
        "cases": {"quick": 3200, "thorough": 64000},
        "rule": "cases = generated (back-end memory/disk, 2-5 request threads with 3-13 (thorough 5-29) requests each, perturbation seed) tuples run on one krill runtime with a parent CA, its child, a sibling CA and an extra publisher: ROA additions and removals, ASPA and BGPsec definitions on any of the three CAs, "
        "key-roll starts, forced sync / refresh / re-publication of all CAs, publications and withdrawals of the extra publisher, and read-outs of every CA, status and repository; in parallel a scheduler stand-in thread runs the task loop of scheduler::run (hook H-task). "
        "The yield points at the storage locks and in the command path sleep/yield pseudo-randomly from the seed. Requests of different threads commute (each thread owns its origin AS, ASPA customer, router key and files), so every serial order has the same answers and end state; "
        "One case in ten is run against the real daemon instead (start_krill_daemon in the worker, disk storage, testbed mode; parent, child and sibling CA created through the API): the same request sets are sent as HTTP requests by 2-5 client threads, "
        "the daemon's own HTTP workers and its own scheduler thread do the work, and quiescence is read off the task queue on disk; there the publication slots are reads of the publication server (the publication protocol needs signed messages). "
        "distinct by hash of the case JSON; non-trivial iff at least two threads sent state-changing requests to the same CA and background tasks ran during the concurrent phase",
        "floors": {"__nontrivial__": 0.70, "same_ca_from_2plus_threads": 0.80, "tasks_ran_concurrently": 0.80, "roa_added": 0.85, "keyroll_started": 0.30, "publisher_files": 0.45, "disk": 0.20, "daemon": 0.04},
        "assumptions": ["in nine cases of ten requests enter through the manager calls behind the HTTP routes on plain threads (the daemon's worker pool calls the same functions); in one of ten they go over HTTP to the real daemon", "the OS schedules the threads; interleavings are perturbed at the hook points, not enumerated",
                        "a request or task that does not return within 90 s of wall-clock time counts as a hang; it is reported only if it shows again when the shrunk case is re-run",
                        "key-roll starts may be refused (a roll is already in progress): either answer is serial"],
        "technique": "property-based concurrency testing with commuting request sets: generated multi-threaded request schedules against the real runtime plus scheduler stand-in, with the sequential reference model and the relying-party walk as oracle after quiescence (everything asked for is present once, nothing else, tree valid, RRDP/rsync/publisher views agree), "
        "per-request answers compared with the serial answer, watchdog for completion; right after the concurrent phase the repository content served and the CA status reported are compared with what a new instance loads from the same storage (no update lost between cache and storage); request threads also handle signed RFC 6492 list requests of remote children and queue the snapshot task; the same generator and oracle against the real daemon over HTTP (its worker and scheduler threads), plus 'every effective ROA request is in the command history exactly once'",
        "level_text": "Exploration by generated concurrent schedules with random perturbation. Sampling of schedules, not proof; a deadlock that needs a rare interleaving can be missed.",
        "level_note": "Trusted base: OS scheduling, the hook points, the reference model shared with C01.",
    },
    "C19": {
        "level": "exploration",
        "cases": {"quick": 1200, "thorough": 24000},
        "rule": "cases = generated (configuration, hierarchy, history) triples on memory and disk storage biased to operations that make exchanges fail and succeed again "
        "(publisher removed / re-created at the server, child removed at the parent, parent removed, identity replaced, suspension, key rolls, entitlement changes, CA deletion, restarts); "
        "at every checkpoint a probe exchange is made for every (CA, parent) and (CA, repository) through the public calls that return the outcome, so the probe is the most recent exchange and its "
        "outcome is known; distinct by hash of the case JSON; non-trivial iff a failed exchange was later followed by a success for the same peer, or a restart happened after a failure",
        "floors": {"__nontrivial__": 0.08, "failed_exchange": 0.20, "publisher_removed": 0.15, "restart": 0.05},
        "assumptions": W_ASSUME + ["timestamps are not compared", "the entitlements shown are compared with what the CA holds after synchronisation (for parents other than the trust anchor)"],
        "technique": "property-based testing of operation histories with probe exchanges: reported status (parents, repository, issues, children) compared with the known outcome of the most recent exchange; published-object list compared as a duplicate-free set with the publication server's content; status digest compared before and after restarts; reported status compared with a new status store on the same storage at every checkpoint; break/repair episodes (child removed and added again, identity replaced and registered, publisher removed and re-created) so that failures are followed by successes",
        "level_text": "Exploration by generated histories. failure-with-error iff the probe failed, success otherwise together with the entitlements, published list = server content after a successful sync, child entries at the parent, entries of removed parents/children/CAs gone, identical views across restart. Sampling, not proof.",
        "level_note": "Trusted base: the probe calls (ca_sync_parent, cas_repo_sync_single) are krill's own synchronisation entry points; their Ok/Err is taken as the outcome of the exchange.",
    },
    "C20": {
        "level": "exploration",
        "cases": {"quick": 480, "thorough": 9600},
        "rule": "cases = generated (authentication mode, 1-4 configured users with names from a pool of look-alikes - alice, Alice, 'alice ', ' alice', full-width alice, bob, fiona with and without the fi ligature - passwords from a pool with whitespace / case / compatibility variants, "
        "roles from five definitions incl. one without the login right and one scoped to a CA; optional mapping of the socket peer to a role; 6-24 steps) run against the real daemon started in-process with a Unix socket and a plain TCP listener. Steps: login attempts as configured and pool names with right and other passwords, "
        "and uses of a credential (none, the admin token, eight kinds of alteration of it, a session token obtained earlier, alterations of it: truncation, character change, case change, appended character, padding removed, URL-safe re-encoding, a bit flipped under the base64; a token issued by a second instance with the same users; arbitrary strings) over either transport. "
        "Each use is five requests to routes that need different permissions; distinct by hash of the case JSON; non-trivial iff a genuine session token was used and an altered or foreign one was refused",
        "floors": {"__nontrivial__": 0.35, "login_ok": 0.50, "altered_session_token_refused": 0.35, "altered_admin_token_refused": 0.50, "session_token": 0.35, "socket_peer_identity": 0.10, "foreign_token_refused": 0.05},
        "assumptions": ["the daemon is krill's start_krill_daemon running in the worker process; requests are hand-written HTTP/1.1 over the Unix socket and over TCP without TLS (https_mode disable)",
                        "a password matches if it is equal after trimming and NFKC normalisation (documented behaviour of krillc config user and the UI); user names must match the configured key exactly",
                        "which identity a request acted as is read from which of five routes with different permission needs were served (not 401/403)"],
        "technique": "property-based testing against the running daemon with an explicit identity oracle (admin token verbatim -> admin; session token issued by this instance -> that user's configured role; otherwise the role mapped to the socket peer on the Unix transport; otherwise nobody) and generated credential mutations; "
        "login oracle: success iff the name is a configured key, the password matches and the role may log in, and the session then acts with exactly that user's role",
        "level_text": "Exploration by generated configurations, logins and credential mutations against the real HTTP stack. Sampling, not proof.",
        "level_note": "Trusted base: the harness HTTP client; scrypt parameters copied from krillc config user.",
    },
    "C17": {
        "level": "exploration",
        "cases": {"quick": 200000, "thorough": 4000000},
        "rule": "cases = generated (announcement set, ROA configuration set, held resources, optional scope) tuples over a deliberately tiny address universe (two IPv4 /8s and two IPv6 /32s, "
        "lengths 0, 8-32 and 0, 32-128) so that nesting, equality and adjacency are dense; origins from six ASNs, ROAs additionally AS0, max length none / equal / +1 / family maximum, peers above and "
        "below the loader's threshold; distinct by hash of the case JSON; non-trivial iff some in-scope announcement is covered by ROAs of at least two different origins, or an announcement and a ROA have the same prefix",
        "floors": {"__nontrivial__": 0.40, "equal_prefix_pair": 0.10, "slash_zero": 0.05, "family_max_length": 0.30, "limited_scope": 0.20, "verdict:Valid": 0.20, "verdict:InvalidLength": 0.10, "verdict:Disallowed": 0.02},
        "assumptions": ["announcement data is loaded through krill's own RISwhois parser from generated text (hook H2)", "the too-permissive / redundant / unseen labels are krill policy and not compared; only verdicts, per-ROA authorised/disallowed sets, not-held and 'suggestions keep validating ROAs'"],
        "technique": "property-based differential testing of a pure function against a brute-force RFC 6811 validator, plus a metamorphic relation (the order of the configured ROAs is irrelevant)",
        "level_text": "Exploration by generated inputs with a brute-force reference validator as oracle; tens of thousands of cases per quick run (microseconds each). Sampling of a dense small universe, not proof.",
        "level_note": "Trusted base: the 20-line brute-force validator in harness/src/props/c17.rs and rpki ResourceSet containment.",
        "max_workers": 16,
    },
    "C10": {
        "level": "exploration",
        "cases": {"quick": 3200, "thorough": 60000},
        "rule": "cases = generated sequences of 5-60 (thorough: up to 120) publication-server operations for 2-5 publishers whose handles include string prefixes (ca, ca2), path prefixes (a, a/b) "
        "and case variants (ca, Ca): deltas of 0-8 elements mixing publish/update/withdraw with correct, stale and wrong hashes, URIs under the own base, another publisher's base, nobody's base, "
        "outside the repository and with upper-case scheme/host; list queries, RRDP updates (with and without a minimal delta interval so content stays staged), session resets, publisher removal and re-creation, "
        "restarts on disk; distinct by hash of the case JSON; non-trivial iff some delta of at least three elements was decided by a non-first element, or a delta addressed a URI outside the publisher's own base",
        "floors": {"__nontrivial__": 0.60, "delta_accepted": 0.80, "delta_refused": 0.80, "verdict_decided_by_non_first_element": 0.30, "publisher_removed": 0.20, "rrdp_update": 0.50},
        "assumptions": ["deltas are submitted through RepositoryManager::rfc8181_message (the path behind CMS validation; the signed path is C12's)", "scheme and host of rsync URIs are compared case-insensitively, the rest of the URI exactly", "the publisher 'ta' publishes at the repository root by design and is only a bystander"],
        "technique": "model-based property testing: every generated request is applied to the publication server and to a reference model of RFC 8181 (publisher -> uri -> bytes); verdict (iff), list replies, publisher details and the RRDP snapshot are compared after every request for every publisher",
        "level_text": "Exploration by generated request sequences against a reference model; accepted iff every element is applicable inside the publisher's jail, accepted deltas applied completely, refused deltas change nothing, other publishers' content never changes, removal withdraws exactly the publisher's objects, no URI has two owners. Sampling, not proof.",
        "level_note": "Trusted base: the 100-line reference model in harness/src/enginep.rs and rpki's RRDP parser.",
    },
    "C11": {
        "level": "fault_enumeration",
        "cases": {"quick": 6000, "thorough": 120000},
        "rule": "cases = generated (retention configuration, publication history) pairs on disk storage: accepted deltas of several publishers, RRDP updates, clock advances (so truncation by number, age and size trigger), "
        "session resets, publisher removal/re-creation, restarts, repository re-writes, and RRDP updates whose sequence of file-system mutations (delta and snapshot files, notification temp file, notification rename, "
        "rsync temp dir, the two rsync renames, clean-up removals/archiving) is cut at a generated point k in 1..15, either as a single failing write or as a crash (point k and all later points fail); "
        "a simulated client remembers the object map of every serial it has ever seen; distinct by hash of the case JSON; non-trivial iff at least six serials were observed with at least one truncation, "
        "or a write was interrupted and followed by at least two more writes",
        "floors": {"__nontrivial__": 0.12, "write_interrupted": 0.50, "deltas_truncated": 0.12, "session_reset": 0.20},
        "assumptions": ["retention settings are generated with 1 <= min_nr <= max_nr and min_seconds <= max_seconds (krill does not validate them; other combinations are configuration nonsense)", "retention bound as documented in config.rs: the first min_nr deltas and every delta younger than min_seconds are always kept; max_nr and max_seconds apply to the rest", "cut points are sampled per write (k generated), not enumerated exhaustively, in both tiers"],
        "technique": "model-based property testing with fault injection at generated cut points (hook H5): a simulated RRDP client with memory of every serial applies the offered delta chains strictly and compares with the snapshot and the reference model; rsync tree compared with the snapshot; after an interrupted write the old notification must stay consistent and later writes must succeed",
        "level_text": "Generated histories plus sampled cut points over the file-system mutation sequence of an update. For every observation: notification/snapshot/delta hashes, snapshot = publication state, every remembered serial reaches the snapshot through the offered chain, serial +1 per update, session only changes by reset, retention bounds, rsync = snapshot, recovery after interruption. Not exhaustive over cut points.",
        "level_note": "Trusted base: rpki RRDP parser, the reference model of Engine P, the fault hook (fails a mutation before it is performed).",
    },
    "C09": {
        "level": "exploration",
        "cases": {"quick": 4000, "thorough": 80000},
        "rule": "three kinds of generated cases: (a) sequences of 5-60 schedule (all five modes, explicit and implicit times, past and future) / claim / finish / reschedule / long-running-requeue / clock-advance / re-open operations on the task queue "
        "(memory and disk) against a reference model; (b) world histories on disk after which the daemon stops - cleanly or as a crash while exactly k in 0..3 tasks are claimed and running - followed by the restart procedure "
        "(re-queue running tasks, QueueStartTasks) and a pump; (c) about one case in sixty: the real daemon (start_krill_daemon, disk storage, testbed mode, one CA created through the API) receives 1-5 requests (ROA, ASPA, key roll) and is stopped "
        "right after the last one, 0-3 of the tasks pending at that moment are moved to the running scope as a claim does (what a crash in the middle of those tasks leaves), and a new daemon is started on the same directory, followed by 0-3 further requests; "
        "in (a) a re-scheduling of a running task while a task of the same name is pending is the last, checked step of a case; distinct by hash of the case JSON; non-trivial iff (a) a 'soonest' schedule met an existing task, a claim chose among several due tasks, "
        "a running task was finished by a schedule or a running task was re-scheduled next to a pending one of its name, or (b, c) at least one task was pending or running at the stop",
        "floors": {"__nontrivial__": 0.50, "queue:disk": 0.25, "queue:memory": 0.25, "stopped_with_running:1": 0.03, "stopped_with_running:2": 0.02, "crash_stop": 0.10, "reschedule_with_pending_follow_up": 0.03, "daemon_restart": 0.005},
        "assumptions": W_ASSUME + ["two pending entries of one task name arise only from re-scheduling a running task while the same name was scheduled again; the queue model checks that step and ends the case there", "tasks of deleted CAs are dropped legitimately",
                                   "(c) quiescence of the real daemon is read off its task queue on disk (nothing running, nothing due within 1.5 s, twice in a row more than one idle period of the scheduler apart)"],
        "technique": "model-based property testing of the task queue (reference model: earliest due task first, soonest modes keep the earlier time, if-missing adds nothing, nothing lost or duplicated) plus crash/restart histories whose oracle is: every pending or running task is pending after the restart procedure and is executed, recurring tasks are scheduled again, and the C01 oracle holds afterwards; the same for the real daemon's own start-up procedure and scheduler thread (queue drains, nothing stays marked running, acknowledged changes are in the repository per relying-party walk, recurring tasks pending)",
        "level_text": "Exploration by generated operation sequences and generated stop instants (number of running tasks at the stop is a generated parameter, so the single-running-task case is always covered). Sampling, not proof; 'eventually executed' is decided as 'executed by the deterministic pump once due'.",
        "level_note": "Trusted base: the queue reference model in harness/src/props/c09.rs, the pump, the relying-party walk. The real start-up procedure and scheduler thread are exercised by the daemon part (props/c09d.rs) and by C18.",
    },
}
