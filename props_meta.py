"""Per-property metadata for the driver: tier sizes, evidence texts, floors."""

W_ASSUME = [
    "rpki 0.19.2 decoding/validation code is the trusted base of the relying-party walk",
    "time is a virtual clock (clock_gettime interposed in the harness process); krill reads no other clock for decisions",
    "RSA keys come from a pre-generated pool (hook H8); key size and algorithm are unchanged",
    "background tasks are run by a deterministic pump that mirrors scheduler::run's result handling",
]

PROPS = {
    "C01": {
        "level": "exploration",
        "cases": {"quick": 400, "thorough": 8000},
        "rule": "cases = generated (configuration, hierarchy set-up, operation history) triples run against an in-process krill; "
        "distinct by hash of the canonical case JSON; non-trivial iff the history exercised at least one of: ROA aggregation "
        "mode switch between checkpoints, entitlement shrink followed by regain with ROAs present, a prefix held under two "
        "parents with VRPs, a key roll in progress at a checkpoint, a checkpoint after a clock jump, a child removed or suspended",
        "floors": {"__nontrivial__": 0.40, "agg_switch": 0.02, "roll_at_checkpoint": 0.03, "two_parents": 0.03},
        "assumptions": W_ASSUME,
        "technique": "property-based testing: generated hierarchies and operation histories against an in-process krill; oracle = relying-party walk (rpki crate) + intent model, set equality of payloads",
        "level_text": "Exploration by generated cases: every checkpoint of every generated history is validated top-down like a relying party would and compared with the configuration that krill accepted. It samples the space of histories/configurations (thousands of histories per run) and cannot show absence; it is the right level because the property quantifies over histories of a large stateful system for which an executable oracle (the RP walk) exists.",
        "level_note": "Trusted base: rpki 0.19.2 validation code, the harness' intent model (updated only from accepted operations), the deterministic pump standing in for scheduler::run, the virtual clock. 'Background work has caught up' = no task due, after three rounds of the periodic parent refresh. Two known findings (dangling CA certificates after a departing child) are listed in known_findings.jsonl.",
    },
}
