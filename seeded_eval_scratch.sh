#!/bin/bash
# usage: seeded_eval_scratch.sh <patch.diff> <check id>...
# Like seeded_eval.sh, but on a scratch copy: /tmp/eval/repo (a worktree of /repo at HEAD) and
# /tmp/eval/verif (a copy of /verif's working tree whose harness depends on /tmp/eval/repo), so
# that /repo and /verif stay free for editing while a seeded change is evaluated.
patch=$1; shift
mkdir -p /tmp/eval/verif
[ -d /tmp/eval/repo ] || git -C /repo worktree add --detach /tmp/eval/repo HEAD >/dev/null 2>&1
head=$(git -C /repo rev-parse HEAD)
git -C /tmp/eval/repo checkout -q -- . && git -C /tmp/eval/repo checkout -q --detach $head || exit 2
rsync -a --delete --exclude harness/target --exclude fuzz/target --exclude fuzz/artifacts --exclude cache --exclude .git --exclude replays --exclude evidence /verif/ /tmp/eval/verif/
mkdir -p /tmp/eval/verif/evidence /tmp/eval/verif/replays
ln -sfn /verif/cache /tmp/eval/verif/cache
sed -i 's#krill = { path = "/repo" }#krill = { path = "/tmp/eval/repo" }#' /tmp/eval/verif/harness/Cargo.toml
sed -i 's#/verif/harness/target#/tmp/eval/target#' /tmp/eval/verif/harness/.cargo/config.toml
sed -i 's#^BIN = .*#BIN = "/tmp/eval/target/release/kvh"#' /tmp/eval/verif/check
if [ "$patch" != "none" ]; then
  git -C /tmp/eval/repo apply "$patch" || { echo "patch does not apply"; exit 2; }
fi
for c in "$@"; do
  out=$(cd /tmp/eval/verif && VERIF_SEED=${VERIF_SEED:-7} ./check $c --tier ${TIER:-quick} 2>&1)
  rc=$?
  echo "== $c exit=$rc"
  echo "$out" | grep -E "^VIOLATION|^violation|^KNOWN|quick:|floor|BUILD|^error" | cut -c1-600 | head -8
done
git -C /tmp/eval/repo checkout -q -- .
