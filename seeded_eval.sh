#!/bin/bash
# usage: seeded_eval.sh <patch.diff> <check id>...   applies the patch to /repo, runs the quick checks, undoes it
patch=$1; shift
cd /repo && git apply "$patch" || { echo "patch does not apply"; exit 2; }
for c in "$@"; do
  out=$(cd /verif && VERIF_SEED=${VERIF_SEED:-7} ./check $c --tier quick 2>&1)
  rc=$?
  echo "== $c exit=$rc"
  echo "$out" | grep -E "^VIOLATION|^violation|^KNOWN|quick:|floor|BUILD" | cut -c1-600 | head -8
done
cd /repo && git checkout -- .
