//! Worker-side framework: case generation with proptest strategies, manual
//! shrinking, evidence fragments and replay files.
use std::collections::{BTreeMap, BTreeSet};
use std::fmt::Debug;
use std::hash::{Hash, Hasher};
use std::path::PathBuf;

use proptest::strategy::{BoxedStrategy, Strategy, ValueTree};
use proptest::test_runner::{Config, RngAlgorithm, TestRng, TestRunner};
use serde::de::DeserializeOwned;
use serde::{Deserialize, Serialize};
use serde_json::Value;

#[derive(Clone, Copy, Debug, PartialEq, Eq)]
pub enum Tier {
    Quick,
    Thorough,
}

/// Result of running one case.
pub enum Outcome {
    /// Held. `nontrivial` per the property's rule; `classes` are labels for the
    /// distribution report; `size` is a generated-size measure.
    Pass { nontrivial: bool, classes: Vec<String>, size: usize },
    /// The generated case is unsound for the code (e.g. krill itself rejects
    /// the configuration): discarded, counted.
    Discard(String),
    /// Property violated. `clause` identifies the oracle clause (used as the
    /// signature together with `key`).
    Violation { clause: String, key: String, msg: String },
    /// Harness problem: inconclusive.
    Harness(String),
}

pub trait Prop {
    type Case: Clone + Debug + Serialize + DeserializeOwned + 'static;
    const ID: &'static str;
    fn strategy(tier: Tier) -> BoxedStrategy<Self::Case>;
    /// Runs a case. `strict` is set for replays (no known-finding exclusion).
    fn run(case: &Self::Case, ctx: &Ctx) -> Outcome;
    fn sample(case: &Self::Case) -> Value {
        serde_json::to_value(case).unwrap_or(Value::Null)
    }
    /// How often a failing replay must fail to be reported (of `reruns`).
    fn reruns() -> (usize, usize) {
        (1, 5)
    }
    fn shrink_budget() -> usize {
        60
    }
}

/// Known findings that a property met but stepped over (non-strict mode), so
/// that the rest of the case is still explored: (signature, message).
pub static SOFT_KNOWN: std::sync::Mutex<Vec<(String, String)>> = std::sync::Mutex::new(Vec::new());

pub fn soft_known(signature: &str, msg: &str) {
    SOFT_KNOWN.lock().unwrap_or_else(|e| e.into_inner()).push((signature.to_string(), msg.to_string()));
}

pub struct Ctx {
    pub tier: Tier,
    pub strict: bool,
    pub case_nr: u64,
    pub worker: usize,
    pub known: Vec<KnownFinding>,
}

impl Ctx {
    pub fn is_known(&self, prop: &str, signature: &str) -> bool {
        // findings of the shared relying-party / payload oracle (listed under
        // C01) are the same findings when another property's check meets them
        let shared = ["rp-", "vrps:", "aspas:", "router-keys:"].iter().any(|p| signature.starts_with(p));
        self.known
            .iter()
            .any(|k| (k.property == prop || (shared && k.property == "C01")) && k.status == "known" && signature.starts_with(&k.signature))
    }
}

#[derive(Clone, Debug, Serialize, Deserialize)]
pub struct KnownFinding {
    pub property: String,
    pub status: String, // "known" | "fixed"
    pub signature: String,
    #[serde(default)]
    pub what: String,
    #[serde(default)]
    pub commit: String,
}

pub fn load_known() -> Vec<KnownFinding> {
    let mut res = Vec::new();
    if let Ok(text) = std::fs::read_to_string("/verif/known_findings.jsonl") {
        for line in text.lines() {
            let line = line.trim();
            if line.is_empty() || line.starts_with('#') {
                continue;
            }
            if let Ok(k) = serde_json::from_str::<KnownFinding>(line) {
                res.push(k);
            }
        }
    }
    res
}

#[derive(Clone, Debug, Serialize, Deserialize, Default)]
pub struct ViolationRec {
    pub signature: String,
    pub msg: String,
    pub replay: String,
    pub confirmed: String,
}

#[derive(Clone, Debug, Serialize, Deserialize, Default)]
pub struct Frag {
    pub property: String,
    pub worker: usize,
    pub seed: u64,
    pub evaluations: u64,
    pub discarded: u64,
    pub nontrivial_hashes: BTreeSet<u64>,
    pub classes: BTreeMap<String, u64>,
    pub samples: Vec<Value>,
    pub violations: Vec<ViolationRec>,
    pub known_hits: Vec<ViolationRec>,
    pub inconclusive: Vec<String>,
    #[serde(default)]
    pub unreproduced: Vec<String>,
    pub size_sum: u64,
    pub size_max: u64,
    pub wall_s: f64,
    pub extra: BTreeMap<String, Value>,
}

fn hash_case<C: Serialize>(c: &C) -> u64 {
    let s = serde_json::to_string(c).unwrap_or_default();
    let mut h = std::collections::hash_map::DefaultHasher::new();
    s.hash(&mut h);
    h.finish()
}

pub fn mix_seed(seed: u64, prop: &str, worker: usize) -> [u8; 32] {
    let mut out = [0u8; 32];
    let mut h = std::collections::hash_map::DefaultHasher::new();
    seed.hash(&mut h);
    prop.hash(&mut h);
    (worker as u64).hash(&mut h);
    let mut x = h.finish();
    for chunk in out.chunks_mut(8) {
        x ^= x << 13;
        x ^= x >> 7;
        x ^= x << 17;
        chunk.copy_from_slice(&x.to_le_bytes());
    }
    out
}

#[derive(Serialize, Deserialize)]
pub struct ReplayFile {
    pub property: String,
    pub signature: String,
    pub message: String,
    pub seed: u64,
    pub worker: usize,
    pub case: Value,
}

pub fn replay_dir() -> PathBuf {
    PathBuf::from("/verif/replays")
}

fn write_replay<P: Prop>(case: &P::Case, sig: &str, msg: &str, seed: u64, worker: usize) -> String {
    let _ = std::fs::create_dir_all(replay_dir());
    let rf = ReplayFile {
        property: P::ID.to_string(),
        signature: sig.to_string(),
        message: msg.to_string(),
        seed,
        worker,
        case: serde_json::to_value(case).unwrap_or(Value::Null),
    };
    let text = serde_json::to_string_pretty(&rf).unwrap();
    let mut h = std::collections::hash_map::DefaultHasher::new();
    text.hash(&mut h);
    let path = replay_dir().join(format!("{}-{:016x}.json", P::ID, h.finish()));
    let _ = std::fs::write(&path, text);
    path.display().to_string()
}

/// Runs `cases` generated cases of a property and returns the fragment.
pub fn run_worker<P: Prop>(tier: Tier, seed: u64, worker: usize, cases: u64) -> Frag {
    let t0 = std::time::Instant::now();
    let mut frag = Frag { property: P::ID.to_string(), worker, seed, ..Default::default() };
    let known = load_known();
    let strat = P::strategy(tier);
    let config = Config { cases: cases as u32, failure_persistence: None, max_shrink_iters: 0, ..Config::default() };
    let rng = TestRng::from_seed(RngAlgorithm::ChaCha, &mix_seed(seed, P::ID, worker));
    let mut runner = TestRunner::new_with_rng(config, rng);
    let mut ctx = Ctx { tier, strict: false, case_nr: 0, worker, known };
    let sample_every = (cases / 4).max(1);

    for i in 0..cases {
        ctx.case_nr = i;
        let mut tree = match strat.new_tree(&mut runner) {
            Ok(t) => t,
            Err(e) => {
                frag.inconclusive.push(format!("generator failed: {e}"));
                break;
            }
        };
        let case = tree.current();
        frag.evaluations += 1;
        SOFT_KNOWN.lock().unwrap_or_else(|e| e.into_inner()).clear();
        let outcome = P::run(&case, &ctx);
        let soft: Vec<(String, String)> = std::mem::take(&mut *SOFT_KNOWN.lock().unwrap_or_else(|e| e.into_inner()));
        for (sig, msg) in soft {
            *frag.classes.entry("known_finding_stepped_over".into()).or_default() += 1;
            if !frag.known_hits.iter().any(|k| k.signature == sig) {
                let replay = write_replay::<P>(&case, &sig, &msg, seed, worker);
                frag.known_hits.push(ViolationRec { signature: sig, msg, replay, confirmed: "stepped over".into() });
            }
        }
        match outcome {
            Outcome::Pass { nontrivial, classes, size } => {
                if nontrivial {
                    frag.nontrivial_hashes.insert(hash_case(&case));
                }
                for c in classes {
                    *frag.classes.entry(c).or_default() += 1;
                }
                frag.size_sum += size as u64;
                frag.size_max = frag.size_max.max(size as u64);
                if frag.samples.len() < 4 && (i % sample_every == 0) && nontrivial {
                    frag.samples.push(P::sample(&case));
                }
            }
            Outcome::Discard(why) => {
                frag.discarded += 1;
                *frag.classes.entry(format!("discard:{why}")).or_default() += 1;
            }
            Outcome::Harness(e) => {
                frag.inconclusive.push(format!("case {i}: {e}"));
                if frag.inconclusive.len() > 20 {
                    break;
                }
            }
            Outcome::Violation { clause, key, msg } => {
                let signature = format!("{clause}:{key}");
                // exploration mode (development aid): count signatures, no shrinking
                if std::env::var("KVH_EXPLORE").is_ok() {
                    *frag.classes.entry(format!("viol:{signature}")).or_default() += 1;
                    if frag.samples.len() < 40 {
                        frag.samples.push(serde_json::json!({"signature": signature, "msg": msg.chars().take(600).collect::<String>()}));
                    }
                    continue;
                }
                // shrink, keeping the same clause
                let mut best = (case.clone(), msg.clone(), signature.clone());
                let mut budget = P::shrink_budget();
                // shrinking is also bounded in wall-clock time: a violation such as "background work
                // does not settle" makes every run of the case slow, and a minimal case is a
                // convenience, not part of the verdict
                let shrink_t0 = std::time::Instant::now();
                let shrink_limit = std::time::Duration::from_secs(if frag.violations.is_empty() { 60 } else { 20 });
                'outer: while budget > 0 {
                    if !tree.simplify() {
                        break;
                    }
                    loop {
                        if budget == 0 || shrink_t0.elapsed() > shrink_limit {
                            break 'outer;
                        }
                        budget -= 1;
                        let cand = tree.current();
                        let failed = match P::run(&cand, &ctx) {
                            Outcome::Violation { clause: c2, key: k2, msg: m2 } if c2 == clause => {
                                best = (cand, m2, format!("{c2}:{k2}"));
                                true
                            }
                            _ => false,
                        };
                        if failed {
                            break;
                        }
                        if !tree.complicate() {
                            break 'outer;
                        }
                    }
                }
                let (bcase, bmsg, bsig) = best;
                // confirm from the shrunk case
                let (need, mut of) = P::reruns();
                let strict_ctx = Ctx { tier, strict: true, case_nr: i, worker, known: ctx.known.clone() };
                let mut fails = 0;
                let mut done = 0;
                let confirm_t0 = std::time::Instant::now();
                while done < of {
                    if let Outcome::Violation { clause: c2, .. } = P::run(&bcase, &strict_ctx) {
                        if c2 == clause {
                            fails += 1;
                        }
                    }
                    done += 1;
                    // slow cases are confirmed with fewer re-runs (never fewer than needed to report)
                    if confirm_t0.elapsed() > std::time::Duration::from_secs(40) && fails >= need {
                        of = done;
                    }
                }
                let replay = write_replay::<P>(&bcase, &bsig, &bmsg, seed, worker);
                let rec = ViolationRec {
                    signature: bsig.clone(),
                    msg: bmsg,
                    replay,
                    confirmed: format!("{fails}/{of}"),
                };
                if ctx.is_known(P::ID, &bsig) {
                    // a listed finding: reported as such whether or not this
                    // instance reproduces (the system under test is not
                    // deterministic: random serials, map order, jitter)
                    if !frag.known_hits.iter().any(|k| k.signature == rec.signature) {
                        frag.known_hits.push(rec);
                    }
                } else if fails < need {
                    frag.unreproduced.push(format!(
                        "violation {} observed once but did not reproduce ({}/{}); replay {}",
                        rec.signature, fails, of, rec.replay
                    ));
                } else {
                    frag.violations.push(rec);
                    if frag.violations.len() >= 3 {
                        break;
                    }
                }
            }
        }
    }
    frag.wall_s = t0.elapsed().as_secs_f64();
    frag
}

/// Replays a case from a file, strictly; returns (violated, message).
pub fn replay<P: Prop>(rf: &ReplayFile, times: usize) -> Vec<(bool, String)> {
    let case: P::Case = match serde_json::from_value(rf.case.clone()) {
        Ok(c) => c,
        Err(e) => return vec![(false, format!("replay file does not parse: {e}"))],
    };
    let ctx = Ctx { tier: Tier::Quick, strict: true, case_nr: 0, worker: rf.worker, known: load_known() };
    let mut res = Vec::new();
    for _ in 0..times {
        match P::run(&case, &ctx) {
            Outcome::Violation { clause, key, msg } => res.push((true, format!("{clause}:{key} {msg}"))),
            Outcome::Pass { .. } => res.push((false, "pass".to_string())),
            Outcome::Discard(w) => res.push((false, format!("discarded: {w}"))),
            Outcome::Harness(e) => res.push((false, format!("harness: {e}"))),
        }
    }
    res
}
