//! A relying-party validator (top-down walk) used as the oracle for the
//! published tree. Trusted base: rpki 0.19.2 decoding / validation code.
use std::collections::{BTreeMap, BTreeSet};
use std::str::FromStr;
use std::sync::Arc;

use bytes::Bytes;
use rpki::crypto::KeyIdentifier;
use rpki::repository::aspa::Aspa;
use rpki::repository::cert::{Cert, ResourceCert};
use rpki::repository::crl::Crl;
use rpki::repository::manifest::Manifest;
use rpki::repository::resources::ResourceSet;
use rpki::repository::roa::Roa;
use rpki::repository::tal::{Tal, TalInfo};
use rpki::repository::error::ValidationError;
use rpki::repository::x509::{Serial, Time};
use rpki::uri;

pub type Served = BTreeMap<String, Bytes>;

#[derive(Clone, Debug, PartialEq, Eq, PartialOrd, Ord)]
pub struct Vrp {
    pub asn: u32,
    pub prefix: String, // canonical "addr/len"
    pub maxlen: u8,
}

#[derive(Clone, Debug)]
pub struct CaCertInfo {
    pub uri: String,
    pub ski: String,
    pub aki: Option<String>,
    pub serial: String,
    pub not_after: i64,
    pub not_before: i64,
    pub resources: ResourceSet,
    pub repo: String,
    pub mft_uri: String,
}

#[derive(Clone, Debug, PartialEq, Eq, PartialOrd, Ord)]
pub enum Kind {
    Mft,
    Crl,
    CaCert,
    RouterCert,
    Roa,
    Aspa,
    Other,
}

#[derive(Clone, Debug)]
pub struct ObjInfo {
    pub uri: String,
    pub kind: Kind,
    /// key identifier of the issuing CA key
    pub issuer: String,
    pub serial: String,
    pub not_before: i64,
    pub not_after: i64,
    pub hash: String,
}

#[derive(Clone, Debug)]
pub struct PubPoint {
    pub ca_uri: String,
    pub key: String,
    pub repo: String,
    pub mft_uri: String,
    pub mft_number: String,
    pub crl_number: String,
    pub mft_this: i64,
    pub mft_next: i64,
    pub crl_this: i64,
    pub crl_next: i64,
    pub revoked_count: usize,
    pub files: Vec<String>,
    pub resources: ResourceSet,
}

#[derive(Clone, Debug, Default)]
pub struct RpReport {
    pub issues: Vec<String>,
    pub accepted: BTreeSet<String>,
    pub vrps: BTreeSet<Vrp>,
    /// vrp -> keys (SKI of issuing CA cert) under which it was seen
    pub vrp_by_key: BTreeMap<Vrp, BTreeSet<String>>,
    pub aspas: BTreeSet<(u32, Vec<u32>)>,
    pub router_keys: BTreeSet<(u32, String)>,
    pub ca_certs: Vec<CaCertInfo>,
    pub objects: Vec<ObjInfo>,
    pub pps: Vec<PubPoint>,
}

impl RpReport {
    pub fn ok(&self) -> bool {
        self.issues.is_empty()
    }
}

fn ts(t: Time) -> i64 {
    t.timestamp()
}

fn sha256_hex(b: &[u8]) -> String {
    hex::encode(openssl::sha::sha256(b))
}

pub fn hash_hex(b: &[u8]) -> String {
    sha256_hex(b)
}

fn ext(uri: &str) -> &str {
    uri.rsplit_once('.').map(|x| x.1).unwrap_or("")
}

pub struct Rp<'a> {
    served: &'a Served,
    now: Time,
    strict: bool,
    rep: RpReport,
    listed: BTreeSet<String>,
    visited: BTreeSet<String>,
}

pub fn validate(ta_cert: &Bytes, tal: &str, served: &Served, now_s: i64) -> RpReport {
    let now = Time::new(chrono::DateTime::from_timestamp(now_s, 0).unwrap());
    let mut rp = Rp {
        served,
        now,
        strict: true,
        rep: RpReport::default(),
        listed: BTreeSet::new(),
        visited: BTreeSet::new(),
    };
    rp.run(ta_cert, tal);
    rp.rep
}

impl<'a> Rp<'a> {
    fn issue(&mut self, s: String) {
        if self.rep.issues.len() < 200 {
            self.rep.issues.push(s);
        }
    }

    fn run(&mut self, ta_cert: &Bytes, tal: &str) {
        let tal = match Tal::read_named("ta".into(), &mut tal.as_bytes()) {
            Ok(t) => t,
            Err(e) => {
                self.issue(format!("TAL does not parse: {e}"));
                return;
            }
        };
        let cert = match Cert::decode(ta_cert.clone()) {
            Ok(c) => c,
            Err(e) => {
                self.issue(format!("TA cert does not decode: {e}"));
                return;
            }
        };
        if cert.subject_public_key_info() != tal.key_info() {
            self.issue("TA certificate key differs from TAL key".into());
            return;
        }
        let info: Arc<TalInfo> = tal.info().clone();
        let rc = match cert.validate_ta_at(info, self.strict, self.now) {
            Ok(rc) => rc,
            Err(e) => {
                self.issue(format!("TA cert invalid: {e}"));
                return;
            }
        };
        self.walk_ca(rc, "ta.cer".to_string(), 0);

        // repository-wide: every served file must be listed on a validated
        // manifest (or be such a manifest).
        let unlisted: Vec<String> = self.served.keys().filter(|u| !self.listed.contains(*u)).cloned().collect();
        for u in unlisted {
            self.issue(format!("present-but-unlisted (or unreachable) file: {u}"));
        }
    }

    fn walk_ca(&mut self, cert: ResourceCert, cert_uri: String, depth: usize) {
        if depth > 8 {
            self.issue(format!("CA chain too deep at {cert_uri}"));
            return;
        }
        let c = cert.as_cert();
        let ski = c.subject_key_identifier().to_string();
        let resources = ResourceSet::try_from(c).unwrap_or_default();
        let (Some(repo), Some(mft_uri)) = (c.ca_repository().cloned(), c.rpki_manifest().cloned()) else {
            self.issue(format!("CA cert {cert_uri} lacks SIA"));
            return;
        };
        self.rep.ca_certs.push(CaCertInfo {
            uri: cert_uri.clone(),
            ski: ski.clone(),
            aki: c.authority_key_identifier().map(|k| k.to_string()),
            serial: c.serial_number().to_string(),
            not_after: ts(c.validity().not_after()),
            not_before: ts(c.validity().not_before()),
            resources: resources.clone(),
            repo: repo.to_string(),
            mft_uri: mft_uri.to_string(),
        });
        if !self.visited.insert(format!("{ski}@{mft_uri}")) {
            self.issue(format!("CA key {ski} reached twice ({cert_uri})"));
            return;
        }

        // manifest
        let Some(mft_bytes) = self.served.get(mft_uri.as_str()).cloned() else {
            self.issue(format!("no manifest at {mft_uri} for CA cert {cert_uri}"));
            return;
        };
        self.listed.insert(mft_uri.to_string());
        let mft = match Manifest::decode(mft_bytes.clone(), self.strict) {
            Ok(m) => m,
            Err(e) => {
                self.issue(format!("manifest {mft_uri} does not decode: {e}"));
                return;
            }
        };
        let mft_ee_serial = mft.cert().serial_number();
        let mft_ee_crl = mft.cert().crl_uri().cloned();
        let mft_ee_validity = mft.cert().validity();
        let (_ee, content) = match mft.validate_at(&cert, self.strict, self.now) {
            Ok(x) => x,
            Err(e) => {
                self.issue(format!("manifest {mft_uri} invalid: {e}"));
                return;
            }
        };
        if content.next_update() < self.now {
            self.issue(format!("manifest {mft_uri} is stale (next update {})", content.next_update().to_rfc3339()));
        }
        if content.this_update() > self.now {
            self.issue(format!("manifest {mft_uri} thisUpdate in the future"));
        }
        self.rep.accepted.insert(mft_uri.to_string());
        self.rep.objects.push(ObjInfo {
            uri: mft_uri.to_string(),
            kind: Kind::Mft,
            issuer: ski.clone(),
            serial: mft_ee_serial.to_string(),
            not_before: ts(mft_ee_validity.not_before()),
            not_after: ts(mft_ee_validity.not_after()),
            hash: sha256_hex(&mft_bytes),
        });

        // file list
        let mut files: Vec<(uri::Rsync, rpki::repository::manifest::ManifestHash)> = content.iter_uris(&repo).collect();
        files.sort_by(|a, b| a.0.as_str().cmp(b.0.as_str()));
        let mut names = BTreeSet::new();
        for (u, _) in &files {
            if !names.insert(u.to_string()) {
                self.issue(format!("manifest {mft_uri} lists {u} twice"));
            }
        }

        // CRL
        let Some(crl_uri) = mft_ee_crl else {
            self.issue(format!("manifest EE cert of {mft_uri} has no CRL DP"));
            return;
        };
        let crl_listed = files.iter().find(|(u, _)| u == &crl_uri).cloned();
        let Some((_, crl_hash)) = crl_listed else {
            self.issue(format!("CRL {crl_uri} not listed on manifest {mft_uri}"));
            return;
        };
        let Some(crl_bytes) = self.served.get(crl_uri.as_str()).cloned() else {
            self.issue(format!("CRL {crl_uri} listed on manifest but not served"));
            return;
        };
        if crl_hash.verify(&crl_bytes).is_err() {
            self.issue(format!("CRL {crl_uri} hash mismatch with manifest"));
            return;
        }
        let mut crl = match Crl::decode(crl_bytes.clone()) {
            Ok(c) => c,
            Err(e) => {
                self.issue(format!("CRL {crl_uri} does not decode: {e}"));
                return;
            }
        };
        if crl.verify_signature(c.subject_public_key_info()).is_err() {
            self.issue(format!("CRL {crl_uri} signature invalid"));
            return;
        }
        if crl.next_update() < self.now {
            self.issue(format!("CRL {crl_uri} is stale"));
        }
        crl.cache_serials();
        if crl.contains(mft_ee_serial) {
            self.issue(format!("manifest {mft_uri} EE cert is revoked"));
        }
        let revoked_count = crl.revoked_certs().iter().count();
        self.rep.pps.push(PubPoint {
            ca_uri: cert_uri.clone(),
            key: ski.clone(),
            repo: repo.to_string(),
            mft_uri: mft_uri.to_string(),
            mft_number: content.manifest_number().to_string(),
            crl_number: crl.crl_number().to_string(),
            mft_this: ts(content.this_update()),
            mft_next: ts(content.next_update()),
            crl_this: ts(crl.this_update()),
            crl_next: ts(crl.next_update()),
            revoked_count,
            files: files.iter().map(|f| f.0.to_string()).collect(),
            resources: resources.clone(),
        });

        let mut children: Vec<(ResourceCert, String)> = Vec::new();
        for (u, h) in files {
            let us = u.to_string();
            self.listed.insert(us.clone());
            let Some(bytes) = self.served.get(&us).cloned() else {
                self.issue(format!("listed-but-missing: {us} (manifest {mft_uri})"));
                continue;
            };
            if h.verify(&bytes).is_err() {
                self.issue(format!("hash mismatch for {us} (manifest {mft_uri})"));
                continue;
            }
            let hash = sha256_hex(&bytes);
            match ext(&us) {
                "crl" => {
                    if u != crl_uri {
                        self.issue(format!("stray CRL {us} on manifest {mft_uri}"));
                    } else {
                        self.rep.accepted.insert(us.clone());
                        self.rep.objects.push(ObjInfo {
                            uri: us,
                            kind: Kind::Crl,
                            issuer: ski.clone(),
                            serial: crl.crl_number().to_string(),
                            not_before: ts(crl.this_update()),
                            not_after: ts(crl.next_update()),
                            hash,
                        });
                    }
                }
                "cer" => {
                    let cc = match Cert::decode(bytes.clone()) {
                        Ok(c) => c,
                        Err(e) => {
                            self.issue(format!("cert {us} does not decode: {e}"));
                            continue;
                        }
                    };
                    let serial = cc.serial_number();
                    let validity = cc.validity();
                    if crl.contains(serial) {
                        self.issue(format!("cert {us} is published but revoked"));
                        continue;
                    }
                    if cc.is_ca() {
                        match cc.validate_ca_at(&cert, self.strict, self.now) {
                            Ok(rc) => {
                                self.rep.accepted.insert(us.clone());
                                self.rep.objects.push(ObjInfo {
                                    uri: us.clone(),
                                    kind: Kind::CaCert,
                                    issuer: ski.clone(),
                                    serial: serial.to_string(),
                                    not_before: ts(validity.not_before()),
                                    not_after: ts(validity.not_after()),
                                    hash,
                                });
                                children.push((rc, us));
                            }
                            Err(e) => self.issue(format!("CA cert {us} invalid: {e}")),
                        }
                    } else {
                        match cc.validate_router_at(&cert, self.strict, self.now) {
                            Ok(()) => {
                                self.rep.accepted.insert(us.clone());
                                let key = cc.subject_key_identifier().to_string();
                                if let Ok(blocks) = cc.as_resources().to_blocks() {
                                    for asn in blocks.iter_asns() {
                                        self.rep.router_keys.insert((asn.into_u32(), key.clone()));
                                    }
                                }
                                self.rep.objects.push(ObjInfo {
                                    uri: us,
                                    kind: Kind::RouterCert,
                                    issuer: ski.clone(),
                                    serial: serial.to_string(),
                                    not_before: ts(validity.not_before()),
                                    not_after: ts(validity.not_after()),
                                    hash,
                                });
                            }
                            Err(e) => self.issue(format!("router cert {us} invalid: {e}")),
                        }
                    }
                }
                "roa" => {
                    let roa = match Roa::decode(bytes.clone(), self.strict) {
                        Ok(r) => r,
                        Err(e) => {
                            self.issue(format!("ROA {us} does not decode: {e}"));
                            continue;
                        }
                    };
                    let serial = roa.cert().serial_number();
                    let validity = roa.cert().validity();
                    let crl_ref = &crl;
                    match roa.process(&cert, self.strict, |ee| check_crl(ee, crl_ref, &crl_uri)) {
                        Ok((_ee, att)) => {
                            self.rep.accepted.insert(us.clone());
                            let asn = att.as_id().into_u32();
                            for a in att.iter() {
                                let vrp = Vrp {
                                    asn,
                                    prefix: format!("{}/{}", a.address(), a.address_length()),
                                    maxlen: a.max_length(),
                                };
                                self.rep.vrp_by_key.entry(vrp.clone()).or_default().insert(ski.clone());
                                self.rep.vrps.insert(vrp);
                            }
                            self.rep.objects.push(ObjInfo {
                                uri: us,
                                kind: Kind::Roa,
                                issuer: ski.clone(),
                                serial: serial.to_string(),
                                not_before: ts(validity.not_before()),
                                not_after: ts(validity.not_after()),
                                hash,
                            });
                        }
                        Err(e) => self.issue(format!("ROA {us} invalid: {e}")),
                    }
                }
                "asa" => {
                    let aspa = match Aspa::decode(bytes.clone(), self.strict) {
                        Ok(r) => r,
                        Err(e) => {
                            self.issue(format!("ASPA {us} does not decode: {e}"));
                            continue;
                        }
                    };
                    let serial = aspa.cert().serial_number();
                    let validity = aspa.cert().validity();
                    let crl_ref = &crl;
                    match aspa.process(&cert, self.strict, |ee| check_crl(ee, crl_ref, &crl_uri)) {
                        Ok((_ee, att)) => {
                            self.rep.accepted.insert(us.clone());
                            let mut provs: Vec<u32> = att.provider_as_set().iter().map(|p| p.into_u32()).collect();
                            provs.sort();
                            self.rep.aspas.insert((att.customer_as().into_u32(), provs));
                            self.rep.objects.push(ObjInfo {
                                uri: us,
                                kind: Kind::Aspa,
                                issuer: ski.clone(),
                                serial: serial.to_string(),
                                not_before: ts(validity.not_before()),
                                not_after: ts(validity.not_after()),
                                hash,
                            });
                        }
                        Err(e) => self.issue(format!("ASPA {us} invalid: {e}")),
                    }
                }
                "mft" => {
                    self.issue(format!("manifest {us} listed on manifest {mft_uri}"));
                }
                other => {
                    self.issue(format!("unknown object type .{other}: {us}"));
                }
            }
        }
        for (rc, u) in children {
            self.walk_ca(rc, u, depth + 1);
        }
    }
}

fn check_crl(ee: &Cert, crl: &Crl, crl_uri: &uri::Rsync) -> Result<(), ValidationError> {
    if ee.crl_uri() != Some(crl_uri) {
        return Err(rpki::repository::error::VerificationError::new("EE CRL DP differs from the CA's CRL").into());
    }
    if crl.contains(ee.serial_number()) {
        return Err(rpki::repository::error::VerificationError::new("EE certificate revoked").into());
    }
    Ok(())
}

#[allow(dead_code)]
pub fn key_id_from_hex(s: &str) -> Option<KeyIdentifier> {
    KeyIdentifier::from_str(s).ok()
}

#[allow(dead_code)]
pub fn serial_str(s: Serial) -> String {
    s.to_string()
}

/// Lightweight decode of every served object without validation: used by the
/// "ever seen" tracking of C03 (issuer key, serial, notAfter).
pub fn scan(served: &Served) -> Vec<ObjInfo> {
    let mut res = Vec::new();
    for (u, b) in served {
        let hash = sha256_hex(b);
        match ext(u) {
            "cer" => {
                if let Ok(c) = Cert::decode(b.clone()) {
                    let Some(aki) = c.authority_key_identifier() else { continue };
                    if c.is_self_signed() {
                        continue;
                    }
                    res.push(ObjInfo {
                        uri: u.clone(),
                        kind: if c.is_ca() { Kind::CaCert } else { Kind::RouterCert },
                        issuer: aki.to_string(),
                        serial: c.serial_number().to_string(),
                        not_before: ts(c.validity().not_before()),
                        not_after: ts(c.validity().not_after()),
                        hash,
                    });
                }
            }
            "roa" => {
                if let Ok(r) = Roa::decode(b.clone(), false) {
                    let c = r.cert();
                    if let Some(aki) = c.authority_key_identifier() {
                        res.push(ObjInfo {
                            uri: u.clone(),
                            kind: Kind::Roa,
                            issuer: aki.to_string(),
                            serial: c.serial_number().to_string(),
                            not_before: ts(c.validity().not_before()),
                            not_after: ts(c.validity().not_after()),
                            hash,
                        });
                    }
                }
            }
            "asa" => {
                if let Ok(r) = Aspa::decode(b.clone(), false) {
                    let c = r.cert();
                    if let Some(aki) = c.authority_key_identifier() {
                        res.push(ObjInfo {
                            uri: u.clone(),
                            kind: Kind::Aspa,
                            issuer: aki.to_string(),
                            serial: c.serial_number().to_string(),
                            not_before: ts(c.validity().not_before()),
                            not_after: ts(c.validity().not_after()),
                            hash,
                        });
                    }
                }
            }
            "mft" => {
                if let Ok(m) = Manifest::decode(b.clone(), false) {
                    let c = m.cert();
                    if let Some(aki) = c.authority_key_identifier() {
                        res.push(ObjInfo {
                            uri: u.clone(),
                            kind: Kind::Mft,
                            issuer: aki.to_string(),
                            serial: m.content().manifest_number().to_string(),
                            not_before: ts(m.content().this_update()),
                            not_after: ts(m.content().next_update()),
                            hash,
                        });
                    }
                }
            }
            "crl" => {
                if let Ok(c) = Crl::decode(b.clone()) {
                    res.push(ObjInfo {
                        uri: u.clone(),
                        kind: Kind::Crl,
                        issuer: c.authority_key_identifier().to_string(),
                        serial: c.crl_number().to_string(),
                        not_before: ts(c.this_update()),
                        not_after: ts(c.next_update()),
                        hash,
                    });
                }
            }
            _ => {}
        }
    }
    res
}

/// The CRLs found in the served files by issuing key (AKI hex), without
/// validation.
pub fn crls_by_key(served: &Served) -> BTreeMap<String, Crl> {
    let mut res = BTreeMap::new();
    for (u, b) in served {
        if ext(u) == "crl" {
            if let Ok(mut c) = Crl::decode(b.clone()) {
                c.cache_serials();
                res.insert(c.authority_key_identifier().to_string(), c);
            }
        }
    }
    res
}

pub fn parse_serial(s: &str) -> Option<Serial> {
    Serial::from_str(s).ok()
}

/// CA certificates among the served files, decoded without validation:
/// (uri, subject key id, authority key id, resources).
pub fn ca_certs_in(served: &Served) -> Vec<(String, String, String, ResourceSet)> {
    let mut res = Vec::new();
    for (u, b) in served {
        if ext(u) != "cer" {
            continue;
        }
        match Cert::decode(b.clone()) {
            Ok(c) => {
                if !c.is_ca() || c.is_self_signed() {
                    continue;
                }
                let Some(aki) = c.authority_key_identifier() else { continue };
                let rs = ResourceSet::try_from(&c).unwrap_or_default();
                res.push((u.clone(), c.subject_key_identifier().to_string(), aki.to_string(), rs));
            }
            Err(_) => {
                // undecodable certificate: reported with an empty key
                res.push((u.clone(), String::new(), String::new(), ResourceSet::empty()));
            }
        }
    }
    res
}
