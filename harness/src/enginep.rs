//! Engine P: the publication server driven directly, with a reference model
//! of RFC 8181 and a simulated RRDP/rsync client.
use std::collections::{BTreeMap, BTreeSet};
use std::str::FromStr;

use bytes::Bytes;
use krill::api::ca::IdCertInfo;
use proptest::collection::vec;
use proptest::prelude::*;
use rpki::ca::idexchange::{PublisherHandle, PublisherRequest};
use rpki::ca::publication::{Base64, Publish, PublishDelta, Query, Update, Withdraw};
use rpki::rrdp::Hash;
use rpki::uri;
use serde::{Deserialize, Serialize};

use crate::clock;
use crate::ops::{Fail, Sim};
use crate::rrdpc;
use crate::world::{guarded, WorldCfg, TA};

/// Publisher handles: string prefixes of one another, path prefixes, case
/// variants.
pub const HANDLES: &[&str] = &["ca", "ca2", "a", "a/b", "Ca", "pub-x"];
pub const NAMES: &[&str] = &["x.roa", "y.cer", "z.mft", "d/e.crl", "x.roa.bak", "W.ROA"];

#[derive(Clone, Debug, Serialize, Deserialize, PartialEq)]
pub enum UriSel {
    Own(u8),
    /// under the base of publisher i
    Other(u8, u8),
    /// under the repository base but under nobody's base
    Nobody(u8),
    /// own uri with upper-case scheme and host
    OwnCase(u8),
    /// outside the repository altogether
    Foreign(u8),
}

#[derive(Clone, Debug, Serialize, Deserialize, PartialEq)]
pub enum HashSel {
    Correct,
    /// hash of an earlier version / other content
    Wrong(u8),
}

#[derive(Clone, Debug, Serialize, Deserialize, PartialEq)]
pub enum El {
    Publish(UriSel, u8),
    Update(UriSel, u8, HashSel),
    Withdraw(UriSel, HashSel),
}

#[derive(Clone, Debug, Serialize, Deserialize, PartialEq)]
pub enum POp {
    Delta { publisher: u8, els: Vec<El> },
    List { publisher: u8 },
    RrdpUpdate,
    SessionReset,
    RemovePublisher { publisher: u8 },
    AddPublisher { publisher: u8 },
    Advance { secs: u16 },
    Restart,
}

pub fn uri_sel() -> impl Strategy<Value = UriSel> {
    prop_oneof![
        12 => (0u8..6).prop_map(UriSel::Own),
        2 => (0u8..6, 0u8..6).prop_map(|(p, n)| UriSel::Other(p, n)),
        1 => (0u8..6).prop_map(UriSel::Nobody),
        2 => (0u8..6).prop_map(UriSel::OwnCase),
        1 => (0u8..6).prop_map(UriSel::Foreign),
    ]
}

pub fn hash_sel() -> impl Strategy<Value = HashSel> {
    prop_oneof![6 => Just(HashSel::Correct), 1 => (0u8..4).prop_map(HashSel::Wrong)]
}

pub fn el() -> impl Strategy<Value = El> {
    prop_oneof![
        5 => (uri_sel(), 0u8..8).prop_map(|(u, c)| El::Publish(u, c)),
        3 => (uri_sel(), 0u8..8, hash_sel()).prop_map(|(u, c, h)| El::Update(u, c, h)),
        3 => (uri_sel(), hash_sel()).prop_map(|(u, h)| El::Withdraw(u, h)),
    ]
}

pub fn pop(n_pub: u8, disk: bool) -> BoxedStrategy<POp> {
    let mut opts: Vec<(u32, BoxedStrategy<POp>)> = vec![
        (30, (0..n_pub, vec(el(), 0..8)).prop_map(|(publisher, els)| POp::Delta { publisher, els }).boxed()),
        (3, (0..n_pub).prop_map(|publisher| POp::List { publisher }).boxed()),
        (8, Just(POp::RrdpUpdate).boxed()),
        (1, Just(POp::SessionReset).boxed()),
        (2, (0..n_pub).prop_map(|publisher| POp::RemovePublisher { publisher }).boxed()),
        (2, (0..n_pub).prop_map(|publisher| POp::AddPublisher { publisher }).boxed()),
        (4, prop_oneof![1u16..30, 30u16..4000].prop_map(|secs| POp::Advance { secs }).boxed()),
    ];
    if disk {
        opts.push((1, Just(POp::Restart).boxed()));
    }
    proptest::strategy::Union::new_weighted(opts).boxed()
}

pub fn content(c: u8) -> Bytes {
    // distinct small contents; 0 is the empty object
    if c == 0 {
        Bytes::new()
    } else if c >= 8 {
        // big objects (1, 2, 4, 8 kB): with these the size rule of the delta retention (all deltas together
        // no bigger than the snapshot) cuts between deltas of very different sizes
        Bytes::from(format!("big-object-{c}-").repeat(64 << (c.min(11) - 8)))
    } else {
        Bytes::from(format!("object-content-{c}").repeat(c as usize))
    }
}

pub fn canon(uri: &str) -> String {
    // scheme and host are case-insensitive
    if let Some(rest) = uri.get(8..) {
        if uri[..8].eq_ignore_ascii_case("rsync://") {
            if let Some((host, path)) = rest.split_once('/') {
                return format!("rsync://{}/{}", host.to_ascii_lowercase(), path);
            }
        }
    }
    uri.to_string()
}

pub struct PubWorld {
    pub sim: Sim,
    pub n_pub: usize,
    /// publishers that currently exist (by index)
    pub exists: BTreeSet<usize>,
    pub ids: Vec<IdCertInfo>,
    /// reference model: publisher -> canonical uri -> content
    pub model: BTreeMap<String, BTreeMap<String, Bytes>>,
    pub stats: BTreeMap<String, u64>,
}

#[derive(Debug, PartialEq)]
pub enum Verdict {
    Accepted,
    Refused(String),
}

impl PubWorld {
    pub fn new(cfg: WorldCfg, n_pub: usize, key_start: usize) -> Result<Self, Fail> {
        let sim = Sim::new(cfg, key_start)?;
        let mut ids = Vec::new();
        for _ in 0..n_pub {
            let cert = sim.w().rt.signer().create_self_signed_id_cert().map_err(|e| Fail::Harness(format!("id cert: {e}")))?;
            ids.push(IdCertInfo::from(&cert));
        }
        let mut w = PubWorld { sim, n_pub, exists: BTreeSet::new(), ids, model: BTreeMap::new(), stats: BTreeMap::new() };
        // the trust anchor is a bystander publisher
        let ta = w.sim.w().served_for(TA).map_err(Fail::Harness)?;
        w.model.insert(TA.to_string(), ta.into_iter().map(|(u, b)| (canon(&u), b)).collect());
        for i in 0..n_pub {
            w.add_publisher(i)?;
        }
        Ok(w)
    }

    fn hit(&mut self, k: &str) {
        *self.stats.entry(k.to_string()).or_default() += 1;
    }

    pub fn handle(&self, i: usize) -> &'static str {
        HANDLES[i % HANDLES.len()]
    }

    pub fn base(&self, i: usize) -> String {
        format!("{}{}/", rrdpc::RSYNC_BASE, self.handle(i))
    }

    pub fn add_publisher(&mut self, i: usize) -> Result<bool, Fail> {
        let i = i % self.n_pub;
        if self.exists.contains(&i) {
            return Ok(false);
        }
        let handle = match PublisherHandle::from_str(self.handle(i)) {
            Ok(h) => h,
            Err(_) => return Ok(false),
        };
        let req = PublisherRequest::new(self.ids[i].base64.clone(), handle, None);
        let w = self.sim.w();
        let r = guarded(|| w.repo().create_publisher(req, &w.actor))?;
        if r.is_ok() {
            self.exists.insert(i);
            self.model.insert(self.handle(i).to_string(), BTreeMap::new());
            let k = format!("publisher_created:{}", self.handle(i));
            self.hit(&k);
            Ok(true)
        } else {
            let k = format!("publisher_refused:{}", self.handle(i));
            self.hit(&k);
            Ok(false)
        }
    }

    pub fn uri_for(&self, publisher: usize, sel: &UriSel) -> String {
        match sel {
            UriSel::Own(n) => format!("{}{}", self.base(publisher), NAMES[*n as usize % NAMES.len()]),
            UriSel::Other(p, n) => format!("{}{}", self.base(*p as usize % self.n_pub), NAMES[*n as usize % NAMES.len()]),
            UriSel::Nobody(n) => format!("{}zz-nobody/{}", rrdpc::RSYNC_BASE, NAMES[*n as usize % NAMES.len()]),
            UriSel::OwnCase(n) => format!("RSYNC://KRILL.EXAMPLE.ORG/repo/{}/{}", self.handle(publisher), NAMES[*n as usize % NAMES.len()]),
            UriSel::Foreign(n) => format!("rsync://other.example.net/repo/{}/{}", self.handle(publisher), NAMES[*n as usize % NAMES.len()]),
        }
    }

    /// Applies an operation to krill and to the model; returns a description
    /// of a violation if they disagree.
    pub fn apply(&mut self, op: &POp) -> Result<Result<(), (String, String, String)>, Fail> {
        match op {
            POp::Delta { publisher, els } => {
                let p = *publisher as usize % self.n_pub;
                if !self.exists.contains(&p) {
                    return Ok(Ok(()));
                }
                let handle = self.handle(p).to_string();
                let base = self.base(p);
                let mine = self.model.get(&handle).cloned().unwrap_or_default();
                // build the delta; each canonical URI at most once
                let mut delta = PublishDelta::empty();
                let mut seen = BTreeSet::new();
                let mut expect_ok = true;
                let mut decided_by = 0usize;
                let mut new_state = mine.clone();
                let mut n = 0usize;
                let mut cross = false;
                for e in els {
                    let (sel, _) = match e {
                        El::Publish(s, _) => (s, 0),
                        El::Update(s, _, _) => (s, 0),
                        El::Withdraw(s, _) => (s, 0),
                    };
                    let uri_s = self.uri_for(p, sel);
                    let cu = canon(&uri_s);
                    if !seen.insert(cu.clone()) {
                        continue;
                    }
                    let Ok(uri) = uri::Rsync::from_str(&uri_s) else { continue };
                    n += 1;
                    let in_jail = cu.starts_with(&base);
                    if !in_jail {
                        cross = true;
                    }
                    let cur = mine.get(&cu);
                    let stated = |h: &HashSel, cur: Option<&Bytes>| -> Hash {
                        match h {
                            HashSel::Correct => Hash::from_data(cur.map(|b| b.as_ref()).unwrap_or(b"absent")),
                            HashSel::Wrong(x) => Hash::from_data(content(100 + *x).as_ref()),
                        }
                    };
                    let el_ok = match e {
                        El::Publish(_, c) => {
                            delta.add_publish(Publish::new(None, uri, Base64::from_content(content(*c).as_ref())));
                            let ok = in_jail && cur.is_none();
                            if ok {
                                new_state.insert(cu.clone(), content(*c));
                            }
                            ok
                        }
                        El::Update(_, c, h) => {
                            let hash = stated(h, cur);
                            delta.add_update(Update::new(None, uri, Base64::from_content(content(*c).as_ref()), hash));
                            let ok = in_jail && cur.map(|b| Hash::from_data(b.as_ref()) == hash).unwrap_or(false);
                            if ok {
                                new_state.insert(cu.clone(), content(*c));
                            }
                            ok
                        }
                        El::Withdraw(_, h) => {
                            let hash = stated(h, cur);
                            delta.add_withdraw(Withdraw::new(None, uri, hash));
                            let ok = in_jail && cur.map(|b| Hash::from_data(b.as_ref()) == hash).unwrap_or(false);
                            if ok {
                                new_state.remove(&cu);
                            }
                            ok
                        }
                    };
                    if !el_ok && expect_ok {
                        expect_ok = false;
                        decided_by = n;
                    }
                }
                let w = self.sim.w();
                let ph = PublisherHandle::from_str(&handle).unwrap();
                let r = guarded(|| w.repo().rfc8181_message(&ph, Query::Delta(delta), &w.rt))?;
                let got_ok = r.is_ok();
                if n >= 3 && !expect_ok && decided_by > 1 {
                    self.hit("verdict_decided_by_non_first_element");
                }
                if cross {
                    self.hit("cross_publisher_or_outside_uri");
                }
                self.hit(if got_ok { "delta_accepted" } else { "delta_refused" });
                if got_ok != expect_ok {
                    return Ok(Err((
                        "c10-verdict".into(),
                        if got_ok { "accepted-but-must-refuse".into() } else { "refused-but-must-accept".into() },
                        format!(
                            "publisher {handle}: delta {els:?} was {} but RFC 8181 says {} ({}); publisher holds {:?}",
                            if got_ok { "accepted" } else { "refused" },
                            if expect_ok { "accept" } else { "refuse" },
                            r.err().map(|e| e.to_string()).unwrap_or_default(),
                            mine.keys().collect::<Vec<_>>()
                        ),
                    )));
                }
                if got_ok {
                    self.model.insert(handle, new_state);
                }
                Ok(Ok(()))
            }
            POp::List { publisher } => {
                let p = *publisher as usize % self.n_pub;
                if !self.exists.contains(&p) {
                    return Ok(Ok(()));
                }
                Ok(self.check_publisher(p))
            }
            POp::RrdpUpdate => {
                let w = self.sim.w();
                let r = guarded(|| w.repo().update_rrdp_if_needed())?;
                match r {
                    Err(e) => return Ok(Err(("c11-update-fails".into(), "error".into(), format!("RRDP update failed: {e}")))),
                    Ok(Some(_later)) => {
                        // staged changes wait for the minimal delta interval
                        self.hit("rrdp_update_deferred");
                    }
                    Ok(None) => {
                        self.hit("rrdp_update");
                        // the snapshot now equals the union of all publishers
                        let repo_dir = self.sim.w().repo_dir();
                        let check = (|| -> Result<(), String> {
                            let n = rrdpc::read_notification(&repo_dir)?;
                            let (_, _, snap) = rrdpc::read_snapshot(&n.snapshot.0)?;
                            let snap: BTreeMap<String, Bytes> = snap.into_iter().map(|(u, b)| (canon(&u), b)).collect();
                            match rrdpc::diff_maps("rrdp snapshot", &snap, "accepted deltas", &self.model_union()) {
                                Some(d) => Err(d),
                                None => Ok(()),
                            }
                        })();
                        if let Err(e) = check {
                            return Ok(Err(("c10-snapshot".into(), "differs".into(), e)));
                        }
                    }
                }
                Ok(Ok(()))
            }
            POp::SessionReset => {
                let w = self.sim.w();
                let r = guarded(|| w.repo().rrdp_session_reset())?;
                if let Err(e) = r {
                    return Ok(Err(("c11-reset-fails".into(), "error".into(), format!("session reset failed: {e}"))));
                }
                self.hit("session_reset");
                Ok(Ok(()))
            }
            POp::RemovePublisher { publisher } => {
                let p = *publisher as usize % self.n_pub;
                if !self.exists.contains(&p) {
                    return Ok(Ok(()));
                }
                let handle = self.handle(p).to_string();
                let w = self.sim.w();
                let ph = PublisherHandle::from_str(&handle).unwrap();
                let r = guarded(|| w.repo().remove_publisher(ph, &w.actor, &w.rt))?;
                if let Err(e) = r {
                    return Ok(Err(("c10-remove-fails".into(), "error".into(), format!("removing publisher {handle} failed: {e}"))));
                }
                self.exists.remove(&p);
                self.model.remove(&handle);
                self.hit("publisher_removed");
                Ok(Ok(()))
            }
            POp::AddPublisher { publisher } => {
                if self.add_publisher(*publisher as usize)? {
                    self.hit("publisher_recreated");
                }
                Ok(Ok(()))
            }
            POp::Advance { secs } => {
                clock::advance(*secs as i64);
                Ok(Ok(()))
            }
            POp::Restart => {
                if self.sim.w().cfg.disk {
                    let w = self.sim.w.take().unwrap();
                    let w = w.restart().map_err(|e| Fail::Violation(format!("restart failed: {e}")))?;
                    self.sim.w = Some(w);
                    self.hit("restart");
                }
                Ok(Ok(()))
            }
        }
    }

    /// List reply and details of one publisher equal the model.
    pub fn check_publisher(&self, p: usize) -> Result<(), (String, String, String)> {
        let handle = self.handle(p).to_string();
        let w = self.sim.w();
        let ph = PublisherHandle::from_str(&handle).unwrap();
        let list = w.repo().list(&ph).map_err(|e| ("c10-list".to_string(), "error".to_string(), format!("list for {handle}: {e}")))?;
        let mut got: BTreeMap<String, String> = BTreeMap::new();
        for e in list.elements() {
            if got.insert(canon(e.uri().as_str()), e.hash().to_string()).is_some() {
                return Err(("c10-list".into(), "duplicate-uri".into(), format!("list reply for {handle} has {} twice", e.uri())));
            }
        }
        let model = self.model.get(&handle).cloned().unwrap_or_default();
        let exp: BTreeMap<String, String> = model.iter().map(|(u, b)| (u.clone(), Hash::from_data(b.as_ref()).to_string())).collect();
        if got != exp {
            let only_got: Vec<_> = got.iter().filter(|(k, v)| exp.get(*k) != Some(*v)).take(3).collect();
            let only_exp: Vec<_> = exp.iter().filter(|(k, v)| got.get(*k) != Some(*v)).take(3).collect();
            return Err((
                "c10-list".into(),
                "differs".into(),
                format!("list reply for {handle} differs from the accepted deltas: only in reply {only_got:?}; only expected {only_exp:?}"),
            ));
        }
        let details = w.served_for(&handle).map_err(|e| ("c10-details".to_string(), "error".to_string(), e))?;
        let details: BTreeMap<String, Bytes> = details.into_iter().map(|(u, b)| (canon(&u), b)).collect();
        if details != model {
            return Err(("c10-details".into(), "differs".into(), format!("publisher details of {handle} differ from the accepted deltas")));
        }
        Ok(())
    }

    /// Every publisher's view equals the model and no URI has two owners.
    pub fn check_all(&self) -> Result<(), (String, String, String)> {
        let mut owner: BTreeMap<String, String> = BTreeMap::new();
        for p in self.exists.iter().copied().collect::<Vec<_>>() {
            self.check_publisher(p)?;
            let handle = self.handle(p).to_string();
            for u in self.model.get(&handle).map(|m| m.keys().cloned().collect::<Vec<_>>()).unwrap_or_default() {
                if let Some(o) = owner.insert(u.clone(), handle.clone()) {
                    let nested = self.base(p).starts_with(&format!("{}{}/", rrdpc::RSYNC_BASE, o)) || format!("{}{}/", rrdpc::RSYNC_BASE, o).starts_with(&self.base(p));
                    return Err((
                        "c10-two-owners".into(),
                        if nested { "nested-publisher-bases".into() } else { "other".into() },
                        format!("{u} is held by publisher {o} and by publisher {handle}"),
                    ));
                }
            }
        }
        // publishers known to krill are exactly the model's
        let known: BTreeSet<String> = self.sim.w().publishers().into_iter().collect();
        let exp: BTreeSet<String> = self.model.keys().cloned().collect();
        if known != exp {
            return Err(("c10-publishers".into(), "differs".into(), format!("publishers {known:?}, expected {exp:?}")));
        }
        Ok(())
    }

    /// The union of all publishers' content.
    pub fn model_union(&self) -> BTreeMap<String, Bytes> {
        let mut res = BTreeMap::new();
        for m in self.model.values() {
            for (u, b) in m {
                res.insert(u.clone(), b.clone());
            }
        }
        res
    }
}
