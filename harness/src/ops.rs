//! The operation language shared by the world-based properties, the intent
//! model and the interpreter (`Sim`).
use std::collections::{BTreeMap, BTreeSet};
use std::str::FromStr;

use krill::api;
use krill::api::admin::{ResourceClassNameMapping, UpdateChildRequest};
use krill::api::ca::{CertAuthInfo, ResourceClassKeysInfo};
use krill::server::mq::Task;
use rpki::ca::idexchange::CaHandle;
use rpki::repository::resources::ResourceSet;
use serde::{Deserialize, Serialize};

use crate::clock;
use crate::world::{Crash, World, WorldCfg, TA};

//------------ Universe ------------------------------------------------------

pub const MAX_CAS: usize = 5;

pub fn ca_name(i: usize) -> String {
    format!("ca{i}")
}

/// (asn, v4, v6) building blocks for entitlements.
pub const BLOCKS: &[(&str, &str, &str)] = &[
    ("", "10.0.0.0/16", ""),
    ("", "10.1.0.0/16", ""),
    ("", "10.0.0.0/20", ""),
    ("", "10.0.16.0/20", ""),
    ("", "10.0.0.0/24", ""),
    ("", "10.0.1.0/24", ""),
    ("", "10.1.0.0/24", ""),
    ("", "192.168.0.0/16", ""),
    ("", "", "2001:db8::/32"),
    ("", "", "2001:db8:1::/48"),
    ("", "", "2001:db8:2::/48"),
    ("AS64496-AS64511", "", ""),
    ("AS64500", "", ""),
    ("AS65000-AS65010", "", ""),
    ("AS65005", "", ""),
];

pub fn resources_of(mask: u16) -> ResourceSet {
    let mut rs = ResourceSet::empty();
    for (i, (a, v4, v6)) in BLOCKS.iter().enumerate() {
        if mask & (1 << i) != 0 {
            rs = rs.union(&ResourceSet::from_strs(a, v4, v6).unwrap());
        }
    }
    rs
}

pub const ASNS: &[u32] = &[0, 64496, 64500, 64505, 65000, 65005, 65010, 65536];

/// (address, family max) prefixes for ROAs; the length is chosen separately.
pub const ROA_PREFIXES: &[(&str, u8)] = &[
    ("10.0.0.0", 16),
    ("10.0.0.0", 20),
    ("10.0.0.0", 24),
    ("10.0.1.0", 24),
    ("10.0.2.0", 23),
    ("10.0.16.0", 20),
    ("10.0.16.0", 24),
    ("10.1.0.0", 16),
    ("10.1.0.0", 24),
    ("10.1.128.0", 17),
    ("192.168.0.0", 16),
    ("192.168.7.0", 24),
    ("172.16.0.0", 12),
    ("10.0.0.0", 8),
    ("2001:db8::", 32),
    ("2001:db8::", 48),
    ("2001:db8:1::", 48),
    ("2001:db8:1:1::", 64),
    ("2001:db8:2::", 48),
    ("2001:db9::", 32),
];

#[derive(Clone, Copy, Debug, Serialize, Deserialize, PartialEq, Eq, PartialOrd, Ord, Hash)]
pub struct RoaSpec {
    pub asn_i: u8,
    pub pfx_i: u8,
    /// 0 = none (implicit), 1 = equal to prefix length, 2 = +1, 3 = +4, 4 = family max
    pub ml: u8,
    /// 0 = no comment, 1.. = "c<n>"
    pub comment: u8,
}

#[derive(Clone, Debug, PartialEq, Eq, PartialOrd, Ord, Serialize, Deserialize, Hash)]
pub struct Payload {
    pub asn: u32,
    pub prefix: String,
    pub maxlen: u8,
}

impl RoaSpec {
    pub fn is_v6(&self) -> bool {
        ROA_PREFIXES[self.pfx_i as usize % ROA_PREFIXES.len()].0.contains(':')
    }

    pub fn parts(&self) -> (u32, String, u8, Option<u8>) {
        let asn = ASNS[self.asn_i as usize % ASNS.len()];
        let (addr, len) = ROA_PREFIXES[self.pfx_i as usize % ROA_PREFIXES.len()];
        let fam = if addr.contains(':') { 128 } else { 32 };
        let ml = match self.ml % 5 {
            0 => None,
            1 => Some(len),
            2 => Some((len + 1).min(fam)),
            3 => Some((len + 4).min(fam)),
            _ => Some(fam),
        };
        (asn, addr.to_string(), len, ml)
    }

    pub fn payload(&self) -> Payload {
        let (asn, addr, len, ml) = self.parts();
        Payload { asn, prefix: format!("{addr}/{len}"), maxlen: ml.unwrap_or(len) }
    }

    pub fn json(&self) -> serde_json::Value {
        let (asn, addr, len, ml) = self.parts();
        let mut v = serde_json::json!({"asn": asn, "prefix": format!("{addr}/{len}")});
        if let Some(ml) = ml {
            v["max_length"] = ml.into();
        }
        v
    }

    pub fn config_json(&self) -> serde_json::Value {
        let mut v = self.json();
        if self.comment != 0 {
            v["comment"] = format!("c{}", self.comment).into();
        }
        v
    }

    pub fn comment(&self) -> Option<String> {
        (self.comment != 0).then(|| format!("c{}", self.comment))
    }
}

pub fn payload_json(p: &Payload) -> serde_json::Value {
    serde_json::json!({"asn": p.asn, "prefix": p.prefix, "max_length": p.maxlen})
}

//------------ Op ------------------------------------------------------------

#[derive(Clone, Debug, Serialize, Deserialize, PartialEq)]
pub enum Op {
    /// Add ROAs; remove those existing configured ROAs selected by `remove`
    /// (indices into the sorted current configuration, scaled 0..65535).
    Roa { ca: u8, add: Vec<RoaSpec>, remove: Vec<u16> },
    /// add-or-replace ASPA for customer with the providers.
    Aspa { ca: u8, customer: u8, providers: Vec<u8> },
    AspaRemove { ca: u8, customer: u8 },
    AspaProviders { ca: u8, customer: u8, add: Vec<u8>, remove: Vec<u8> },
    Bgpsec { ca: u8, asn: u8, csr: u8 },
    BgpsecRemove { ca: u8, sel: u16 },
    /// create the CA (with repository) if it does not exist
    CaAdd { ca: u8 },
    CaDelete { ca: u8 },
    /// make `ca` a child of `parent` (0 = ta, n = ca(n-1)) with resources
    Attach { ca: u8, parent: u8, res: u16 },
    ChildResources { parent: u8, child: u8, res: u16 },
    ChildSuspend { parent: u8, child: u8 },
    ChildUnsuspend { parent: u8, child: u8 },
    ChildRemove { parent: u8, child: u8 },
    ChildMapping { parent: u8, child: u8, rcn: u8, name: u8 },
    ParentRemove { ca: u8, parent: u8 },
    KeyrollInit { ca: u8 },
    KeyrollActivate { ca: u8 },
    UpdateId { ca: u8 },
    Republish { force: bool },
    Renew,
    RefreshAll,
    RepoSyncAll,
    SessionReset,
    PublisherRemove { ca: u8 },
    /// re-create the publisher and point the CA at it again
    PublisherReadd { ca: u8 },
    /// the operator of `parent` adds a child again that was removed there while
    /// the child itself still has the parent configured (same handle, the
    /// child's current identity)
    ChildReadd { parent: u8, child: u8, res: u16 },
    /// the operator of `parent` registers the current identity certificate of
    /// the child (after the child replaced its identity key)
    ChildIdSync { parent: u8, child: u8 },
    Advance { secs: u32 },
    /// run up to n due tasks
    Pump { n: u8 },
    /// run to quiescence
    Quiesce,
    /// run the snapshot task
    Snapshot,
    /// restart (disk worlds only; no-op otherwise)
    Restart,
    /// hold back / release signer sync tasks in the pump
    HoldSigner { on: bool },
    /// hold back / release the parent synchronisation tasks of all CAs (a key
    /// roll then stays in its intermediate states)
    HoldParentSyncs { on: bool },
    /// quiesce and run the property's checkpoint oracle
    Check,
    /// A request that is handled while the scheduler thread is busy with a
    /// task: the next due task is claimed, `inner` is applied, and only then
    /// (`late` = false) the task does its work, or (`late` = true) the task
    /// has done its work already and only its outcome is still to be
    /// recorded in the queue.
    Overlap { late: bool, inner: Box<Op> },
    /// A publisher that is not one of the CAs (created on first use) publishes,
    /// replaces (content != 0) or withdraws (content == 0) the file in `slot`:
    /// a publication made by a request thread, as remote publishers do.
    ForeignPublish { slot: u8, content: u8 },
}

impl Op {
    pub fn short(&self) -> String {
        let s = format!("{self:?}");
        if s.len() > 160 { format!("{}…", &s[..160]) } else { s }
    }

    pub fn kind(&self) -> &'static str {
        match self {
            Op::Overlap { .. } => "Overlap",
            Op::ForeignPublish { .. } => "ForeignPublish",
            Op::Roa { .. } => "Roa",
            Op::Aspa { .. } => "Aspa",
            Op::AspaRemove { .. } => "AspaRemove",
            Op::AspaProviders { .. } => "AspaProviders",
            Op::Bgpsec { .. } => "Bgpsec",
            Op::BgpsecRemove { .. } => "BgpsecRemove",
            Op::CaAdd { .. } => "CaAdd",
            Op::CaDelete { .. } => "CaDelete",
            Op::Attach { .. } => "Attach",
            Op::ChildResources { .. } => "ChildResources",
            Op::ChildSuspend { .. } => "ChildSuspend",
            Op::ChildUnsuspend { .. } => "ChildUnsuspend",
            Op::ChildRemove { .. } => "ChildRemove",
            Op::ChildMapping { .. } => "ChildMapping",
            Op::ParentRemove { .. } => "ParentRemove",
            Op::KeyrollInit { .. } => "KeyrollInit",
            Op::KeyrollActivate { .. } => "KeyrollActivate",
            Op::UpdateId { .. } => "UpdateId",
            Op::Republish { .. } => "Republish",
            Op::Renew => "Renew",
            Op::RefreshAll => "RefreshAll",
            Op::RepoSyncAll => "RepoSyncAll",
            Op::SessionReset => "SessionReset",
            Op::PublisherRemove { .. } => "PublisherRemove",
            Op::PublisherReadd { .. } => "PublisherReadd",
            Op::ChildReadd { .. } => "ChildReadd",
            Op::ChildIdSync { .. } => "ChildIdSync",
            Op::Advance { .. } => "Advance",
            Op::Pump { .. } => "Pump",
            Op::Quiesce => "Quiesce",
            Op::Snapshot => "Snapshot",
            Op::Restart => "Restart",
            Op::HoldSigner { .. } => "HoldSigner",
            Op::HoldParentSyncs { .. } => "HoldParentSyncs",
            Op::Check => "Check",
        }
    }
}

//------------ Model ---------------------------------------------------------

#[derive(Clone, Debug, Default)]
pub struct ChildModel {
    pub entitlement: ResourceSet,
    pub suspended: bool,
    pub ever_suspended: bool,
    pub mapping: BTreeMap<String, String>,
}

#[derive(Clone, Debug, Default)]
pub struct CaModel {
    /// explicit payload -> comment
    pub roas: BTreeMap<Payload, Option<String>>,
    pub aspas: BTreeMap<u32, BTreeSet<u32>>,
    /// (asn, key id hex)
    pub bgpsec: BTreeSet<(u32, String)>,
    /// parents configured at the CA (names; "ta" or caN)
    pub parents: BTreeSet<String>,
    pub children: BTreeMap<String, ChildModel>,
    pub publisher_removed: bool,
}

#[derive(Clone, Debug, Default)]
pub struct Model {
    pub cas: BTreeMap<String, CaModel>,
    pub ta_children: BTreeMap<String, ChildModel>,
}

impl Model {
    pub fn children_of(&self, parent: &str) -> Option<&BTreeMap<String, ChildModel>> {
        if parent == TA { Some(&self.ta_children) } else { self.cas.get(parent).map(|c| &c.children) }
    }
}

//------------ Events --------------------------------------------------------

/// What happened, for classification of non-trivial cases.
#[derive(Clone, Debug, Default, Serialize, Deserialize)]
pub struct Flags(pub BTreeMap<String, u64>);

impl Flags {
    pub fn hit(&mut self, k: &str) {
        *self.0.entry(k.to_string()).or_default() += 1;
    }
    pub fn has(&self, k: &str) -> bool {
        self.0.get(k).copied().unwrap_or(0) > 0
    }
    pub fn n(&self, k: &str) -> u64 {
        self.0.get(k).copied().unwrap_or(0)
    }
    pub fn merge(&mut self, o: &Flags) {
        for (k, v) in &o.0 {
            *self.0.entry(k.clone()).or_default() += v;
        }
    }
}

//------------ Sim -----------------------------------------------------------

pub struct Sim {
    pub w: Option<World>,
    pub model: Model,
    pub flags: Flags,
    pub log: Vec<String>,
    pub csrs: Vec<(String, String)>, // (base64 der, key id hex)
    pub max_quiesce_steps: usize,
    pub cas_ever: BTreeSet<String>,
    /// called after every background task (task name); the first problem it
    /// reports is kept in `task_bad`
    pub task_hook: Option<fn(&Sim, &str) -> Result<(), (String, String, String)>>,
    pub task_bad: Option<(String, String, String)>,
    /// seconds the virtual clock may still be advanced (the embedded trust
    /// anchor's manifest is only refreshed by signer exchanges, so histories
    /// stay below its next-update time)
    pub advance_budget: i64,
    /// seconds the clock was advanced while the parent syncs were held
    pub held_advance: i64,
    /// quiesce() returns early once this says so (a simulated crash: a dead
    /// process runs no further tasks)
    pub abort_check: Option<fn() -> bool>,
    /// files below this URI belong to a publisher of the harness, not to a CA:
    /// the relying-party walk does not expect them on a manifest
    pub foreign_publisher_base: Option<String>,
    /// per issuer: child key -> (serial, resources) of its certificate in the issuer's state at the previous step (C02)
    pub prev_child_certs: std::sync::Mutex<BTreeMap<String, BTreeMap<String, (String, ResourceSet)>>>,
}

#[derive(Debug)]
pub enum Fail {
    /// panic or would-be exit
    Crash(String),
    /// oracle violation
    Violation(String),
    /// harness problem (not a finding)
    Harness(String),
}

impl From<Crash> for Fail {
    fn from(c: Crash) -> Self {
        Fail::Crash(format!("{} exits={:?}", c.what, c.exit_sites))
    }
}

pub type Step = Result<(), Fail>;

pub fn parent_name(p: u8) -> String {
    if p == 0 { TA.to_string() } else { ca_name((p as usize - 1) % MAX_CAS) }
}

pub fn pick<T>(sel: u16, len: usize) -> Option<usize> {
    let _ = std::marker::PhantomData::<T>;
    if len == 0 { None } else { Some(((sel as usize) * len) >> 16) }
}

impl Sim {
    pub fn new(cfg: WorldCfg, key_start: usize) -> Result<Self, Fail> {
        clock::reset(0);
        let budget = (cfg.ta_mft_weeks * 7 - 8) * 86400;
        let w = World::new(cfg, key_start).map_err(Fail::Harness)?;
        w.init_repo_and_ta().map_err(Fail::Harness)?;
        w.schedule(Task::QueueStartTasks).map_err(Fail::Harness)?;
        Ok(Sim {
            w: Some(w),
            model: Model::default(),
            flags: Flags::default(),
            log: Vec::new(),
            csrs: crate::csr::pool(),
            max_quiesce_steps: 2000,
            cas_ever: BTreeSet::new(),
            task_hook: None,
            task_bad: None,
            advance_budget: budget,
            held_advance: 0,
            abort_check: None,
            foreign_publisher_base: None,
            prev_child_certs: Default::default(),
        })
    }

    pub fn w(&self) -> &World {
        self.w.as_ref().unwrap()
    }

    pub fn wm(&mut self) -> &mut World {
        self.w.as_mut().unwrap()
    }

    fn note(&mut self, op: &Op, res: &Result<(), String>) {
        if self.log.len() < 5000 {
            match res {
                Ok(()) => self.log.push(format!("{} -> ok", op.short())),
                Err(e) => {
                    let e = if e.len() > 140 { &e[..140] } else { e };
                    self.log.push(format!("{} -> ERR {}", op.short(), e))
                }
            }
        }
    }

    pub fn ca_info(&self, ca: &str) -> Option<CertAuthInfo> {
        let h = CaHandle::from_str(ca).ok()?;
        self.w().cam().get_ca(&h).ok().map(|c| c.as_ca_info())
    }

    /// Runs one due task (if any) and the per-task hook.
    pub fn pump_one(&mut self) -> Result<Option<String>, Fail> {
        let name = self.wm().pump_one()?;
        if let (Some(name), Some(hook)) = (name.as_ref(), self.task_hook) {
            if self.task_bad.is_none() {
                if let Err(b) = hook(self, name) {
                    self.task_bad = Some(b);
                }
            }
        }
        Ok(name)
    }

    /// Holding the parent syncs stands for a parent that cannot be reached
    /// for a while. Certificates are valid for two weeks at least and are
    /// renewed a week before they expire at the latest, so an outage of up to
    /// three days must not invalidate anything; a longer one would, by
    /// design. The hold is therefore lifted before the clock passes that.
    pub fn release_parent_syncs_before_advance(&mut self, secs: i64) -> Result<(), Fail> {
        let held = self.w().hold_types.iter().any(|h| h == "_with_parent_");
        if held && self.held_advance + secs.min(self.advance_budget).max(0) > 3 * 86400 {
            self.apply(&Op::HoldParentSyncs { on: false })?;
            self.converge()?;
        }
        Ok(())
    }

    pub fn pump_n(&mut self, n: usize) -> Step {
        for _ in 0..n {
            if self.pump_one()?.is_none() {
                break;
            }
        }
        Ok(())
    }

    /// Runs due tasks until nothing is due within the next three seconds.
    pub fn quiesce(&mut self) -> Step {
        let max = self.max_quiesce_steps;
        let mut steps = 0;
        let mut last = String::new();
        let mut same = 0;
        let mut same_total = 0;
        let mut waits = 0;
        loop {
            while let Some(name) = self.pump_one()? {
                steps += 1;
                waits = 0;
                if let Some(f) = self.abort_check {
                    if f() {
                        return Ok(());
                    }
                }
                // A task that is rescheduled to "the same second" spins until
                // the wall clock moves on; move the virtual clock instead.
                if name == last {
                    same += 1;
                    same_total += 1;
                    if same >= 20 {
                        clock::advance(1);
                        same = 0;
                    }
                } else {
                    last = name;
                    same = 0;
                    same_total = 0;
                }
                // one task that is taken again and again, hundreds of times in a row, with the clock
                // moving on: it will not stop (found much sooner than by the overall bound)
                if same_total >= 500 && !last.starts_with("update_rrdp_if_needed") {
                    return Err(Fail::Violation(format!(
                        "background work does not settle: no quiescence, task {last} was run {same_total} times in a row (after {steps} task steps)"
                    )));
                }
                if steps >= max {
                    let tail: Vec<_> = self.w().task_trace.iter().rev().take(30).cloned().collect();
                    return Err(Fail::Violation(format!(
                        "background work does not settle: no quiescence after {steps} task steps; last tasks (newest first): {tail:?}"
                    )));
                }
            }
            if let Some(f) = self.abort_check {
                if f() {
                    return Ok(());
                }
            }
            let now_ms = (clock::now_s() as u128) * 1000;
            let soon = self.w().pending_tasks().into_iter().find(|(ts, _)| *ts <= now_ms + 3_000);
            match soon {
                Some(_) => {
                    clock::advance(1);
                    waits += 1;
                    // a due task that can never be taken (e.g. the store refuses every write)
                    if waits > 600 {
                        return Err(Fail::Violation("background work does not settle: a due task is never taken from the queue".into()));
                    }
                }
                None => return Ok(()),
            }
        }
    }

    /// "Background work has caught up": quiescence, the periodic parent
    /// refresh of every CA (once per hierarchy level) and any RRDP update
    /// that waits for its minimal interval.
    pub fn converge(&mut self) -> Step {
        self.quiesce()?;
        for _ in 0..3 {
            let w = self.w.as_ref().unwrap();
            let _ = crate::world::guarded(|| w.refresh_all())?;
            self.quiesce()?;
        }
        for _ in 0..6 {
            let now_ms = (clock::now_s() as u128) * 1000;
            let due = self
                .w()
                .pending_tasks()
                .into_iter()
                .find(|(_, n)| n.starts_with("update_rrdp_if_needed"))
                .map(|(ts, _)| ts);
            match due {
                Some(ts) if ts > now_ms => {
                    clock::advance(((ts - now_ms) / 1000) as i64 + 1);
                    self.quiesce()?;
                }
                _ => break,
            }
        }
        Ok(())
    }

    /// Applies one operation. Panics / would-be exits inside krill are
    /// reported as `Fail::Crash`.
    pub fn apply(&mut self, op: &Op) -> Step {
        let res: Result<(), String> = match op {
            Op::Roa { ca, add, remove } => {
                let name = ca_name(*ca as usize % MAX_CAS);
                if !self.model.cas.contains_key(&name) {
                    Err("no such ca".into())
                } else {
                    let current: Vec<Payload> = self.model.cas[&name].roas.keys().cloned().collect();
                    let mut rem: Vec<Payload> = Vec::new();
                    for sel in remove {
                        if let Some(i) = pick::<()>(*sel, current.len()) {
                            if !rem.contains(&current[i]) {
                                rem.push(current[i].clone());
                            }
                        }
                    }
                    let added: Vec<serde_json::Value> = add.iter().map(|r| r.config_json()).collect();
                    let removed: Vec<serde_json::Value> = rem.iter().map(payload_json).collect();
                    let upd: api::roa::RoaConfigurationUpdates =
                        serde_json::from_value(serde_json::json!({"added": added, "removed": removed}))
                            .map_err(|e| Fail::Harness(format!("roa json: {e}")))?;
                    let w = self.w.as_ref().unwrap();
                    let r = crate::world::guarded(|| w.roa_update(&name, upd))?;
                    match r {
                        Ok(()) => {
                            let m = self.model.cas.get_mut(&name).unwrap();
                            for p in &rem {
                                m.roas.remove(p);
                            }
                            for a in add {
                                m.roas.insert(a.payload(), a.comment());
                            }
                            if !add.is_empty() {
                                self.flags.hit("roa_added");
                            }
                            if !rem.is_empty() {
                                self.flags.hit("roa_removed");
                            }
                            Ok(())
                        }
                        Err(e) => Err(e.to_string()),
                    }
                }
            }
            Op::Aspa { ca, customer, providers } => {
                let name = ca_name(*ca as usize % MAX_CAS);
                let cust = ASNS[*customer as usize % ASNS.len()];
                let provs: Vec<u32> = providers.iter().map(|p| ASNS[*p as usize % ASNS.len()]).collect();
                if !self.model.cas.contains_key(&name) {
                    Err("no such ca".into())
                } else {
                    let def = format!(
                        "AS{} => {}",
                        cust,
                        if provs.is_empty() {
                            "<none>".to_string()
                        } else {
                            provs.iter().map(|p| format!("AS{p}")).collect::<Vec<_>>().join(", ")
                        }
                    );
                    match api::aspa::AspaDefinition::from_str(&def) {
                        Err(e) => Err(format!("aspa syntax: {e}")),
                        Ok(def) => {
                            let upd = api::aspa::AspaDefinitionUpdates { add_or_replace: vec![def], remove: vec![] };
                            let w = self.w.as_ref().unwrap();
                            match crate::world::guarded(|| w.aspa_update(&name, upd))? {
                                Ok(()) => {
                                    self.model
                                        .cas
                                        .get_mut(&name)
                                        .unwrap()
                                        .aspas
                                        .insert(cust, provs.iter().copied().collect());
                                    self.flags.hit("aspa_set");
                                    Ok(())
                                }
                                Err(e) => Err(e.to_string()),
                            }
                        }
                    }
                }
            }
            Op::AspaRemove { ca, customer } => {
                let name = ca_name(*ca as usize % MAX_CAS);
                let cust = ASNS[*customer as usize % ASNS.len()];
                if !self.model.cas.contains_key(&name) {
                    Err("no such ca".into())
                } else {
                    let upd: api::aspa::AspaDefinitionUpdates =
                        serde_json::from_value(serde_json::json!({"add_or_replace": [], "remove": [cust]}))
                            .map_err(|e| Fail::Harness(format!("aspa json: {e}")))?;
                    let w = self.w.as_ref().unwrap();
                    match crate::world::guarded(|| w.aspa_update(&name, upd))? {
                        Ok(()) => {
                            self.model.cas.get_mut(&name).unwrap().aspas.remove(&cust);
                            self.flags.hit("aspa_removed");
                            Ok(())
                        }
                        Err(e) => Err(e.to_string()),
                    }
                }
            }
            Op::AspaProviders { ca, customer, add, remove } => {
                let name = ca_name(*ca as usize % MAX_CAS);
                let cust = ASNS[*customer as usize % ASNS.len()];
                let add: Vec<u32> = add.iter().map(|p| ASNS[*p as usize % ASNS.len()]).collect();
                let remove: Vec<u32> = remove.iter().map(|p| ASNS[*p as usize % ASNS.len()]).collect();
                if !self.model.cas.contains_key(&name) {
                    Err("no such ca".into())
                } else {
                    let upd: api::aspa::AspaProvidersUpdate =
                        serde_json::from_value(serde_json::json!({"added": add, "removed": remove}))
                            .map_err(|e| Fail::Harness(format!("aspa prov json: {e}")))?;
                    let cust_asn: api::aspa::CustomerAsn = serde_json::from_value(serde_json::json!(cust))
                        .map_err(|e| Fail::Harness(format!("customer json: {e}")))?;
                    let w = self.w.as_ref().unwrap();
                    match crate::world::guarded(|| w.aspa_providers_update(&name, cust_asn, upd))? {
                        Ok(()) => {
                            // krill semantics (AspaDefinition::apply_update): remove first,
                            // then add; an emptied definition is removed.
                            let m = self.model.cas.get_mut(&name).unwrap();
                            let entry = m.aspas.entry(cust).or_default();
                            for r in &remove {
                                entry.remove(r);
                            }
                            for a in &add {
                                entry.insert(*a);
                            }
                            if entry.is_empty() {
                                m.aspas.remove(&cust);
                            }
                            self.flags.hit("aspa_providers");
                            Ok(())
                        }
                        Err(e) => Err(e.to_string()),
                    }
                }
            }
            Op::Bgpsec { ca, asn, csr } => {
                let name = ca_name(*ca as usize % MAX_CAS);
                let asn = ASNS[*asn as usize % ASNS.len()];
                let (csr_b64, key) = self.csrs[*csr as usize % self.csrs.len()].clone();
                if !self.model.cas.contains_key(&name) {
                    Err("no such ca".into())
                } else {
                    match serde_json::from_value::<api::bgpsec::BgpSecDefinitionUpdates>(
                        serde_json::json!({"add": [{"asn": asn, "csr": csr_b64}], "remove": []}),
                    ) {
                        Err(e) => Err(format!("bgpsec json: {e}")),
                        Ok(upd) => {
                            let w = self.w.as_ref().unwrap();
                            match crate::world::guarded(|| w.bgpsec_update(&name, upd))? {
                                Ok(()) => {
                                    self.model.cas.get_mut(&name).unwrap().bgpsec.insert((asn, key));
                                    self.flags.hit("bgpsec_added");
                                    Ok(())
                                }
                                Err(e) => Err(e.to_string()),
                            }
                        }
                    }
                }
            }
            Op::BgpsecRemove { ca, sel } => {
                let name = ca_name(*ca as usize % MAX_CAS);
                match self.model.cas.get(&name) {
                    None => Err("no such ca".into()),
                    Some(m) => {
                        let cur: Vec<(u32, String)> = m.bgpsec.iter().cloned().collect();
                        match pick::<()>(*sel, cur.len()) {
                            None => Err("nothing to remove".into()),
                            Some(i) => {
                                let (asn, key) = cur[i].clone();
                                let upd: api::bgpsec::BgpSecDefinitionUpdates = serde_json::from_value(
                                    serde_json::json!({"add": [], "remove": [format!("ROUTER-{asn:08X}-{key}")]}),
                                )
                                .map_err(|e| Fail::Harness(format!("bgpsec rm json: {e}")))?;
                                let w = self.w.as_ref().unwrap();
                                match crate::world::guarded(|| w.bgpsec_update(&name, upd))? {
                                    Ok(()) => {
                                        self.model.cas.get_mut(&name).unwrap().bgpsec.remove(&(asn, key));
                                        self.flags.hit("bgpsec_removed");
                                        Ok(())
                                    }
                                    Err(e) => Err(e.to_string()),
                                }
                            }
                        }
                    }
                }
            }
            Op::CaAdd { ca } => {
                let name = ca_name(*ca as usize % MAX_CAS);
                if self.model.cas.contains_key(&name) {
                    Err("exists".into())
                } else if self.cas_ever.contains(&name) {
                    // publisher of a deleted CA may linger; re-creating a CA of
                    // the same name is not generated
                    Err("name used before".into())
                } else {
                    let w = self.w.as_ref().unwrap();
                    let r = crate::world::guarded(|| w.add_ca(&name))?;
                    if r.is_ok() {
                        self.model.cas.insert(name.clone(), CaModel::default());
                        self.cas_ever.insert(name);
                        self.flags.hit("ca_added");
                    }
                    r
                }
            }
            Op::CaDelete { ca } => {
                let name = ca_name(*ca as usize % MAX_CAS);
                if !self.model.cas.contains_key(&name) {
                    Err("no such ca".into())
                } else {
                    let w = self.w.as_ref().unwrap();
                    let r = crate::world::guarded(|| w.ca_delete(&name))?;
                    if r.is_ok() {
                        let had_children = !self.model.cas[&name].children.is_empty();
                        self.model.cas.remove(&name);
                        self.flags.hit("ca_deleted");
                        if had_children {
                            self.flags.hit("ca_deleted_with_children");
                        }
                    }
                    r
                }
            }
            Op::Attach { ca, parent, res } => {
                let child = ca_name(*ca as usize % MAX_CAS);
                let parent = parent_name(*parent);
                if child == parent || !self.model.cas.contains_key(&child) {
                    Err("bad child".into())
                } else if parent != TA && !self.model.cas.contains_key(&parent) {
                    Err("no such parent".into())
                } else if self.is_ancestor(&child, &parent) {
                    Err("would create a cycle".into())
                } else if self.model.children_of(&parent).map(|c| c.contains_key(&child)).unwrap_or(false)
                    || self.model.cas[&child].parents.contains(&parent)
                {
                    Err("already attached".into())
                } else {
                    let rs = resources_of(*res);
                    let w = self.w.as_ref().unwrap();
                    let r = crate::world::guarded(|| w.parent_add_child(&child, &parent, &rs))?;
                    match r {
                        Err(e) => Err(e),
                        Ok(()) => {
                            let cm = ChildModel { entitlement: rs, ..Default::default() };
                            if parent == TA {
                                self.model.ta_children.insert(child.clone(), cm);
                            } else {
                                self.model.cas.get_mut(&parent).unwrap().children.insert(child.clone(), cm);
                            }
                            let w = self.w.as_ref().unwrap();
                            let r2 = crate::world::guarded(|| w.child_add_parent(&child, &parent))?;
                            if r2.is_ok() {
                                let m = self.model.cas.get_mut(&child).unwrap();
                                m.parents.insert(parent.clone());
                                if m.parents.len() > 1 {
                                    self.flags.hit("two_parents");
                                }
                                self.flags.hit("attached");
                            }
                            r2
                        }
                    }
                }
            }
            Op::ChildResources { parent, child, res } => {
                let parent = parent_name(*parent);
                let child = ca_name(*child as usize % MAX_CAS);
                let known = parent != TA
                    && self.model.cas.get(&parent).map(|p| p.children.contains_key(&child)).unwrap_or(false);
                if !known {
                    Err("no such child".into())
                } else {
                    let rs = resources_of(*res);
                    let w = self.w.as_ref().unwrap();
                    let req = UpdateChildRequest::resources(rs.clone());
                    let r = crate::world::guarded(|| w.child_update(&parent, &child, req))?;
                    if r.is_ok() {
                        let cm = self.model.cas.get_mut(&parent).unwrap().children.get_mut(&child).unwrap();
                        let old = cm.entitlement.clone();
                        if !rs.contains(&old) {
                            self.flags.hit("entitlement_shrunk");
                            if rs.intersection(&old).is_empty() {
                                self.flags.hit("entitlement_shrunk_to_nothing");
                                self.flags.hit(&format!("entitlement_emptied:{child}"));
                            }
                        }
                        if !old.contains(&rs) {
                            self.flags.hit("entitlement_grown");
                        }
                        cm.entitlement = rs;
                    }
                    r
                }
            }
            Op::ChildSuspend { parent, child } | Op::ChildUnsuspend { parent, child } => {
                let suspend = matches!(op, Op::ChildSuspend { .. });
                let parent = parent_name(*parent);
                let child = ca_name(*child as usize % MAX_CAS);
                let known = parent != TA
                    && self.model.cas.get(&parent).map(|p| p.children.contains_key(&child)).unwrap_or(false);
                if !known {
                    Err("no such child".into())
                } else {
                    let req = if suspend { UpdateChildRequest::suspend() } else { UpdateChildRequest::unsuspend() };
                    let w = self.w.as_ref().unwrap();
                    let r = crate::world::guarded(|| w.child_update(&parent, &child, req))?;
                    if r.is_ok() {
                        let cm = self.model.cas.get_mut(&parent).unwrap().children.get_mut(&child).unwrap();
                        if suspend {
                            if !cm.suspended {
                                self.flags.hit("child_suspended");
                            }
                            cm.suspended = true;
                            cm.ever_suspended = true;
                        } else {
                            if cm.suspended {
                                self.flags.hit("child_unsuspended");
                            }
                            cm.suspended = false;
                        }
                    }
                    r
                }
            }
            Op::ChildRemove { parent, child } => {
                let parent = parent_name(*parent);
                let child = ca_name(*child as usize % MAX_CAS);
                let known = parent != TA
                    && self.model.cas.get(&parent).map(|p| p.children.contains_key(&child)).unwrap_or(false);
                if !known {
                    Err("no such child".into())
                } else {
                    let w = self.w.as_ref().unwrap();
                    let r = crate::world::guarded(|| w.child_remove(&parent, &child))?;
                    if r.is_ok() {
                        self.model.cas.get_mut(&parent).unwrap().children.remove(&child);
                        self.flags.hit("child_removed");
                    }
                    r
                }
            }
            Op::ChildMapping { parent, child, rcn, name } => {
                let parent = parent_name(*parent);
                let child = ca_name(*child as usize % MAX_CAS);
                let known = parent != TA
                    && self.model.cas.get(&parent).map(|p| p.children.contains_key(&child)).unwrap_or(false);
                if !known {
                    Err("no such child".into())
                } else {
                    // the class names of the parent
                    let rcns: Vec<String> = self
                        .ca_info(&parent)
                        .map(|i| {
                            let mut v: Vec<String> = i.resource_classes.keys().map(|k| k.to_string()).collect();
                            v.sort();
                            v
                        })
                        .unwrap_or_default();
                    if rcns.is_empty() {
                        Err("parent has no classes".into())
                    } else {
                        let in_parent = rcns[*rcn as usize % rcns.len()].clone();
                        // (one name per parent class: two classes of one parent under the
                        // same child-facing name would be a configuration error)
                        let for_child = format!("m{}-{}", name % 3, in_parent);
                        let mapping: ResourceClassNameMapping = serde_json::from_value(
                            serde_json::json!({"name_in_parent": in_parent, "name_for_child": for_child}),
                        )
                        .map_err(|e| Fail::Harness(format!("mapping json: {e}")))?;
                        let req = UpdateChildRequest::resource_class_name_mapping(mapping);
                        let w = self.w.as_ref().unwrap();
                        let r = crate::world::guarded(|| w.child_update(&parent, &child, req))?;
                        if r.is_ok() {
                            self.model
                                .cas
                                .get_mut(&parent)
                                .unwrap()
                                .children
                                .get_mut(&child)
                                .unwrap()
                                .mapping
                                .insert(in_parent, for_child);
                            self.flags.hit("class_mapped");
                        }
                        r
                    }
                }
            }
            Op::ParentRemove { ca, parent } => {
                let name = ca_name(*ca as usize % MAX_CAS);
                let parent = parent_name(*parent);
                if !self.model.cas.get(&name).map(|c| c.parents.contains(&parent)).unwrap_or(false) {
                    Err("no such parent".into())
                } else {
                    let w = self.w.as_ref().unwrap();
                    let r = crate::world::guarded(|| w.parent_remove(&name, &parent))?;
                    if r.is_ok() {
                        let m = self.model.cas.get_mut(&name).unwrap();
                        m.parents.remove(&parent);
                        if !m.parents.is_empty() {
                            self.flags.hit("parent_removed_one_of_several");
                        }
                        self.flags.hit("parent_removed");
                    }
                    r
                }
            }
            Op::KeyrollInit { ca } => {
                let name = ca_name(*ca as usize % MAX_CAS);
                if !self.model.cas.contains_key(&name) {
                    Err("no such ca".into())
                } else {
                    let w = self.w.as_ref().unwrap();
                    let r = crate::world::guarded(|| w.keyroll_init(&name))?;
                    if r.is_ok() {
                        self.flags.hit("keyroll_init");
                        if self.model.cas[&name].parents.contains(TA) {
                            self.flags.hit(&format!("roll_under_ta:{name}"));
                        }
                    }
                    r
                }
            }
            Op::KeyrollActivate { ca } => {
                let name = ca_name(*ca as usize % MAX_CAS);
                if !self.model.cas.contains_key(&name) {
                    Err("no such ca".into())
                } else {
                    // does a staged new key carry other resources than the
                    // active key (entitlements changed during the roll)?
                    let mut differs = false;
                    if let Some(info) = self.ca_info(&name) {
                        for rc in info.resource_classes.values() {
                            if let ResourceClassKeysInfo::RollNew(r) = &rc.keys {
                                if r.new_key.incoming_cert.resources != r.active_key.incoming_cert.resources {
                                    differs = true;
                                }
                            }
                        }
                    }
                    let w = self.w.as_ref().unwrap();
                    let r = crate::world::guarded(|| w.keyroll_activate(&name))?;
                    if r.is_ok() {
                        self.flags.hit("keyroll_activate");
                        if differs {
                            self.flags.hit(&format!("activated_key_with_other_resources:{name}"));
                        }
                    }
                    r
                }
            }
            Op::UpdateId { ca } => {
                let name = ca_name(*ca as usize % MAX_CAS);
                if !self.model.cas.contains_key(&name) {
                    Err("no such ca".into())
                } else {
                    let w = self.w.as_ref().unwrap();
                    crate::world::guarded(|| w.ca_update_id(&name))?
                }
            }
            Op::Republish { force } => {
                let w = self.w.as_ref().unwrap();
                let r = crate::world::guarded(|| w.republish(*force))?;
                self.flags.hit("republish");
                r.map(|_| ())
            }
            Op::Renew => {
                let w = self.w.as_ref().unwrap();
                self.flags.hit("renew");
                crate::world::guarded(|| w.renew())?
            }
            Op::RefreshAll => {
                let w = self.w.as_ref().unwrap();
                crate::world::guarded(|| w.refresh_all())?
            }
            Op::RepoSyncAll => {
                let w = self.w.as_ref().unwrap();
                crate::world::guarded(|| w.repo_sync_all())?
            }
            Op::SessionReset => {
                let w = self.w.as_ref().unwrap();
                self.flags.hit("session_reset");
                crate::world::guarded(|| w.session_reset())?
            }
            Op::PublisherRemove { ca } => {
                let name = ca_name(*ca as usize % MAX_CAS);
                if !self.model.cas.contains_key(&name) || self.model.cas[&name].publisher_removed {
                    Err("no such publisher".into())
                } else {
                    let w = self.w.as_ref().unwrap();
                    let r = crate::world::guarded(|| w.publisher_remove(&name))?;
                    if r.is_ok() {
                        self.model.cas.get_mut(&name).unwrap().publisher_removed = true;
                        self.flags.hit("publisher_removed");
                    }
                    r
                }
            }
            Op::PublisherReadd { ca } => {
                let name = ca_name(*ca as usize % MAX_CAS);
                if !self.model.cas.get(&name).map(|c| c.publisher_removed).unwrap_or(false) {
                    Err("publisher not removed".into())
                } else {
                    let w = self.w.as_ref().unwrap();
                    let r = crate::world::guarded(|| w.readd_publisher(&name))?;
                    if r.is_ok() {
                        self.model.cas.get_mut(&name).unwrap().publisher_removed = false;
                        self.flags.hit("publisher_readded");
                    }
                    r
                }
            }
            Op::ChildReadd { parent, child, res } => {
                let parent = parent_name(*parent);
                let child = ca_name(*child as usize % MAX_CAS);
                let removed_there = parent != TA
                    && self.model.cas.contains_key(&parent)
                    && self.model.cas.get(&child).map(|c| c.parents.contains(&parent)).unwrap_or(false)
                    && !self.model.cas[&parent].children.contains_key(&child);
                if !removed_there {
                    Err("child was not removed at this parent".into())
                } else {
                    let rs = resources_of(*res);
                    let w = self.w.as_ref().unwrap();
                    let r = crate::world::guarded(|| w.parent_add_child(&child, &parent, &rs))?;
                    if r.is_ok() {
                        let cm = ChildModel { entitlement: rs, ..Default::default() };
                        self.model.cas.get_mut(&parent).unwrap().children.insert(child.clone(), cm);
                        self.flags.hit("child_readded");
                    }
                    r
                }
            }
            Op::ChildIdSync { parent, child } => {
                let parent = parent_name(*parent);
                let child = ca_name(*child as usize % MAX_CAS);
                let known = parent != TA
                    && self.model.cas.contains_key(&child)
                    && self.model.cas.get(&parent).map(|p| p.children.contains_key(&child)).unwrap_or(false);
                if !known {
                    Err("no such child".into())
                } else {
                    let w = self.w.as_ref().unwrap();
                    let r = crate::world::guarded(|| w.child_id_sync(&parent, &child))?;
                    if r.is_ok() {
                        self.flags.hit("child_id_synced");
                    }
                    r
                }
            }
            Op::Advance { secs } => {
                self.release_parent_syncs_before_advance(*secs as i64)?;
                let secs = (*secs as i64).min(self.advance_budget).max(0);
                if self.w().hold_types.iter().any(|h| h == "_with_parent_") {
                    self.held_advance += secs;
                }
                self.advance_budget -= secs;
                clock::advance(secs);
                self.flags.hit("clock_advanced");
                Ok(())
            }
            Op::Pump { n } => {
                let n = *n as usize;
                self.pump_n(n)?;
                Ok(())
            }
            Op::ForeignPublish { slot, content } => {
                use rpki::ca::publication::{Base64, Publish, PublishDelta, Update, Withdraw};
                const PUBX: &str = "pubx";
                let base = format!("rsync://krill.example.org/repo/{PUBX}/");
                let handle = rpki::ca::idexchange::PublisherHandle::from_str(PUBX).unwrap();
                let w = self.w.as_ref().unwrap();
                if !w.publishers().iter().any(|p| p == PUBX) {
                    let id = w.rt.signer().create_self_signed_id_cert().map_err(|e| Fail::Harness(e.to_string()))?;
                    let req = rpki::ca::idexchange::PublisherRequest::new(api::ca::IdCertInfo::from(&id).base64.clone(), handle.clone(), None);
                    let r = crate::world::guarded(|| w.repo().create_publisher(req, &w.actor))?;
                    r.map_err(|e| Fail::Harness(format!("extra publisher: {e}")))?;
                }
                self.foreign_publisher_base = Some(base.clone());
                let uri = rpki::uri::Rsync::from_str(&format!("{base}f{}.bin", slot % 6)).unwrap();
                let w = self.w.as_ref().unwrap();
                let cur = crate::world::guarded(|| w.repo().get_publisher_details(handle.clone()))?.map_err(|e| Fail::Harness(format!("extra publisher details: {e}")))?;
                let existing = cur.current_files.iter().find(|f| f.uri == uri).map(|f| f.base64.to_hash());
                let bytes = bytes::Bytes::from(vec![*content; 1 + (*content as usize % 40)]);
                let mut delta = PublishDelta::empty();
                match (existing, *content) {
                    (None, 0) => return Ok(()),
                    (None, _) => delta.add_publish(Publish::new(None, uri, Base64::from_content(&bytes))),
                    (Some(h), 0) => delta.add_withdraw(Withdraw::new(None, uri, h)),
                    (Some(h), _) => {
                        if Base64::from_content(&bytes).to_hash() == h {
                            return Ok(());
                        }
                        delta.add_update(Update::new(None, uri, Base64::from_content(&bytes), h))
                    }
                }
                self.flags.hit("foreign_publication");
                let r = crate::world::guarded(|| w.repo().publish(&handle, delta, &w.rt))?;
                r.map_err(|e| e.to_string())
            }
            Op::Overlap { late, inner } => {
                let nested = matches!(**inner, Op::Overlap { .. } | Op::Pump { .. } | Op::Quiesce | Op::Check | Op::Restart | Op::Advance { .. } | Op::Snapshot | Op::HoldSigner { .. } | Op::HoldParentSyncs { .. });
                if nested {
                    return Ok(());
                }
                let claimed = self.wm().pump_claim()?;
                match claimed {
                    None => self.apply(inner)?,
                    Some(mut c) => {
                        if *late {
                            self.wm().pump_process(&mut c)?;
                        }
                        self.flags.hit(if *late { "request_before_task_finish" } else { "request_before_task_work" });
                        let r = self.apply(inner);
                        if !*late {
                            self.wm().pump_process(&mut c)?;
                        }
                        let name = self.wm().pump_finish(c)?;
                        r?;
                        if let Some(hook) = self.task_hook {
                            if self.task_bad.is_none() {
                                if let Err(b) = hook(self, &name) {
                                    self.task_bad = Some(b);
                                }
                            }
                        }
                    }
                }
                Ok(())
            }
            Op::Quiesce => {
                self.quiesce()?;
                Ok(())
            }
            Op::Check => {
                self.converge()?;
                Ok(())
            }
            Op::Snapshot => {
                let w = self.w.as_ref().unwrap();
                w.schedule(Task::UpdateSnapshots).map_err(Fail::Harness)?;
                self.flags.hit("snapshot");
                Ok(())
            }
            Op::Restart => {
                if self.w().cfg.disk {
                    let w = self.w.take().unwrap();
                    let w = w.restart().map_err(|e| Fail::Violation(format!("restart failed: {e}")))?;
                    let tq = w.rt.tasks();
                    tq.reschedule_tasks_at_startup().map_err(|e| Fail::Violation(format!("restart: {e}")))?;
                    w.schedule(Task::QueueStartTasks).map_err(Fail::Harness)?;
                    self.w = Some(w);
                    self.flags.hit("restart");
                    Ok(())
                } else {
                    Err("memory world".into())
                }
            }
            Op::HoldSigner { on } => {
                let w = self.wm();
                w.hold_types.retain(|h| h != "sync_ta_proxy_signer");
                if *on {
                    w.hold_types.push("sync_ta_proxy_signer".into());
                    Ok(())
                } else {
                    w.schedule(Task::SyncTrustAnchorProxySignerIfPossible)
                }
            }
            Op::HoldParentSyncs { on } => {
                let w = self.wm();
                w.hold_types.retain(|h| h != "_with_parent_");
                self.held_advance = 0;
                let w = self.wm();
                if *on {
                    w.hold_types.push("_with_parent_".into());
                    self.flags.hit("parent_syncs_held");
                    Ok(())
                } else {
                    let w = self.w.as_ref().unwrap();
                    crate::world::guarded(|| w.refresh_all())?
                }
            }
        };
        if matches!(op, Op::Pump { .. } | Op::Quiesce | Op::Check | Op::Restart) {
            self.sync_suspension_from_krill();
        }
        self.note(op, &res);
        Ok(())
    }

    /// A suspended child is un-suspended by krill as soon as it sends a
    /// request (documented behaviour); follow krill's own view of which
    /// children are suspended after background work ran.
    pub fn sync_suspension_from_krill(&mut self) {
        let parents: Vec<String> = self.model.cas.keys().cloned().collect();
        for p in parents {
            let Some(info) = self.ca_info(&p) else { continue };
            let suspended: BTreeSet<String> = info.suspended_children.iter().map(|c| c.to_string()).collect();
            let pm = self.model.cas.get_mut(&p).unwrap();
            let mut unsusp = 0;
            for (c, cm) in pm.children.iter_mut() {
                let now = suspended.contains(c);
                if cm.suspended && !now {
                    unsusp += 1;
                }
                cm.suspended = now;
            }
            for _ in 0..unsusp {
                self.flags.hit("child_unsuspended");
                self.flags.hit("child_auto_unsuspended");
            }
        }
    }

    fn is_ancestor(&self, anc: &str, of: &str) -> bool {
        // is `anc` an ancestor (or equal) of `of` following configured parents
        let mut stack = vec![of.to_string()];
        let mut seen = BTreeSet::new();
        while let Some(x) = stack.pop() {
            if x == anc {
                return true;
            }
            if !seen.insert(x.clone()) {
                continue;
            }
            if let Some(c) = self.model.cas.get(&x) {
                for p in &c.parents {
                    stack.push(p.clone());
                }
            }
            // also parents that list it as child
            for (pn, pc) in &self.model.cas {
                if pc.children.contains_key(&x) {
                    stack.push(pn.clone());
                }
            }
        }
        false
    }

    /// Current key identifiers (hex) of a CA: the keys that sign products.
    pub fn current_keys(&self, ca: &str) -> Vec<String> {
        let mut res = Vec::new();
        if let Some(info) = self.ca_info(ca) {
            for rc in info.resource_classes.values() {
                if let Some(k) = rc.keys.current_key() {
                    res.push(k.key_id.to_string());
                }
            }
        }
        res
    }

    pub fn roll_state(&self, ca: &str) -> Vec<&'static str> {
        let mut res = Vec::new();
        if let Some(info) = self.ca_info(ca) {
            for rc in info.resource_classes.values() {
                res.push(match rc.keys {
                    ResourceClassKeysInfo::Pending(_) => "pending",
                    ResourceClassKeysInfo::Active(_) => "active",
                    ResourceClassKeysInfo::RollPending(_) => "rollpending",
                    ResourceClassKeysInfo::RollNew(_) => "rollnew",
                    ResourceClassKeysInfo::RollOld(_) => "rollold",
                });
            }
        }
        res
    }
}
