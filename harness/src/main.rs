mod clock;
mod csr;
mod enginep;
mod fw;
mod gens;
mod hooks;
mod httpd;
mod ops;
mod oracle;
mod props;
mod rp;
mod rrdpc;
mod sigw;
mod world;

use std::path::PathBuf;

use fw::{Prop, Tier};

fn genkeys(n: usize, out: &str) {
    use std::io::Write;
    let threads = std::thread::available_parallelism().map(|n| n.get()).unwrap_or(4);
    let per = n.div_ceil(threads);
    let mut handles = vec![];
    for _ in 0..threads {
        handles.push(std::thread::spawn(move || {
            let mut v = Vec::new();
            for _ in 0..per {
                let rsa = openssl::rsa::Rsa::generate(2048).unwrap();
                let pkey = openssl::pkey::PKey::from_rsa(rsa).unwrap();
                v.push(pkey.private_key_to_pem_pkcs8().unwrap());
            }
            v
        }));
    }
    let mut f = std::fs::File::create(out).unwrap();
    let mut c = 0;
    for h in handles {
        for pem in h.join().unwrap() {
            if c < n {
                f.write_all(&pem).unwrap();
                c += 1;
            }
        }
    }
    eprintln!("wrote {c} keys to {out}");
}

fn arg(args: &[String], name: &str) -> Option<String> {
    args.iter().position(|a| a == name).and_then(|i| args.get(i + 1).cloned())
}

fn worker_for<P: Prop>(tier: Tier, seed: u64, index: usize, cases: u64, out: &str) {
    let frag = fw::run_worker::<P>(tier, seed, index, cases);
    std::fs::write(out, serde_json::to_string(&frag).unwrap()).unwrap();
}

fn replay_for<P: Prop>(rf: &fw::ReplayFile, times: usize) -> bool {
    let res = fw::replay::<P>(rf, times);
    let mut any = false;
    for (v, m) in &res {
        println!("{}: {}", if *v { "VIOLATED" } else { "ok" }, m);
        any |= *v;
    }
    any
}

macro_rules! dispatch {
    ($prop:expr, $f:ident, $($args:expr),*) => {
        match $prop {
            "C01" => $f::<props::c01::C01>($($args),*),
            "C02" => $f::<props::c02::C02>($($args),*),
            "C03" => $f::<props::c03::C03>($($args),*),
            "C04" => $f::<props::c04::C04>($($args),*),
            "C05" => $f::<props::c05::C05>($($args),*),
            "C06" => $f::<props::c06::C06>($($args),*),
            "C07" => $f::<props::c07::C07>($($args),*),
            "C08" => $f::<props::c08::C08>($($args),*),
            "C09" => $f::<props::c09::C09>($($args),*),
            "C10" => $f::<props::c10::C10>($($args),*),
            "C11" => $f::<props::c11::C11>($($args),*),
            "C12" => $f::<props::c12::C12>($($args),*),
            "C13" => $f::<props::c13::C13>($($args),*),
            "C14" => $f::<props::c14::C14>($($args),*),
            "C15" => $f::<props::c15::C15>($($args),*),
            "C16" => $f::<props::c16::C16>($($args),*),
            "C17" => $f::<props::c17::C17>($($args),*),
            "C18" => $f::<props::c18::C18>($($args),*),
            "C19" => $f::<props::c19::C19>($($args),*),
            "C20" => $f::<props::c20::C20>($($args),*),
            other => {
                eprintln!("unknown property {other}");
                std::process::exit(2);
            }
        }
    };
}

fn main() {
    let args: Vec<String> = std::env::args().collect();
    let cmd = args.get(1).map(|s| s.as_str()).unwrap_or("");
    let keyfile = PathBuf::from(std::env::var("KVH_KEYS").unwrap_or("/verif/cache/keys.pem".into()));
    // keep panic output quiet: panics inside krill are caught and attributed
    if std::env::var("KVH_PANIC_TRACE").is_err() {
        std::panic::set_hook(Box::new(|info| {
            world::note_panic_location(info.location().map(|l| format!("{}:{}", l.file(), l.line())));
        }));
    }
    match cmd {
        "genkeys" => genkeys(args[2].parse().unwrap(), &args[3]),
        "fuzzseeds" => {
            // seed corpus of the coverage-guided target signed_xml (see /verif/fuzz)
            hooks::install(Some(&keyfile));
            let dir = PathBuf::from(&args[2]);
            std::fs::create_dir_all(&dir).unwrap();
            let seeds = sigw::fuzz_seeds().unwrap_or_else(|e| {
                eprintln!("cannot build seeds: {e:?}");
                std::process::exit(2);
            });
            for (i, s) in seeds.iter().enumerate() {
                std::fs::write(dir.join(format!("seed-{i:02}")), s).unwrap();
            }
            eprintln!("wrote {} seeds to {}", seeds.len(), dir.display());
            let _ = std::fs::remove_dir_all(world::scratch_root());
        }
        "worker" => {
            hooks::install(Some(&keyfile));
            let prop = arg(&args, "--prop").unwrap();
            let tier = if arg(&args, "--tier").as_deref() == Some("thorough") { Tier::Thorough } else { Tier::Quick };
            let seed: u64 = arg(&args, "--seed").and_then(|s| s.parse().ok()).unwrap_or(0);
            let index: usize = arg(&args, "--index").and_then(|s| s.parse().ok()).unwrap_or(0);
            let cases: u64 = arg(&args, "--cases").and_then(|s| s.parse().ok()).unwrap_or(10);
            let out = arg(&args, "--out").unwrap();
            dispatch!(prop.as_str(), worker_for, tier, seed, index, cases, &out);
            if std::env::var("KVH_KEEP_DIRS").is_err() {
                let _ = std::fs::remove_dir_all(world::scratch_root());
            }
        }
        "replay" => {
            hooks::install(Some(&keyfile));
            let file = &args[2];
            let times: usize = arg(&args, "--times").and_then(|s| s.parse().ok()).unwrap_or(3);
            let rf: fw::ReplayFile = serde_json::from_str(&std::fs::read_to_string(file).unwrap()).unwrap();
            let prop = rf.property.clone();
            let violated = dispatch!(prop.as_str(), replay_for, &rf, times);
            if std::env::var("KVH_KEEP_DIRS").is_err() {
                let _ = std::fs::remove_dir_all(world::scratch_root());
            }
            std::process::exit(if violated { 1 } else { 0 });
        }
        _ => {
            eprintln!("usage: kvh genkeys N FILE | worker --prop ID --tier T --seed S --index I --cases K --out F | replay FILE");
            std::process::exit(2);
        }
    }
}
