mod clock;
mod hooks;
mod rp;
mod world;

use std::path::PathBuf;

fn genkeys(n: usize, out: &str) {
    use std::io::Write;
    let threads = std::thread::available_parallelism().map(|n| n.get()).unwrap_or(4);
    let per = n.div_ceil(threads);
    let mut handles = vec![];
    for _ in 0..threads {
        handles.push(std::thread::spawn(move || {
            let mut v = Vec::new();
            for _ in 0..per {
                let rsa = openssl::rsa::Rsa::generate(2048).unwrap();
                let pkey = openssl::pkey::PKey::from_rsa(rsa).unwrap();
                v.push(pkey.private_key_to_pem_pkcs8().unwrap());
            }
            v
        }));
    }
    let mut f = std::fs::File::create(out).unwrap();
    let mut c = 0;
    for h in handles {
        for pem in h.join().unwrap() {
            if c < n {
                f.write_all(&pem).unwrap();
                c += 1;
            }
        }
    }
    eprintln!("wrote {c} keys to {out}");
}

fn smoke() {
    use world::*;
    let t0 = std::time::Instant::now();
    let mut w = World::new(WorldCfg::default(), 0).unwrap();
    w.init_repo_and_ta().unwrap();
    eprintln!("ta: {:?}", t0.elapsed());
    w.add_ca("alice").unwrap();
    w.attach("alice", TA, &rs("AS65000-AS65010", "10.0.0.0/16", "2001:db8::/32")).unwrap();
    eprintln!("pump0: {:?}", w.pump_quiesce(1000).unwrap());
    w.add_ca("bob").unwrap();
    w.attach("bob", "alice", &rs("AS65000", "10.0.0.0/24", "")).unwrap();
    eprintln!("cas: {:?}", t0.elapsed());
    let r = w.pump_quiesce(1000).unwrap();
    eprintln!("pump: {:?} {:?} trace={:?}", r, t0.elapsed(), w.task_trace);
    let upd: krill::api::roa::RoaConfigurationUpdates =
        serde_json::from_str(r#"{"added":[{"asn":65000,"prefix":"10.0.0.0/24","max_length":24}],"removed":[]}"#).unwrap();
    eprintln!("roa: {:?}", w.roa_update("bob", upd).map_err(|e| e.to_string()));
    let r = w.pump_quiesce(1000).unwrap();
    eprintln!("pump: {:?} {:?}", r, t0.elapsed());
    for (u, b) in w.served().unwrap() {
        eprintln!("  {u} {}", b.len());
    }
    let (ta, tal) = w.ta_cert_and_tal().unwrap();
    let rep = rp::validate(&ta, &tal, &w.served().unwrap(), clock::now_s());
    eprintln!("rp issues: {:?}\n vrps {:?}\n cas {:?}", rep.issues, rep.vrps, rep.ca_certs.iter().map(|c| (&c.uri, c.resources.to_string())).collect::<Vec<_>>());
    eprintln!("pending: {:?}", w.pending_tasks());
    eprintln!("keys used: {}", hooks::h().keys_used());
}

fn main() {
    let args: Vec<String> = std::env::args().collect();
    let cmd = args.get(1).map(|s| s.as_str()).unwrap_or("");
    match cmd {
        "genkeys" => genkeys(args[2].parse().unwrap(), &args[3]),
        "smoke" => {
            hooks::install(Some(&PathBuf::from("/verif/cache/keys.pem")));
            smoke();
        }
        _ => {
            eprintln!("usage: kvh genkeys N FILE | smoke");
            std::process::exit(2);
        }
    }
}
