//! proptest strategies for world configurations and operation histories.
use proptest::collection::vec;
use proptest::prelude::*;
use serde::{Deserialize, Serialize};

use crate::ops::{Op, RoaSpec, MAX_CAS};
use crate::world::WorldCfg;

#[derive(Clone, Debug, Serialize, Deserialize)]
pub struct WCase {
    pub cfg: WorldCfg,
    pub key_start: u16,
    pub setup: Vec<Op>,
    pub ops: Vec<Op>,
}

impl WCase {
    pub fn n_ops(&self) -> usize {
        self.setup.len() + self.ops.len()
    }
}

/// Weights for operation kinds (0 = never).
#[derive(Clone, Debug)]
pub struct Weights {
    pub roa: u32,
    pub aspa: u32,
    pub bgpsec: u32,
    pub ca_add: u32,
    pub ca_delete: u32,
    pub attach: u32,
    pub child_res: u32,
    pub suspend: u32,
    pub child_remove: u32,
    pub mapping: u32,
    pub parent_remove: u32,
    pub keyroll: u32,
    pub update_id: u32,
    pub republish: u32,
    pub renew: u32,
    pub refresh: u32,
    pub session_reset: u32,
    pub publisher: u32,
    pub advance: u32,
    pub pump: u32,
    pub quiesce: u32,
    pub snapshot: u32,
    pub restart: u32,
    pub hold_signer: u32,
    pub hold_parent_syncs: u32,
    pub check: u32,
    /// operator actions that make failing exchanges succeed again (child
    /// added again at the parent, child identity registered at the parent,
    /// publisher re-created)
    pub heal: u32,
    /// requests that overlap with a running task
    pub overlap: u32,
    /// publications of a publisher that is not a CA
    pub foreign: u32,
    /// maximal single clock advance in seconds
    pub max_advance: u32,
}

impl Default for Weights {
    fn default() -> Self {
        Weights {
            roa: 20,
            aspa: 6,
            bgpsec: 4,
            ca_add: 1,
            ca_delete: 1,
            attach: 3,
            child_res: 8,
            suspend: 3,
            child_remove: 1,
            mapping: 1,
            parent_remove: 1,
            keyroll: 6,
            update_id: 1,
            republish: 2,
            renew: 1,
            refresh: 2,
            session_reset: 1,
            publisher: 0,
            advance: 5,
            pump: 8,
            quiesce: 4,
            snapshot: 1,
            restart: 0,
            hold_signer: 0,
            hold_parent_syncs: 0,
            check: 5,
            heal: 0,
            overlap: 0,
            foreign: 0,
            max_advance: 14 * 86400,
        }
    }
}

pub fn roa_spec() -> impl Strategy<Value = RoaSpec> {
    (0u8..8, 0u8..20, 0u8..5, prop_oneof![4 => Just(0u8), 1 => 1u8..3]).prop_map(|(asn_i, pfx_i, ml, comment)| RoaSpec {
        asn_i,
        pfx_i,
        ml,
        comment,
    })
}

fn ca_idx(n: usize) -> impl Strategy<Value = u8> {
    (0..n as u8).boxed()
}

fn res_mask() -> impl Strategy<Value = u16> {
    prop_oneof![
        3 => any::<u16>().prop_map(|m| m & 0x7fff),
        1 => (any::<u16>(), any::<u16>()).prop_map(|(a, b)| (a | b) & 0x7fff),
        1 => (any::<u16>(), any::<u16>()).prop_map(|(a, b)| (a & b) & 0x7fff),
        1 => Just(0u16),
        1 => Just(0x7fffu16),
    ]
}

pub fn advance_secs(max: u32, cfg: &WorldCfg) -> BoxedStrategy<u32> {
    let next = cfg.publish_next_hours * 3600;
    let before = cfg.publish_before_hours * 3600;
    let edge = next.saturating_sub(before);
    let week = 7 * 86400u32;
    let mut opts: Vec<(u32, BoxedStrategy<u32>)> = vec![
        (3, (1u32..600).boxed()),
        (3, (600u32..(next.max(601))).boxed()),
        (3, (edge.saturating_sub(120)..edge + 120).boxed()),
        (2, (next..next + 2 * 3600).boxed()),
        (2, (86400u32..3 * 86400).boxed()),
    ];
    if max > week {
        opts.push((2, (week..max).boxed()));
        // around re-issue margins of signed objects
        for (valid, margin) in [
            (cfg.roa_valid_weeks, cfg.roa_reissue_weeks),
            (cfg.aspa_valid_weeks, cfg.aspa_reissue_weeks),
            (cfg.bgpsec_valid_weeks, cfg.bgpsec_reissue_weeks),
            (cfg.child_valid_weeks, cfg.child_reissue_weeks),
        ] {
            let edge = valid.saturating_sub(margin) * week;
            if edge > 3600 && edge < max {
                opts.push((2, (edge - 3600..edge + 3600).boxed()));
            }
        }
    }
    let max = max.max(2);
    proptest::strategy::Union::new_weighted(opts).prop_map(move |s| s.min(max)).boxed()
}

pub fn op_strategy(w: &Weights, n_cas: usize, cfg: &WorldCfg, edges: &[(u8, u8)]) -> BoxedStrategy<Op> {
    let n = n_cas.max(1);
    // (parent, child) pairs: mostly edges that the set-up created
    let non_ta: Vec<(u8, u8)> = edges.iter().copied().filter(|e| e.0 != 0).collect();
    let pair = move || -> BoxedStrategy<(u8, u8)> {
        let random = (1u8..(n as u8 + 1), 0u8..n as u8).boxed();
        if non_ta.is_empty() {
            random
        } else {
            prop_oneof![5 => proptest::sample::select(non_ta.clone()), 1 => random].boxed()
        }
    };
    let mut opts: Vec<(u32, BoxedStrategy<Op>)> = Vec::new();
    let mut add = |wt: u32, s: BoxedStrategy<Op>| {
        if wt > 0 {
            opts.push((wt, s));
        }
    };
    add(
        w.roa,
        (ca_idx(n), vec(roa_spec(), 0..5), vec(any::<u16>(), 0..3))
            .prop_map(|(ca, add, remove)| Op::Roa { ca, add, remove })
            .boxed(),
    );
    add(
        w.aspa,
        prop_oneof![
            4 => (ca_idx(n), 1u8..8, vec(0u8..8, 0..4)).prop_map(|(ca, customer, providers)| Op::Aspa { ca, customer, providers }),
            1 => (ca_idx(n), 1u8..8).prop_map(|(ca, customer)| Op::AspaRemove { ca, customer }),
            2 => (ca_idx(n), 1u8..8, vec(0u8..8, 0..3), vec(0u8..8, 0..3))
                .prop_map(|(ca, customer, add, remove)| Op::AspaProviders { ca, customer, add, remove }),
        ]
        .boxed(),
    );
    add(
        w.bgpsec,
        prop_oneof![
            3 => (ca_idx(n), 1u8..8, 0u8..6).prop_map(|(ca, asn, csr)| Op::Bgpsec { ca, asn, csr }),
            1 => (ca_idx(n), any::<u16>()).prop_map(|(ca, sel)| Op::BgpsecRemove { ca, sel }),
        ]
        .boxed(),
    );
    add(w.ca_add, (0u8..MAX_CAS as u8).prop_map(|ca| Op::CaAdd { ca }).boxed());
    add(w.ca_delete, ca_idx(n).prop_map(|ca| Op::CaDelete { ca }).boxed());
    add(
        w.attach,
        (ca_idx(n), 0u8..(n as u8 + 1), res_mask()).prop_map(|(ca, parent, res)| Op::Attach { ca, parent, res }).boxed(),
    );
    add(
        w.child_res,
        (pair(), res_mask()).prop_map(|((parent, child), res)| Op::ChildResources { parent, child, res }).boxed(),
    );
    add(
        w.suspend,
        prop_oneof![
            pair().prop_map(|(parent, child)| Op::ChildSuspend { parent, child }),
            pair().prop_map(|(parent, child)| Op::ChildUnsuspend { parent, child }),
        ]
        .boxed(),
    );
    add(
        w.child_remove,
        pair().prop_map(|(parent, child)| Op::ChildRemove { parent, child }).boxed(),
    );
    add(
        w.mapping,
        (pair(), 0u8..3, 0u8..3).prop_map(|((parent, child), rcn, name)| Op::ChildMapping { parent, child, rcn, name }).boxed(),
    );
    add(
        w.parent_remove,
        (ca_idx(n), 0u8..(n as u8 + 1)).prop_map(|(ca, parent)| Op::ParentRemove { ca, parent }).boxed(),
    );
    add(
        w.keyroll,
        prop_oneof![
            ca_idx(n).prop_map(|ca| Op::KeyrollInit { ca }),
            ca_idx(n).prop_map(|ca| Op::KeyrollActivate { ca }),
        ]
        .boxed(),
    );
    add(w.update_id, ca_idx(n).prop_map(|ca| Op::UpdateId { ca }).boxed());
    add(w.republish, any::<bool>().prop_map(|force| Op::Republish { force }).boxed());
    add(w.renew, Just(Op::Renew).boxed());
    add(w.refresh, prop_oneof![Just(Op::RefreshAll), Just(Op::RepoSyncAll)].boxed());
    add(w.session_reset, Just(Op::SessionReset).boxed());
    add(
        w.publisher,
        prop_oneof![
            ca_idx(n).prop_map(|ca| Op::PublisherRemove { ca }),
            ca_idx(n).prop_map(|ca| Op::PublisherReadd { ca }),
        ]
        .boxed(),
    );
    add(
        w.heal,
        prop_oneof![
            3 => (pair(), res_mask()).prop_map(|((parent, child), res)| Op::ChildReadd { parent, child, res }),
            3 => pair().prop_map(|(parent, child)| Op::ChildIdSync { parent, child }),
            2 => ca_idx(n).prop_map(|ca| Op::PublisherReadd { ca }),
        ]
        .boxed(),
    );
    add(w.advance, advance_secs(w.max_advance, cfg).prop_map(|secs| Op::Advance { secs }).boxed());
    add(w.pump, (1u8..6).prop_map(|n| Op::Pump { n }).boxed());
    add(w.quiesce, Just(Op::Quiesce).boxed());
    add(w.snapshot, Just(Op::Snapshot).boxed());
    add(w.restart, Just(Op::Restart).boxed());
    add(w.hold_signer, any::<bool>().prop_map(|on| Op::HoldSigner { on }).boxed());
    add(w.hold_parent_syncs, prop_oneof![3 => Just(true), 1 => Just(false)].prop_map(|on| Op::HoldParentSyncs { on }).boxed());
    add(w.check, Just(Op::Check).boxed());
    add(w.foreign, (0u8..6, 0u8..5).prop_map(|(slot, content)| Op::ForeignPublish { slot, content }).boxed());
    if w.overlap > 0 {
        // the request that overlaps with a running task: any plain request
        let plain: Vec<(u32, BoxedStrategy<Op>)> = opts
            .iter()
            .filter(|(_, _)| true)
            .cloned()
            .collect();
        let inner = proptest::strategy::Union::new_weighted(plain)
            .prop_filter("plain request", |op| {
                !matches!(op, Op::Pump { .. } | Op::Quiesce | Op::Check | Op::Restart | Op::Advance { .. } | Op::Snapshot | Op::HoldSigner { .. } | Op::HoldParentSyncs { .. } | Op::CaAdd { .. } | Op::CaDelete { .. } | Op::Attach { .. } | Op::ParentRemove { .. })
            })
            .boxed();
        opts.push((w.overlap, (any::<bool>(), inner).prop_map(|(late, inner)| Op::Overlap { late, inner: Box::new(inner) }).boxed()));
    }
    proptest::strategy::Union::new_weighted(opts).boxed()
}

/// World configuration: timing within what `Config::verify` accepts, small
/// aggregation thresholds so mode switches happen with few ROAs.
pub fn cfg_strategy(disk: BoxedStrategy<bool>, wide_timing: bool) -> BoxedStrategy<WorldCfg> {
    let agg = (1usize..7).prop_flat_map(|agg| (Just(agg), 0usize..=agg));
    let publish = (2u32..49).prop_flat_map(|next| (Just(next), 0u32..=(next / 2), 1u32..next));
    let weeks = move || {
        if wide_timing {
            // any margin below the lifetime; or a margin one to three weeks below it, so that a
            // clock advance of a few weeks carries an object into its re-issue margin
            prop_oneof![
                3 => (2u32..60).prop_flat_map(|valid| (Just(valid), 1u32..valid)),
                2 => (2u32..40, 1u32..4).prop_map(|(valid, d)| (valid, valid.saturating_sub(d).max(1))),
            ]
            .boxed()
        } else {
            prop_oneof![3 => Just((52u32, 4u32)), 1 => (8u32..60).prop_flat_map(|valid| (Just(valid), 1u32..valid.min(8)))].boxed()
        }
    };
    // aspa / bgpsec margins may equal or exceed lifetimes (krill allows it)
    let loose = move || {
        if wide_timing {
            prop_oneof![
                3 => (2u32..60, 1u32..70),
                2 => (2u32..40, 1u32..4).prop_map(|(valid, d)| (valid, valid.saturating_sub(d).max(1))),
            ]
            .boxed()
        } else {
            Just((52u32, 4u32)).boxed()
        }
    };
    (disk, any::<bool>(), agg, publish, weeks(), weeks(), loose(), loose(), prop_oneof![3 => Just(0u32), 1 => 1u32..600])
        .prop_map(|(disk, history_cache, (agg, deagg), (pn, pj, pb), (cv, cr), (rv, rr), (av, ar), (bv, br), interval)| {
            WorldCfg {
                disk,
                history_cache,
                agg,
                deagg,
                publish_next_hours: pn,
                publish_jitter_hours: pj,
                publish_before_hours: pb,
                child_valid_weeks: cv,
                child_reissue_weeks: cr,
                roa_valid_weeks: rv,
                roa_reissue_weeks: rr,
                aspa_valid_weeks: av,
                aspa_reissue_weeks: ar,
                bgpsec_valid_weeks: bv,
                bgpsec_reissue_weeks: br,
                rrdp_interval_secs: interval,
                ..WorldCfg::default()
            }
        })
        .boxed()
}

/// Hierarchy set-up as operations: ca0 under the TA with (nearly) everything,
/// further CAs under the TA or earlier CAs with masks derived from the
/// parent's mask (mostly subsets, sometimes not), sometimes a second parent.
pub fn setup_strategy(max_cas: usize) -> BoxedStrategy<(usize, Vec<Op>, Vec<(u8, u8)>)> {
    (1usize..=max_cas)
        .prop_flat_map(|n| {
            (
                Just(n),
                vec((any::<u16>(), any::<u16>(), any::<u16>(), any::<u8>(), 0u8..10), n),
                prop_oneof![3 => Just(0x7fffu16), 1 => any::<u16>().prop_map(|m| (m | 0x0901) & 0x7fff)],
            )
        })
        .prop_map(|(n, raws, root_mask)| {
            let mut ops = Vec::new();
            let mut masks: Vec<u16> = Vec::new();
            let mut edges: Vec<(u8, u8)> = Vec::new();
            for (i, (r1, r2, r3, psel, second)) in raws.into_iter().enumerate() {
                ops.push(Op::CaAdd { ca: i as u8 });
                // parent: 0 = ta, j+1 = ca j (j < i)
                let parent = if i == 0 { 0 } else { (psel as usize % (i + 1)) as u8 };
                let pmask = if parent == 0 { 0x7fff } else { masks[parent as usize - 1] };
                let mut mask = if i == 0 { root_mask } else { pmask & (r1 | r2) };
                if i > 0 && second == 9 {
                    // sometimes ask for more than the parent has
                    mask |= r3 & 0x7fff;
                }
                if mask == 0 {
                    mask = pmask & r3;
                }
                masks.push(mask);
                ops.push(Op::Attach { ca: i as u8, parent, res: mask });
                edges.push((parent, i as u8));
                if parent != 0 && r3 % 3 == 0 {
                    // the child knows the resource class under another name
                    // (only possible before it received a certificate)
                    ops.push(Op::ChildMapping { parent, child: i as u8, rcn: 0, name: (r3 % 3) as u8 });
                }
                ops.push(Op::Quiesce);
                if i > 0 && second < 3 {
                    // second parent: another earlier CA or the TA
                    let p2 = ((psel as usize / 7) % (i + 1)) as u8;
                    if p2 != parent {
                        let p2mask = if p2 == 0 { 0x7fff } else { masks[p2 as usize - 1] };
                        ops.push(Op::Attach { ca: i as u8, parent: p2, res: p2mask & (r2 | r3) });
                        edges.push((p2, i as u8));
                        ops.push(Op::Quiesce);
                    }
                }
            }
            (n, ops, edges)
        })
        .boxed()
}

pub fn wcase_strategy(
    cfg: BoxedStrategy<WorldCfg>,
    weights: Weights,
    max_cas: usize,
    ops_range: std::ops::Range<usize>,
) -> BoxedStrategy<WCase> {
    (cfg, setup_strategy(max_cas), any::<u16>())
        .prop_flat_map(move |(cfg, (n, setup, edges), key_start)| {
            let ops = vec(op_strategy(&weights, n, &cfg, &edges), ops_range.clone());
            (Just(cfg), Just(setup), Just(key_start), ops)
        })
        .prop_map(|(cfg, setup, key_start, mut ops)| {
            ops.push(Op::Check);
            WCase { cfg, key_start, setup, ops }
        })
        .boxed()
}

/// Episodes in which a key roll of a CA meets a change of that CA's entitlements
/// at its parent, with only a few background tasks run in between: the roll is
/// started, the parent changes what the CA is entitled to (before or after the
/// start), one to three tasks run (so that one key has a certificate for the
/// new entitlement and the other has not), the new key is activated, a few more
/// tasks run, checkpoint. Up to two episodes per case, spread over the history.
pub fn with_roll_episodes(base: BoxedStrategy<WCase>) -> BoxedStrategy<WCase> {
    (base, vec((any::<u16>(), any::<u16>(), any::<u16>(), res_mask()), 0..3))
        .prop_map(|(mut case, episodes)| {
            let edges: Vec<(u8, u8)> = case
                .setup
                .iter()
                .filter_map(|o| match o {
                    Op::Attach { ca, parent, .. } if *parent != 0 => Some((*parent, *ca)),
                    _ => None,
                })
                .collect();
            if edges.is_empty() {
                return case;
            }
            for (sel, pos, gaps, res) in episodes {
                let (parent, child) = edges[sel as usize * edges.len() >> 16];
                let pump = |k: u16| -> Option<Op> {
                    let n = ((gaps >> (2 * k)) & 3) as u8;
                    if n == 0 { None } else { Some(Op::Pump { n }) }
                };
                let change = Op::ChildResources { parent, child, res };
                let mut seq: Vec<Op> = Vec::new();
                if gaps & 0x100 == 0 {
                    seq.push(Op::KeyrollInit { ca: child });
                    seq.extend(pump(0));
                    seq.push(change);
                } else {
                    seq.push(change);
                    seq.extend(pump(0));
                    seq.push(Op::KeyrollInit { ca: child });
                }
                seq.extend(pump(1));
                seq.push(Op::KeyrollActivate { ca: child });
                seq.extend(pump(2));
                seq.push(Op::Check);
                let mut at = pos as usize * (case.ops.len() + 1) >> 16;
                for (k, op) in seq.into_iter().enumerate() {
                    if k > 0 {
                        // mostly adjacent, sometimes with one generated operation in between
                        at += 1 + ((gaps >> (9 + (k % 6))) & 1) as usize * ((sel >> k.min(15)) & 1) as usize;
                    }
                    at = at.min(case.ops.len());
                    case.ops.insert(at, op);
                }
            }
            case
        })
        .boxed()
}
