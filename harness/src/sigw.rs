//! Engine S: a krill instance whose parent CA `p` and publication server are
//! addressed with harness-built, CMS-signed RFC 6492 / RFC 8181 messages, the
//! path that remote children and publishers take (the local short-cut used by
//! CAs inside the same instance bypasses CMS entirely).
use std::collections::BTreeMap;
use std::str::FromStr;

use bytes::Bytes;
use krill::api::admin::{AddChildRequest, UpdateChildRequest};
use krill::api::ca::IdCertInfo;
use rpki::ca::idcert::IdCert;
use rpki::ca::idexchange::{CaHandle, ChildHandle, PublisherHandle, PublisherRequest, RepoInfo};
use rpki::ca::provisioning::{self, IssuanceRequest, ProvisioningCms, RequestResourceLimit, ResourceClassName, RevocationRequest};
use rpki::ca::publication::{self, Base64, Publish, PublishDelta, PublicationCms, Update, Withdraw};
use rpki::crypto::{KeyIdentifier, PublicKey};
use rpki::repository::resources::ResourceSet;
use rpki::uri;
use serde::{Deserialize, Serialize};

use crate::ops::Fail;
use crate::oracle::{bad, Bad};
use crate::world::{guarded, World, WorldCfg};

pub const PARENT: &str = "p";
pub const CHILDREN: [&str; 2] = ["c1", "c2"];
pub const PUBLISHERS: [&str; 2] = ["pub1", "pub2"];
/// a second CA of the same instance that has children of the same names (registered with other identity keys):
/// a request addressed to it in the message, but delivered to `p`, must not be acted upon by it
pub const OTHER_PARENT: &str = "q";
pub const OTHER_CHILD_RES: [(&str, &str); 2] = [("AS64601-AS64610", "11.0.0.0/12"), ("AS64620-AS64630", "11.16.0.0/12")];
pub const N_IDS: usize = 7;
pub const N_CAKEYS: usize = 4;

pub const CHILD_RES: [(&str, &str); 2] = [("AS64496-AS64500", "10.0.0.0/12, 10.32.0.0/12"), ("AS64510-AS64520", "10.64.0.0/12, 10.16.0.0/12")];

pub struct Ident {
    pub key: KeyIdentifier,
    pub cert: IdCert,
}

pub struct SigWorld {
    pub w: World,
    pub ids: Vec<Ident>,
    /// identity registered for each child / publisher (index into ids)
    pub child_id: BTreeMap<String, usize>,
    pub pub_id: BTreeMap<String, usize>,
    pub child_res: BTreeMap<String, ResourceSet>,
    /// keys that requests ask certificates for
    pub ca_keys: Vec<KeyIdentifier>,
    pub stats: BTreeMap<String, usize>,
}

fn h(e: impl std::fmt::Display) -> Fail {
    Fail::Harness(e.to_string())
}

/// What a relying observer can see of the parent and repository state.
#[derive(Clone, Debug, PartialEq, Eq)]
pub struct Observed {
    pub parent_version: u64,
    pub parent_id_key: String,
    /// child -> (registered id key, entitlement, issued cert key ids)
    pub children: BTreeMap<String, (String, String, Vec<String>)>,
    /// publisher -> (id key, files uri -> sha256)
    pub publishers: BTreeMap<String, (String, BTreeMap<String, String>)>,
    pub repo_version: u64,
    /// the other CA `q`: version and its children as above
    pub other_ca: (u64, BTreeMap<String, (String, String, Vec<String>)>),
}

impl SigWorld {
    pub fn new(cfg: WorldCfg, key_start: usize) -> Result<Self, Fail> {
        let w = World::new(cfg, key_start).map_err(Fail::Harness)?;
        let mut this = SigWorld { w, ids: vec![], child_id: Default::default(), pub_id: Default::default(), child_res: Default::default(), ca_keys: vec![], stats: Default::default() };
        guarded(|| this.setup()).map_err(|c| Fail::Crash(c.what))??;
        Ok(this)
    }

    fn setup(&mut self) -> Result<(), Fail> {
        let w = &mut self.w;
        w.init_repo_and_ta().map_err(h)?;
        w.add_ca(PARENT).map_err(h)?;
        let all = ResourceSet::from_strs("AS64496-AS64600", "10.0.0.0/8", "2001:db8::/32").map_err(h)?;
        w.attach(PARENT, "ta", &all).map_err(h)?;
        match w.pump_quiesce(3000) {
            Ok(Ok(_)) => {}
            Ok(Err(e)) => return Err(Fail::Harness(format!("setup does not settle: {e}"))),
            Err(c) => return Err(Fail::Crash(c.what)),
        }
        w.add_ca(OTHER_PARENT).map_err(h)?;
        let other = ResourceSet::from_strs("AS64601-AS64700", "11.0.0.0/8", "").map_err(h)?;
        w.attach(OTHER_PARENT, "ta", &other).map_err(h)?;
        match w.pump_quiesce(3000) {
            Ok(Ok(_)) => {}
            Ok(Err(e)) => return Err(Fail::Harness(format!("setup does not settle: {e}"))),
            Err(c) => return Err(Fail::Crash(c.what)),
        }
        let signer = w.rt.signer();
        for _ in 0..N_IDS {
            let cert = signer.create_self_signed_id_cert().map_err(h)?;
            let key = cert.public_key().key_identifier();
            self.ids.push(Ident { key, cert });
        }
        for _ in 0..N_CAKEYS {
            self.ca_keys.push(signer.create_key().map_err(h)?);
        }
        for (i, c) in CHILDREN.iter().enumerate() {
            let res = ResourceSet::from_strs(CHILD_RES[i].0, CHILD_RES[i].1, "").map_err(h)?;
            let req = AddChildRequest { handle: ChildHandle::from_str(c).unwrap(), resources: res.clone(), id_cert: self.ids[i].cert.clone() };
            self.w.cam().ca_add_child(&CaHandle::from_str(PARENT).unwrap(), req, &self.w.actor, &self.w.rt).map_err(h)?;
            self.child_id.insert(c.to_string(), i);
            self.child_res.insert(c.to_string(), res);
        }
        for (i, c) in CHILDREN.iter().enumerate() {
            let res = ResourceSet::from_strs(OTHER_CHILD_RES[i].0, OTHER_CHILD_RES[i].1, "").map_err(h)?;
            let req = AddChildRequest { handle: ChildHandle::from_str(c).unwrap(), resources: res, id_cert: self.ids[5 + i].cert.clone() };
            self.w.cam().ca_add_child(&CaHandle::from_str(OTHER_PARENT).unwrap(), req, &self.w.actor, &self.w.rt).map_err(h)?;
        }
        for (i, p) in PUBLISHERS.iter().enumerate() {
            let id = 2 + i;
            let req = PublisherRequest::new(IdCertInfo::from(&self.ids[id].cert).base64.clone(), PublisherHandle::from_str(p).unwrap(), None);
            self.w.repo().create_publisher(req, &self.w.actor).map_err(h)?;
            self.pub_id.insert(p.to_string(), id);
        }
        Ok(())
    }

    pub fn hit(&mut self, k: &str) {
        *self.stats.entry(k.to_string()).or_default() += 1;
    }

    pub fn parent(&self) -> Result<std::sync::Arc<krill::server::ca::CertAuth>, Fail> {
        self.w.cam().get_ca(&CaHandle::from_str(PARENT).unwrap()).map_err(h)
    }

    pub fn parent_id_key(&self) -> Result<PublicKey, Fail> {
        Ok(self.parent()?.id_cert().public_key.clone())
    }

    pub fn repo_id_key(&self) -> Result<PublicKey, Fail> {
        let resp = self.w.repo().repository_response(&PublisherHandle::from_str(PUBLISHERS[0]).unwrap(), &self.w.rt).map_err(h)?;
        let cert = resp.validate().map_err(h)?;
        Ok(cert.public_key().clone())
    }

    pub fn base_of(&self, publisher: &str) -> String {
        format!("rsync://krill.example.org/repo/{publisher}/")
    }

    fn children_of(&self, ca_name: &str) -> Result<(u64, String, BTreeMap<String, (String, String, Vec<String>)>), Fail> {
        use krill::commons::eventsourcing::Aggregate;
        let handle = CaHandle::from_str(ca_name).unwrap();
        let ca = self.w.cam().get_ca(&handle).map_err(h)?;
        let mut children = BTreeMap::new();
        for c in CHILDREN {
            let ch = ChildHandle::from_str(c).unwrap();
            if let Ok(info) = ca.get_child(&ch) {
                let details = self.w.cam().ca_show_child(&handle, &ch).map_err(h)?;
                let v = serde_json::to_value(&details).map_err(h)?;
                let res = v.get("entitled_resources").map(|x| x.to_string()).unwrap_or_default();
                // the keys the parent has on record for the child, with their state
                let mut keys: Vec<String> = serde_json::to_value(&info.used_keys)
                    .ok()
                    .and_then(|v| v.as_object().map(|m| m.iter().map(|(k, st)| format!("{k}={st}")).collect()))
                    .unwrap_or_default();
                // and the certificates it has issued for them (serial included: a re-issue shows)
                for (rcn, rc) in serde_json::to_value(&*ca).ok().and_then(|v| v.get("resources").cloned()).and_then(|r| r.as_object().cloned()).unwrap_or_default() {
                    for part in ["issued", "inner", "suspended"] {
                        if let Some(certs) = rc.get("certificates").and_then(|c| c.get(part)).and_then(|c| c.as_object()) {
                            for (k, cert) in certs {
                                if info.used_keys.keys().any(|u| u.to_string() == *k) {
                                    keys.push(format!("cert:{rcn}:{part}:{k}:{}", cert.get("serial").map(|s| s.to_string()).unwrap_or_default()));
                                }
                            }
                        }
                    }
                }
                collect_keys(&v, &mut keys);
                keys.sort();
                children.insert(c.to_string(), (info.id_cert.public_key.key_identifier().to_string(), res, keys));
            }
        }
        Ok((ca.version(), ca.id_cert().public_key.key_identifier().to_string(), children))
    }

    pub fn observe(&self) -> Result<Observed, Fail> {
        let (parent_version, parent_id_key, children) = self.children_of(PARENT)?;
        let (other_version, _, other_children) = self.children_of(OTHER_PARENT)?;
        let mut publishers = BTreeMap::new();
        for p in self.w.publishers() {
            if let Ok(d) = self.w.repo().get_publisher_details(PublisherHandle::from_str(&p).unwrap()) {
                let files: BTreeMap<String, String> = d
                    .current_files
                    .iter()
                    .map(|f| (f.uri.to_string(), hex(&rpki::ca::publication::Base64::to_hash(&f.base64).as_ref())))
                    .collect();
                publishers.insert(p.clone(), (d.id_cert.public_key.key_identifier().to_string(), files));
            }
        }
        Ok(Observed { parent_version, parent_id_key, children, publishers, repo_version: 0, other_ca: (other_version, other_children) })
    }

    //--- building messages

    pub fn csr(&self, key: usize, base_child: &str) -> Result<rpki::ca::csr::RpkiCaCsr, Fail> {
        let base = uri::Rsync::from_str(&format!("rsync://krill.example.org/repo/{base_child}/")).map_err(h)?;
        let info = RepoInfo::new(base, Some(uri::Https::from_str("https://krill.example.org/rrdp/notification.xml").unwrap()));
        self.w.rt.signer().sign_csr(&info, "0", &self.ca_keys[key % self.ca_keys.len()]).map_err(h)
    }

    pub fn sign6492(&self, msg: provisioning::Message, id: usize) -> Result<Bytes, Fail> {
        let cms = self.w.rt.signer().create_rfc6492_cms(msg, &self.ids[id % self.ids.len()].key).map_err(h)?;
        Ok(cms.to_bytes())
    }

    pub fn sign8181(&self, msg: publication::Message, id: usize) -> Result<Bytes, Fail> {
        let cms = self.w.rt.signer().create_rfc8181_cms(msg, &self.ids[id % self.ids.len()].key).map_err(h)?;
        Ok(cms.to_bytes())
    }

    /// Signs arbitrary content bytes as a protocol CMS under an identity key.
    pub fn sign_raw(&self, content: Bytes, id: usize) -> Result<Bytes, Fail> {
        let m = self.w.rt.signer().create_ta_signed_message(content, 1, &self.ids[id % self.ids.len()].key).map_err(h)?;
        Ok(m.to_captured().into_bytes())
    }

    //--- sending

    pub fn send6492(&self, to: &str, bytes: Bytes) -> Result<Result<Bytes, String>, Fail> {
        let ca = CaHandle::from_str(to).map_err(h)?;
        guarded(|| self.w.cam().rfc6492(&ca, bytes, Some("kvh".into()), &self.w.actor, &self.w.rt).map_err(|e| e.to_string())).map_err(|c| Fail::Crash(c.what))
    }

    pub fn send8181(&self, to: &str, bytes: Bytes) -> Result<Result<Bytes, String>, Fail> {
        let p = PublisherHandle::from_str(to).map_err(h)?;
        guarded(|| self.w.repo().rfc8181(p, bytes, &self.w.rt).map_err(|e| e.to_string())).map_err(|c| Fail::Crash(c.what))
    }

    pub fn update_child_id(&mut self, child: &str, id: usize) -> Result<(), Fail> {
        let id = id % self.ids.len();
        self.w.child_update(PARENT, child, UpdateChildRequest::id_cert(self.ids[id].cert.clone())).map_err(h)?;
        self.child_id.insert(child.to_string(), id);
        self.hit("child_identity_replaced");
        Ok(())
    }

    pub fn update_parent_id(&mut self) -> Result<(), Fail> {
        self.w.ca_update_id(PARENT).map_err(h)?;
        self.hit("server_identity_replaced");
        Ok(())
    }
}

fn collect_keys(v: &serde_json::Value, out: &mut Vec<String>) {
    match v {
        serde_json::Value::Object(m) => {
            for (k, x) in m {
                if k == "keys" || k == "key_id" || k == "key_identifier" {
                    out.push(x.to_string());
                }
                collect_keys(x, out);
            }
        }
        serde_json::Value::Array(a) => a.iter().for_each(|x| collect_keys(x, out)),
        _ => {}
    }
}

pub fn hex(b: &[u8]) -> String {
    b.iter().map(|x| format!("{x:02x}")).collect()
}

//------------ generated requests ---------------------------------------------

#[derive(Clone, Debug, Serialize, Deserialize, PartialEq)]
pub enum Pay6492 {
    List,
    /// key to certify, class name selector, base child for the CSR URIs, limit selector
    Issue { key: u8, class: u8, limit: u8 },
    Revoke { key: u8, class: u8 },
}

#[derive(Clone, Debug, Serialize, Deserialize, PartialEq)]
pub enum PubEl {
    Publish { owner: u8, name: u8, content: u8 },
    Update { owner: u8, name: u8, content: u8, right_hash: bool },
    Withdraw { owner: u8, name: u8, right_hash: bool },
}

#[derive(Clone, Debug, Serialize, Deserialize, PartialEq)]
pub enum Pay8181 {
    List,
    Delta(Vec<PubEl>),
}

pub const CLASSES: [&str; 3] = ["0", "1", "x"];

/// Children are different organisations: they do not share key pairs. A
/// certificate request can only be made for a key the requester owns (the
/// CSR proves possession); c1 owns CA keys 0 and 1, c2 owns 2 and 3.
/// Revocation requests name a key by its identifier only and may name any.
pub fn own_key(sender: &str, key: u8) -> usize {
    let base = if sender == CHILDREN[1] { 2 } else { 0 };
    base + (key as usize % 2)
}

pub fn owner_base(owner: u8) -> String {
    match owner % 4 {
        0 => "rsync://krill.example.org/repo/pub1/".into(),
        1 => "rsync://krill.example.org/repo/pub2/".into(),
        2 => "rsync://krill.example.org/repo/p/".into(),
        _ => "rsync://elsewhere.example.org/mod/".into(),
    }
}

pub fn el_uri(owner: u8, name: u8) -> uri::Rsync {
    uri::Rsync::from_str(&format!("{}f{}.roa", owner_base(owner), name % 4)).unwrap()
}

pub fn content(c: u8) -> Bytes {
    Bytes::from(format!("content-{c}").into_bytes())
}

impl SigWorld {
    pub fn msg6492(&self, sender: &str, recipient: &str, pay: &Pay6492) -> Result<provisioning::Message, Fail> {
        let s = rpki::ca::idexchange::SenderHandle::from_str(sender).map_err(h)?;
        let r = rpki::ca::idexchange::RecipientHandle::from_str(recipient).map_err(h)?;
        Ok(match pay {
            Pay6492::List => provisioning::Message::list(s, r),
            Pay6492::Issue { key, class, limit } => {
                let csr = self.csr(own_key(sender, *key), sender)?;
                let mut lim = RequestResourceLimit::new();
                match limit % 4 {
                    1 => lim.with_ipv4(ResourceSet::from_strs("", "10.0.0.0/16", "").map_err(h)?.ipv4().clone()),
                    2 => lim.with_ipv4(ResourceSet::from_strs("", "10.64.0.0/16, 10.200.0.0/16", "").map_err(h)?.ipv4().clone()),
                    _ => {}
                }
                provisioning::Message::issue(s, r, IssuanceRequest::new(ResourceClassName::from(CLASSES[*class as usize % 3]), lim, csr))
            }
            Pay6492::Revoke { key, class } => provisioning::Message::revoke(
                s,
                r,
                RevocationRequest::new(ResourceClassName::from(CLASSES[*class as usize % 3]), self.ca_keys[*key as usize % self.ca_keys.len()]),
            ),
        })
    }

    /// Builds the delta against the current files of `publisher` (for hashes).
    pub fn msg8181(&self, pay: &Pay8181) -> Result<publication::Message, Fail> {
        Ok(match pay {
            Pay8181::List => publication::Message::list_query(),
            Pay8181::Delta(els) => {
                let served = self.w.served().map_err(Fail::Harness)?;
                let mut delta = PublishDelta::empty();
                for el in els {
                    match el {
                        PubEl::Publish { owner, name, content: c } => delta.add_publish(Publish::new(None, el_uri(*owner, *name), Base64::from_content(content(*c).as_ref()))),
                        PubEl::Update { owner, name, content: c, right_hash } => {
                            let u = el_uri(*owner, *name);
                            let hash = match (served.get(&u.to_string()), right_hash) {
                                (Some(b), true) => Base64::from_content(b.as_ref()).to_hash(),
                                _ => Base64::from_content(b"nothing").to_hash(),
                            };
                            delta.add_update(Update::new(None, u, Base64::from_content(content(*c).as_ref()), hash))
                        }
                        PubEl::Withdraw { owner, name, right_hash } => {
                            let u = el_uri(*owner, *name);
                            let hash = match (served.get(&u.to_string()), right_hash) {
                                (Some(b), true) => Base64::from_content(b.as_ref()).to_hash(),
                                _ => Base64::from_content(b"nothing").to_hash(),
                            };
                            delta.add_withdraw(Withdraw::new(None, u, hash))
                        }
                    }
                }
                publication::Message::delta(delta)
            }
        })
    }
}

/// Decodes and validates a reply under the server side's identity key.
pub fn reply6492(bytes: &Bytes, key: &PublicKey) -> Result<provisioning::Message, Bad> {
    let cms = ProvisioningCms::decode(bytes.as_ref()).map_err(|e| bad("c12-reply", "undecodable", format!("reply does not decode: {e}")))?;
    cms.validate(key).map_err(|e| bad("c12-reply", "not-signed-by-current-identity", format!("reply does not validate under the server's current identity key: {e}")))?;
    Ok(cms.into_message())
}

pub fn reply8181(bytes: &Bytes, key: &PublicKey) -> Result<publication::Message, Bad> {
    let cms = PublicationCms::decode(bytes.as_ref()).map_err(|e| bad("c12-reply", "undecodable", format!("reply does not decode: {e}")))?;
    cms.validate(key).map_err(|e| bad("c12-reply", "not-signed-by-current-identity", format!("publication reply does not validate under the server's current identity key: {e}")))?;
    Ok(cms.into_message())
}

/// Seed inputs for the coverage-guided target `fuzz/fuzz_targets/signed_xml.rs`:
/// selector byte (bit 0 sender, bit 1 publication, bit 2 wrong key, bit 3 unsigned)
/// followed by the XML content of a message the world itself would send.
pub fn fuzz_seeds() -> Result<Vec<Vec<u8>>, Fail> {
    let sw = SigWorld::new(WorldCfg::default(), 0)?;
    let mut out = Vec::new();
    for (i, c) in CHILDREN.iter().enumerate() {
        for pay in [
            Pay6492::List,
            Pay6492::Issue { key: 0, class: 0, limit: 0 },
            Pay6492::Issue { key: 1, class: 0, limit: 1 },
            Pay6492::Issue { key: 0, class: 2, limit: 2 },
            Pay6492::Revoke { key: 0, class: 0 },
            Pay6492::Revoke { key: 3, class: 1 },
        ] {
            let xml = sw.msg6492(c, PARENT, &pay)?.to_xml_string();
            let mut v = vec![i as u8];
            v.extend_from_slice(xml.as_bytes());
            out.push(v);
        }
    }
    for (i, _p) in PUBLISHERS.iter().enumerate() {
        for pay in [
            Pay8181::List,
            Pay8181::Delta(vec![PubEl::Publish { owner: i as u8, name: 0, content: 1 }]),
            Pay8181::Delta(vec![PubEl::Publish { owner: i as u8, name: 1, content: 2 }, PubEl::Update { owner: i as u8, name: 0, content: 3, right_hash: false }, PubEl::Withdraw { owner: 1 - i as u8, name: 0, right_hash: false }]),
        ] {
            let xml = sw.msg8181(&pay)?.to_xml_bytes();
            let mut v = vec![2 | i as u8];
            v.extend_from_slice(xml.as_ref());
            out.push(v);
        }
    }
    Ok(out)
}
