//! A simulated RRDP / rsync client reading the files krill writes to disk.
use std::collections::BTreeMap;
use std::path::{Path, PathBuf};

use bytes::Bytes;
use rpki::rrdp::{Delta, DeltaElement, NotificationFile, Snapshot};

pub const RRDP_BASE: &str = "https://krill.example.org/rrdp/";
pub const RSYNC_BASE: &str = "rsync://krill.example.org/repo/";

#[derive(Clone, Debug)]
pub struct Notif {
    pub session: String,
    pub serial: u64,
    pub snapshot: (PathBuf, String),
    pub snapshot_hash_ok: bool,
    /// (serial, path, hash matches) sorted by serial ascending
    pub deltas: Vec<(u64, PathBuf)>,
}

fn local_path(repo_dir: &Path, uri: &str) -> Option<PathBuf> {
    uri.strip_prefix(RRDP_BASE).map(|rel| repo_dir.join("rrdp").join(rel))
}

pub fn notification_path(repo_dir: &Path) -> PathBuf {
    repo_dir.join("rrdp").join("notification.xml")
}

/// Reads and checks the notification file: snapshot and deltas exist with the
/// stated hashes.
pub fn read_notification(repo_dir: &Path) -> Result<Notif, String> {
    let path = notification_path(repo_dir);
    let bytes = std::fs::read(&path).map_err(|e| format!("cannot read {}: {e}", path.display()))?;
    let nf = NotificationFile::parse(bytes.as_slice()).map_err(|e| {
        let text = String::from_utf8_lossy(&bytes);
        format!("notification does not parse: {e}; {} bytes; head: {:?}; tail: {:?}", bytes.len(), text.chars().take(200).collect::<String>(), text.chars().rev().take(120).collect::<String>().chars().rev().collect::<String>())
    })?;
    let snap_uri = nf.snapshot().uri().to_string();
    let snap_path = local_path(repo_dir, &snap_uri).ok_or_else(|| format!("snapshot uri {snap_uri} outside base"))?;
    let snap_bytes =
        std::fs::read(&snap_path).map_err(|e| format!("snapshot {} named by notification missing: {e}", snap_path.display()))?;
    if !nf.snapshot().hash().matches(&snap_bytes) {
        return Err(format!("snapshot {} does not match the hash in the notification", snap_path.display()));
    }
    let mut deltas = Vec::new();
    for d in nf.deltas() {
        let u = d.uri().to_string();
        let p = local_path(repo_dir, &u).ok_or_else(|| format!("delta uri {u} outside base"))?;
        let b = std::fs::read(&p).map_err(|e| format!("delta {} (serial {}) named by notification missing: {e}", p.display(), d.serial()))?;
        if !d.hash().matches(&b) {
            return Err(format!("delta {} does not match the hash in the notification", p.display()));
        }
        deltas.push((d.serial(), p));
    }
    deltas.sort();
    Ok(Notif {
        session: nf.session_id().to_string(),
        serial: nf.serial(),
        snapshot: (snap_path, snap_uri),
        snapshot_hash_ok: true,
        deltas,
    })
}

pub fn read_snapshot(path: &Path) -> Result<(String, u64, BTreeMap<String, Bytes>), String> {
    let bytes = std::fs::read(path).map_err(|e| format!("cannot read {}: {e}", path.display()))?;
    let snap = Snapshot::parse(bytes.as_slice()).map_err(|e| format!("snapshot does not parse: {e}"))?;
    let session = snap.session_id().to_string();
    let serial = snap.serial();
    let mut map = BTreeMap::new();
    for el in snap.into_elements() {
        let (uri, data) = el.unpack();
        if map.insert(uri.to_string(), data).is_some() {
            return Err(format!("snapshot lists {uri} twice"));
        }
    }
    Ok((session, serial, map))
}

pub fn read_delta(path: &Path) -> Result<(String, u64, Vec<DeltaElement>), String> {
    let bytes = std::fs::read(path).map_err(|e| format!("cannot read {}: {e}", path.display()))?;
    let delta = Delta::parse(bytes.as_slice()).map_err(|e| format!("delta does not parse: {e}"))?;
    Ok((delta.session_id().to_string(), delta.serial(), delta.into_elements()))
}

/// Applies a delta strictly (RFC 8182): publish needs absence, update and
/// withdraw need the stated hash.
pub fn apply_delta(state: &mut BTreeMap<String, Bytes>, els: Vec<DeltaElement>) -> Result<(), String> {
    for el in els {
        match el {
            DeltaElement::Publish(p) => {
                let (uri, data) = p.unpack();
                if state.insert(uri.to_string(), data).is_some() {
                    return Err(format!("delta publishes {uri} which is already present"));
                }
            }
            DeltaElement::Update(u) => {
                let (uri, hash, data) = u.unpack();
                match state.get(uri.as_str()) {
                    Some(old) if hash.matches(old) => {
                        state.insert(uri.to_string(), data);
                    }
                    Some(_) => return Err(format!("delta updates {uri} with a hash that does not match")),
                    None => return Err(format!("delta updates {uri} which is absent")),
                }
            }
            DeltaElement::Withdraw(w) => {
                let (uri, hash) = w.unpack();
                match state.get(uri.as_str()) {
                    Some(old) if hash.matches(old) => {
                        state.remove(uri.as_str());
                    }
                    Some(_) => return Err(format!("delta withdraws {uri} with a hash that does not match")),
                    None => return Err(format!("delta withdraws {uri} which is absent")),
                }
            }
        }
    }
    Ok(())
}

fn walk(dir: &Path, rel: &str, out: &mut BTreeMap<String, Bytes>) -> Result<(), String> {
    let rd = std::fs::read_dir(dir).map_err(|e| format!("cannot read dir {}: {e}", dir.display()))?;
    for e in rd {
        let e = e.map_err(|e| e.to_string())?;
        let name = e.file_name().to_string_lossy().to_string();
        let p = e.path();
        let r = if rel.is_empty() { name.clone() } else { format!("{rel}/{name}") };
        if p.is_dir() {
            walk(&p, &r, out)?;
        } else {
            let b = std::fs::read(&p).map_err(|e| e.to_string())?;
            out.insert(format!("{RSYNC_BASE}{r}"), Bytes::from(b));
        }
    }
    Ok(())
}

/// The rsync tree (repo_dir/rsync/current) as uri -> bytes.
pub fn read_rsync_current(repo_dir: &Path) -> Result<BTreeMap<String, Bytes>, String> {
    let cur = repo_dir.join("rsync").join("current");
    let mut out = BTreeMap::new();
    if cur.exists() {
        walk(&cur, "", &mut out)?;
    }
    Ok(out)
}

pub fn diff_maps(a_name: &str, a: &BTreeMap<String, Bytes>, b_name: &str, b: &BTreeMap<String, Bytes>) -> Option<String> {
    for (k, v) in a {
        match b.get(k) {
            None => return Some(format!("{k} in {a_name} but not in {b_name}")),
            Some(v2) if v2 != v => return Some(format!("{k} differs between {a_name} and {b_name}")),
            _ => {}
        }
    }
    for k in b.keys() {
        if !a.contains_key(k) {
            return Some(format!("{k} in {b_name} but not in {a_name}"));
        }
    }
    None
}
