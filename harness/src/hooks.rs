//! The process-global handler for krill's verification hooks.
use std::io;
use std::path::{Path, PathBuf};
use std::sync::atomic::{AtomicBool, AtomicU64, AtomicUsize, Ordering};
use std::sync::{Arc, Mutex, OnceLock};

use krill::commons::verif;

#[derive(Clone, Copy, Debug, PartialEq, Eq)]
pub enum FaultMode {
    Off,
    /// Only count and log the points.
    Count,
    /// Point number n (1-based) fails once; everything else succeeds.
    FailAt(usize),
    /// Point number n and every later point fails (a dead process mutates
    /// nothing any more).
    CrashAt(usize),
}

#[derive(Clone, Debug)]
pub struct PointRec {
    pub kind: &'static str, // "kv" | "fs"
    pub op: &'static str,
    pub path: PathBuf,
    /// the mutation happened while an aggregate command was between
    /// "processing starts" and "stored / given up" (pre-save listeners run
    /// and the command file is written in that span)
    pub in_cmd: bool,
}

pub struct ExitPayload {
    pub site: &'static str,
}

pub struct H {
    keys: Vec<Vec<u8>>,
    key_next: AtomicUsize,
    key_used: AtomicUsize,
    key_limit: AtomicUsize,
    pub fault: Mutex<FaultState>,
    pub exits: Mutex<Vec<String>>,
    pub yield_seed: AtomicU64,
    pub yield_on: AtomicBool,
    pub yield_count: AtomicU64,
    pub in_command: AtomicBool,
    pub cmd_depth: AtomicUsize,
}

pub struct FaultState {
    pub mode: FaultMode,
    pub counter: usize,
    pub log: Vec<PointRec>,
    pub fired: bool,
    /// only points whose path starts with this prefix count
    pub scope: Option<PathBuf>,
}

static HANDLER: OnceLock<Arc<H>> = OnceLock::new();

pub fn h() -> &'static Arc<H> {
    HANDLER.get().expect("hooks not installed")
}

pub fn install(key_file: Option<&Path>) {
    let mut keys = Vec::new();
    if let Some(f) = key_file {
        if let Ok(data) = std::fs::read(f) {
            // file is a concatenation of PEM blocks
            let text = String::from_utf8_lossy(&data);
            let mut cur = String::new();
            for line in text.lines() {
                cur.push_str(line);
                cur.push('\n');
                if line.starts_with("-----END") {
                    keys.push(std::mem::take(&mut cur).into_bytes());
                }
            }
        }
    }
    let h = Arc::new(H {
        keys,
        key_next: AtomicUsize::new(0),
        key_used: AtomicUsize::new(0),
        key_limit: AtomicUsize::new(0),
        fault: Mutex::new(FaultState {
            mode: FaultMode::Off,
            counter: 0,
            log: Vec::new(),
            fired: false,
            scope: None,
        }),
        exits: Mutex::new(Vec::new()),
        yield_seed: AtomicU64::new(0),
        yield_on: AtomicBool::new(false),
        yield_count: AtomicU64::new(0),
        in_command: AtomicBool::new(false),
        cmd_depth: AtomicUsize::new(0),
    });
    let _ = HANDLER.set(h.clone());
    verif::install(Some(h));
}

impl H {
    pub fn pool_size(&self) -> usize {
        self.keys.len()
    }

    /// Start handing out keys for a new world: each key at most once per
    /// world, starting at a case-dependent position.
    pub fn new_world_keys(&self, start: usize) {
        let n = self.keys.len().max(1);
        self.key_next.store(start % n, Ordering::SeqCst);
        self.key_used.store(0, Ordering::SeqCst);
        self.key_limit.store(self.keys.len(), Ordering::SeqCst);
    }

    pub fn keys_used(&self) -> usize {
        self.key_used.load(Ordering::SeqCst)
    }

    pub fn set_fault(&self, mode: FaultMode, scope: Option<PathBuf>) {
        let mut f = self.fault.lock().unwrap_or_else(|e| e.into_inner());
        f.mode = mode;
        f.counter = 0;
        f.log.clear();
        f.fired = false;
        f.scope = scope;
        self.cmd_depth.store(0, Ordering::Relaxed);
        self.in_command.store(false, Ordering::Relaxed);
    }

    pub fn fault_off(&self) -> (usize, Vec<PointRec>, bool) {
        let mut f = self.fault.lock().unwrap_or_else(|e| e.into_inner());
        f.mode = FaultMode::Off;
        (f.counter, std::mem::take(&mut f.log), f.fired)
    }

    fn point(&self, kind: &'static str, op: &'static str, path: &Path) -> Result<(), io::Error> {
        let mut f = self.fault.lock().unwrap_or_else(|e| e.into_inner());
        if f.mode == FaultMode::Off {
            return Ok(());
        }
        if let Some(scope) = f.scope.as_ref() {
            if !path.starts_with(scope) {
                return Ok(());
            }
        }
        f.counter += 1;
        let n = f.counter;
        if f.log.len() < 100_000 {
            f.log.push(PointRec { kind, op, path: path.to_path_buf(), in_cmd: self.in_command.load(Ordering::Relaxed) });
        }
        let fail = match f.mode {
            FaultMode::Off | FaultMode::Count => false,
            FaultMode::FailAt(k) => n == k,
            FaultMode::CrashAt(k) => n >= k,
        };
        if fail {
            f.fired = true;
            Err(io::Error::other(format!("injected fault at point {n} ({kind}:{op})")))
        } else {
            Ok(())
        }
    }

    pub fn fault_fired(&self) -> bool {
        self.fault.lock().unwrap_or_else(|e| e.into_inner()).fired
    }

    pub fn take_exits(&self) -> Vec<String> {
        std::mem::take(&mut *self.exits.lock().unwrap_or_else(|e| e.into_inner()))
    }

    pub fn set_yield(&self, seed: Option<u64>) {
        match seed {
            Some(s) => {
                self.yield_seed.store(s | 1, Ordering::SeqCst);
                self.yield_on.store(true, Ordering::SeqCst);
            }
            None => self.yield_on.store(false, Ordering::SeqCst),
        }
    }
}

impl verif::Handler for H {
    fn kv_point(&self, op: &'static str, path: &Path) -> Result<(), io::Error> {
        self.point("kv", op, path)
    }

    fn fs_point(&self, site: &'static str, path: &Path) -> Result<(), io::Error> {
        self.point("fs", site, path)
    }

    fn yield_point(&self, site: &'static str) {
        // (pre-save listeners read other aggregates - the signer mapping, for
        // one - so a nested "cache-get" does not end the span)
        // and may send commands to them - a new key is registered with the
        // signer mapping - so the span is counted in and out)
        match site {
            "agg-before-process" => {
                self.cmd_depth.fetch_add(1, Ordering::Relaxed);
                self.in_command.store(true, Ordering::Relaxed);
            }
            // (the end of a command, also of one without effect or one whose pre-save listener failed;
            // "agg-before-cache-update" is only passed when the cached copy changed)
            "agg-command-end" => {
                let d = self.cmd_depth.load(Ordering::Relaxed).saturating_sub(1);
                self.cmd_depth.store(d, Ordering::Relaxed);
                self.in_command.store(d > 0, Ordering::Relaxed);
            }
            _ => {}
        }
        if !self.yield_on.load(Ordering::Relaxed) {
            return;
        }
        let n = self.yield_count.fetch_add(1, Ordering::Relaxed);
        // xorshift on (seed, n, thread id, site)
        let tid = {
            use std::hash::{Hash, Hasher};
            let mut h = std::collections::hash_map::DefaultHasher::new();
            std::thread::current().id().hash(&mut h);
            site.hash(&mut h);
            h.finish()
        };
        let mut x = self.yield_seed.load(Ordering::Relaxed) ^ n.wrapping_mul(0x9E3779B97F4A7C15) ^ tid;
        x ^= x << 13;
        x ^= x >> 7;
        x ^= x << 17;
        match x % 16 {
            0..=7 => {}
            8..=11 => std::thread::yield_now(),
            12..=14 => std::thread::sleep(std::time::Duration::from_micros(20 + (x >> 8) % 200)),
            _ => std::thread::sleep(std::time::Duration::from_micros(200 + (x >> 8) % 1500)),
        }
    }

    fn exit_point(&self, site: &'static str, _code: i32) {
        self.exits.lock().unwrap_or_else(|e| e.into_inner()).push(site.to_string());
        std::panic::panic_any(ExitPayload { site });
    }

    fn pool_key(&self) -> Option<Vec<u8>> {
        if self.keys.is_empty() {
            return None;
        }
        let used = self.key_used.fetch_add(1, Ordering::SeqCst);
        if used >= self.key_limit.load(Ordering::SeqCst) {
            return None;
        }
        let i = self.key_next.fetch_add(1, Ordering::SeqCst) % self.keys.len();
        Some(self.keys[i].clone())
    }
}
