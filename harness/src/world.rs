//! Engine W: an in-process krill "world" (publication server, embedded trust
//! anchor, a hierarchy of CAs) driven through the public manager API, with a
//! deterministic pump for background tasks.
use std::collections::BTreeMap;
use std::panic::{catch_unwind, AssertUnwindSafe};
use std::path::{Path, PathBuf};
use std::str::FromStr;
use std::sync::atomic::{AtomicU64, Ordering};

use krill::api;
use krill::api::admin::{AddChildRequest, ParentCaReq, RepositoryContact, UpdateChildRequest};
use krill::api::ca::Timestamp;
use krill::commons::actor::Actor;
use krill::commons::error::Error as KrillError;
use krill::commons::storage::{Ident, StorageSystem, StorageUri};
use krill::config::Config;
use krill::constants::TASK_QUEUE_NS;
use krill::server::mq::{Task, TaskResult};
use krill::server::runtime::{KrillRuntime, SlowKrillRuntime};
use krill::server::scheduler::verif_process_task;
use rpki::ca::idexchange::{CaHandle, ChildHandle, ParentHandle, PublisherHandle, PublisherRequest};
use rpki::repository::resources::ResourceSet;
use rpki::uri;
use serde::{Deserialize, Serialize};

use crate::clock;
use crate::hooks;

pub const TA: &str = "ta";

//------------ WorldCfg ------------------------------------------------------

#[derive(Clone, Debug, Serialize, Deserialize, PartialEq)]
pub struct WorldCfg {
    pub disk: bool,
    pub history_cache: bool,
    pub agg: usize,
    pub deagg: usize,
    pub publish_next_hours: u32,
    pub publish_jitter_hours: u32,
    pub publish_before_hours: u32,
    pub child_valid_weeks: u32,
    pub child_reissue_weeks: u32,
    pub roa_valid_weeks: u32,
    pub roa_reissue_weeks: u32,
    pub aspa_valid_weeks: u32,
    pub aspa_reissue_weeks: u32,
    pub bgpsec_valid_weeks: u32,
    pub bgpsec_reissue_weeks: u32,
    pub rrdp_min_nr: usize,
    pub rrdp_max_nr: usize,
    pub rrdp_min_secs: u32,
    pub rrdp_max_secs: u32,
    pub rrdp_interval_secs: u32,
    pub rrdp_archive: bool,
    pub ta_mft_weeks: i64,
    pub ta_issued_valid_weeks: i64,
    pub ta_issued_reissue_weeks: i64,
    pub ta_msg_valid_days: i64,
    pub num_threads: usize,
    /// run the TA proxy only; the signer is a separate installation
    #[serde(default)]
    pub remote_signer: bool,
    /// `suspend_child_after_inactive_hours` (krill's minimum is 48)
    #[serde(default)]
    pub suspend_hours: Option<u32>,
}

impl Default for WorldCfg {
    fn default() -> Self {
        WorldCfg {
            disk: false,
            history_cache: true,
            agg: 100,
            deagg: 90,
            publish_next_hours: 24,
            publish_jitter_hours: 4,
            publish_before_hours: 8,
            child_valid_weeks: 52,
            child_reissue_weeks: 4,
            roa_valid_weeks: 52,
            roa_reissue_weeks: 4,
            aspa_valid_weeks: 52,
            aspa_reissue_weeks: 4,
            bgpsec_valid_weeks: 52,
            bgpsec_reissue_weeks: 4,
            rrdp_min_nr: 5,
            rrdp_max_nr: 50,
            rrdp_min_secs: 1200,
            rrdp_max_secs: 7200,
            rrdp_interval_secs: 0,
            rrdp_archive: false,
            ta_mft_weeks: 12,
            ta_issued_valid_weeks: 52,
            ta_issued_reissue_weeks: 26,
            ta_msg_valid_days: 14,
            num_threads: 2,
            remote_signer: false,
            suspend_hours: None,
        }
    }
}

static WORLD_NR: AtomicU64 = AtomicU64::new(0);

pub fn scratch_root() -> PathBuf {
    PathBuf::from(format!("/dev/shm/kvh-{}", std::process::id()))
}

impl WorldCfg {
    pub fn toml(&self, dir: &Path, mem_seed: u64, extra: &str) -> String {
        let storage = if self.disk {
            format!("{}/data/", dir.display())
        } else {
            format!("memory:{mem_seed}")
        };
        format!(
            r#"
storage_uri = "{storage}"
repo_dir = "{dir}/repo"
tls_keys_dir = "{dir}/ssl"
pid_file = "{dir}/krill.pid"
service_uri = "https://krill.example.org/"
log_type = "stderr"
log_level = "{log_level}"
admin_token = "verif-admin-token"
use_history_cache = {history_cache}
ta_support_enabled = true
ta_signer_enabled = {ta_signer}
bgp_riswhois_enabled = false
unix_socket_enabled = false
num_threads = {num_threads}
roa_aggregate_threshold = {agg}
roa_deaggregate_threshold = {deagg}
timing_publish_next_hours = {pn}
timing_publish_next_jitter_hours = {pj}
timing_publish_hours_before_next = {pb}
timing_child_certificate_valid_weeks = {cv}
timing_child_certificate_reissue_weeks_before = {cr}
timing_roa_valid_weeks = {rv}
timing_roa_reissue_weeks_before = {rr}
timing_aspa_valid_weeks = {av}
timing_aspa_reissue_weeks_before = {ar}
timing_bgpsec_valid_weeks = {bv}
timing_bgpsec_reissue_weeks_before = {br}
rrdp_delta_files_min_nr = {dmin}
rrdp_delta_files_max_nr = {dmax}
rrdp_delta_files_min_seconds = {dmins}
rrdp_delta_files_max_seconds = {dmaxs}
rrdp_delta_interval_min_seconds = {dint}
rrdp_files_archive = {darch}
{suspend}
{extra}
[ta_timing]
mft_next_update_weeks = {tam}
issued_certificate_validity_weeks = {tav}
issued_certificate_reissue_weeks_before = {tar}
signed_message_validity_days = {tad}
"#,
            dir = dir.display(),
            log_level = std::env::var("KVH_LOG").unwrap_or("off".into()),
            history_cache = self.history_cache,
            ta_signer = !self.remote_signer,
            suspend = self.suspend_hours.map(|h| format!("suspend_child_after_inactive_hours = {h}")).unwrap_or_default(),
            num_threads = self.num_threads,
            agg = self.agg,
            deagg = self.deagg,
            pn = self.publish_next_hours,
            pj = self.publish_jitter_hours,
            pb = self.publish_before_hours,
            cv = self.child_valid_weeks,
            cr = self.child_reissue_weeks,
            rv = self.roa_valid_weeks,
            rr = self.roa_reissue_weeks,
            av = self.aspa_valid_weeks,
            ar = self.aspa_reissue_weeks,
            bv = self.bgpsec_valid_weeks,
            br = self.bgpsec_reissue_weeks,
            dmin = self.rrdp_min_nr,
            dmax = self.rrdp_max_nr,
            dmins = self.rrdp_min_secs,
            dmaxs = self.rrdp_max_secs,
            dint = self.rrdp_interval_secs,
            darch = self.rrdp_archive,
            tam = self.ta_mft_weeks,
            tav = self.ta_issued_valid_weeks,
            tar = self.ta_issued_reissue_weeks,
            tad = self.ta_msg_valid_days,
        )
    }

    /// Builds a krill Config through krill's own parser and validation.
    pub fn config(&self, dir: &Path, mem_seed: u64, extra: &str) -> Result<Config, String> {
        let text = self.toml(dir, mem_seed, extra);
        let mut cfg: Config = toml::from_str(&text).map_err(|e| format!("toml: {e}"))?;
        cfg.process().map_err(|e| format!("process: {e}"))?;
        Ok(cfg)
    }
}

//------------ tokio ---------------------------------------------------------

pub fn tokio_handle() -> tokio::runtime::Handle {
    use std::sync::OnceLock;
    static RT: OnceLock<tokio::runtime::Runtime> = OnceLock::new();
    RT.get_or_init(|| {
        tokio::runtime::Builder::new_multi_thread()
            .worker_threads(2)
            .enable_all()
            .build()
            .unwrap()
    })
    .handle()
    .clone()
}

//------------ World ---------------------------------------------------------

pub struct World {
    pub cfg: WorldCfg,
    pub dir: PathBuf,
    pub mem_seed: u64,
    pub rt: KrillRuntime,
    pub slow: SlowKrillRuntime,
    pub actor: Actor,
    pub started: Timestamp,
    /// names of tasks processed (most recent last), bounded
    pub task_trace: Vec<String>,
    /// tasks to hold back in the pump (by type tag), used to delay the signer
    pub hold_types: Vec<String>,
    pub pump_steps: u64,
    keep_dir: bool,
}

/// A task between `pump_claim` and `pump_finish`.
pub struct Claimed {
    pub key: Box<krill::commons::storage::Ident>,
    pub name: String,
    task: Option<Task>,
    res: Option<Result<TaskResult, String>>,
    held: bool,
}

#[derive(Debug)]
pub struct Crash {
    pub what: String,
    pub exit_sites: Vec<String>,
}

pub type OpRes = Result<(), String>;

fn panic_msg(e: Box<dyn std::any::Any + Send>) -> String {
    if let Some(p) = e.downcast_ref::<hooks::ExitPayload>() {
        format!("EXIT at {}", p.site)
    } else if let Some(s) = e.downcast_ref::<String>() {
        format!("PANIC: {s}")
    } else if let Some(s) = e.downcast_ref::<&str>() {
        format!("PANIC: {s}")
    } else {
        "PANIC: <non-string payload>".to_string()
    }
}

static LAST_PANIC_LOC: std::sync::Mutex<Option<String>> = std::sync::Mutex::new(None);
/// Number of panics raised in this process so far (any thread).
pub static PANIC_COUNT: std::sync::atomic::AtomicU64 = std::sync::atomic::AtomicU64::new(0);

/// Called from the panic hook: remembers where the last panic was raised
/// (crate-relative path and line), the stable part of a panic's identity.
pub fn note_panic_location(loc: Option<String>) {
    PANIC_COUNT.fetch_add(1, Ordering::SeqCst);
    let loc = loc.map(|l| match l.find("/rpki-") {
        Some(i) if l.contains(".cargo/registry") => l[i + 1..].to_string(),
        _ => match l.find(".cargo/registry/src/") {
            Some(i) => l[i..].splitn(5, '/').last().unwrap_or(&l).to_string(),
            None => l.trim_start_matches("/repo/").to_string(),
        },
    });
    *LAST_PANIC_LOC.lock().unwrap_or_else(|e| e.into_inner()) = loc;
}

pub fn last_panic_location() -> Option<String> {
    LAST_PANIC_LOC.lock().unwrap_or_else(|e| e.into_inner()).clone()
}

/// Runs a closure catching panics and would-be exits.
pub fn guarded<T>(f: impl FnOnce() -> T) -> Result<T, Crash> {
    match catch_unwind(AssertUnwindSafe(f)) {
        Ok(t) => Ok(t),
        Err(e) => Err(Crash { what: panic_msg(e), exit_sites: hooks::h().take_exits() }),
    }
}

impl World {
    pub fn new(cfg: WorldCfg, key_start: usize) -> Result<Self, String> {
        let nr = WORLD_NR.fetch_add(1, Ordering::SeqCst);
        let dir = scratch_root().join(format!("w{nr}"));
        let _ = std::fs::remove_dir_all(&dir);
        std::fs::create_dir_all(&dir).map_err(|e| e.to_string())?;
        hooks::h().new_world_keys(key_start);
        let mem_seed = (std::process::id() as u64) << 20 | nr;
        Self::open(cfg, dir, mem_seed)
    }

    /// Opens (or re-opens) a world over an existing directory.
    pub fn open(cfg: WorldCfg, dir: PathBuf, mem_seed: u64) -> Result<Self, String> {
        let config = cfg.config(&dir, mem_seed, "")?;
        if std::env::var("KVH_LOG").is_ok() {
            static ONCE: std::sync::Once = std::sync::Once::new();
            let c2 = config.clone();
            ONCE.call_once(move || {
                let _ = c2.init_logging();
            });
        }
        let storage = StorageSystem::new(config.storage_uri.clone());
        let rt = KrillRuntime::new(config, storage, tokio_handle()).map_err(|e| format!("runtime: {e}"))?;
        let slow = SlowKrillRuntime::new(rt.clone());
        let actor = Actor::user("verif");
        Ok(World {
            cfg,
            dir,
            mem_seed,
            rt,
            slow,
            actor,
            started: Timestamp::now(),
            task_trace: Vec::new(),
            hold_types: Vec::new(),
            pump_steps: 0,
            keep_dir: false,
        })
    }

    /// Drops the runtime and opens a new one over the same storage (disk only).
    pub fn restart(self) -> Result<Self, String> {
        assert!(self.cfg.disk, "restart needs disk storage");
        let mut this = self;
        this.keep_dir = true;
        let cfg = this.cfg.clone();
        let dir = this.dir.clone();
        let mem_seed = this.mem_seed;
        drop(this);
        Self::open(cfg, dir, mem_seed)
    }

    pub fn keep_dir(&mut self) {
        self.keep_dir = true;
    }

    pub fn data_dir(&self) -> PathBuf {
        self.dir.join("data")
    }

    pub fn repo_dir(&self) -> PathBuf {
        self.dir.join("repo")
    }

    pub fn cam(&self) -> &krill::server::ca::CaManager {
        self.rt.ca_manager()
    }

    pub fn repo(&self) -> &krill::server::pubd::RepositoryManager {
        self.rt.repo_manager()
    }

    //--- set-up

    pub fn init_repo_and_ta(&self) -> OpRes {
        let uris = api::admin::PublicationServerUris {
            rrdp_base_uri: uri::Https::from_str("https://krill.example.org/rrdp/").unwrap(),
            rsync_jail: uri::Rsync::from_str("rsync://krill.example.org/repo/").unwrap(),
        };
        self.repo().init(uris, &self.rt).map_err(|e| format!("repo init: {e}"))?;
        self.cam()
            .ta_init_fully_embedded(
                uri::Rsync::from_str("rsync://krill.example.org/ta/ta.cer").unwrap(),
                vec![uri::Https::from_str("https://krill.example.org/ta/ta.cer").unwrap()],
                None,
                &self.actor,
                &self.slow,
            )
            .map_err(|e| format!("ta init: {e}"))?;
        Ok(())
    }

    /// Creates a CA with a publisher at the local repository.
    pub fn add_ca(&self, name: &str) -> OpRes {
        let handle = CaHandle::from_str(name).map_err(|e| e.to_string())?;
        self.cam().init_ca(handle.clone(), &self.rt).map_err(|e| format!("init_ca: {e}"))?;
        self.connect_repo(name)
    }

    pub fn connect_repo(&self, name: &str) -> OpRes {
        let handle = CaHandle::from_str(name).map_err(|e| e.to_string())?;
        let ca = self.cam().get_ca(&handle).map_err(|e| e.to_string())?;
        let pub_req = PublisherRequest::new(ca.id_cert().base64.clone(), handle.convert(), None);
        self.repo().create_publisher(pub_req, &self.actor).map_err(|e| format!("create_publisher: {e}"))?;
        let resp = self
            .repo()
            .repository_response(&handle.convert(), &self.rt)
            .map_err(|e| format!("repository_response: {e}"))?;
        let contact = RepositoryContact::try_from_response(resp).map_err(|e| format!("contact: {e}"))?;
        self.cam()
            .update_repo(handle, contact, false, &self.actor, &self.slow)
            .map_err(|e| format!("update_repo: {e}"))?;
        Ok(())
    }

    /// Adds `child` under `parent` (parent may be "ta") with the entitlement
    /// and registers the parent at the child. Does not sync.
    pub fn attach(&self, child: &str, parent: &str, resources: &ResourceSet) -> OpRes {
        self.parent_add_child(child, parent, resources)?;
        self.child_add_parent(child, parent)
    }

    pub fn parent_add_child(&self, child: &str, parent: &str, resources: &ResourceSet) -> OpRes {
        let child_h = CaHandle::from_str(child).map_err(|e| e.to_string())?;
        let parent_h = CaHandle::from_str(parent).map_err(|e| e.to_string())?;
        let ca = self.cam().get_ca(&child_h).map_err(|e| e.to_string())?;
        let id_cert = ca.child_request().validate().map_err(|e| format!("child req: {e}"))?;
        let req = AddChildRequest { handle: child_h.convert(), resources: resources.clone(), id_cert };
        self.cam().ca_add_child(&parent_h, req, &self.actor, &self.rt).map_err(|e| e.to_string())?;
        Ok(())
    }

    pub fn child_add_parent(&self, child: &str, parent: &str) -> OpRes {
        let child_h = CaHandle::from_str(child).map_err(|e| e.to_string())?;
        let parent_h = CaHandle::from_str(parent).map_err(|e| e.to_string())?;
        let response = self
            .cam()
            .ca_parent_response(&parent_h, child_h.convert(), self.rt.service_uri())
            .map_err(|e| e.to_string())?;
        let req = ParentCaReq { handle: parent_h.convert(), response };
        self.cam()
            .ca_parent_add_or_update(child_h, req, &self.actor, &self.rt)
            .map_err(|e| e.to_string())?;
        Ok(())
    }

    pub fn child_update(&self, parent: &str, child: &str, req: UpdateChildRequest) -> OpRes {
        let parent_h = CaHandle::from_str(parent).map_err(|e| e.to_string())?;
        let child_h = ChildHandle::from_str(child).map_err(|e| e.to_string())?;
        self.cam().ca_child_update(&parent_h, child_h, req, &self.actor, &self.rt).map_err(|e| e.to_string())
    }

    /// the parent registers the identity certificate the child uses now
    pub fn child_id_sync(&self, parent: &str, child: &str) -> OpRes {
        let child_h = CaHandle::from_str(child).map_err(|e| e.to_string())?;
        let ca = self.cam().get_ca(&child_h).map_err(|e| e.to_string())?;
        let id_cert = ca.child_request().validate().map_err(|e| format!("child req: {e}"))?;
        self.child_update(parent, child, UpdateChildRequest::id_cert(id_cert))
    }

    pub fn child_remove(&self, parent: &str, child: &str) -> OpRes {
        let parent_h = CaHandle::from_str(parent).map_err(|e| e.to_string())?;
        let child_h = ChildHandle::from_str(child).map_err(|e| e.to_string())?;
        self.cam().ca_child_remove(&parent_h, child_h, &self.actor, &self.rt).map_err(|e| e.to_string())
    }

    pub fn parent_remove(&self, ca: &str, parent: &str) -> OpRes {
        let ca_h = CaHandle::from_str(ca).map_err(|e| e.to_string())?;
        let parent_h = ParentHandle::from_str(parent).map_err(|e| e.to_string())?;
        self.cam().ca_parent_remove(ca_h, parent_h, &self.actor, &self.slow).map_err(|e| e.to_string())
    }

    pub fn ca_delete(&self, ca: &str) -> OpRes {
        let ca_h = CaHandle::from_str(ca).map_err(|e| e.to_string())?;
        self.cam().delete_ca(&ca_h, &self.actor, &self.slow).map_err(|e| e.to_string())
    }

    pub fn publisher_remove(&self, ca: &str) -> OpRes {
        let h = PublisherHandle::from_str(ca).map_err(|e| e.to_string())?;
        self.repo().remove_publisher(h, &self.actor, &self.rt).map_err(|e| e.to_string())
    }

    /// Re-creates the publisher for a CA at the local server (after it was
    /// removed there). The CA's repository contact stays valid.
    pub fn readd_publisher(&self, name: &str) -> OpRes {
        let handle = CaHandle::from_str(name).map_err(|e| e.to_string())?;
        let ca = self.cam().get_ca(&handle).map_err(|e| e.to_string())?;
        let pub_req = PublisherRequest::new(ca.id_cert().base64.clone(), handle.convert(), None);
        self.repo().create_publisher(pub_req, &self.actor).map_err(|e| format!("create_publisher: {e}"))
    }

    pub fn keyroll_init(&self, ca: &str) -> OpRes {
        let ca_h = CaHandle::from_str(ca).map_err(|e| e.to_string())?;
        self.cam().ca_keyroll_init(ca_h, chrono::Duration::seconds(0), &self.actor, &self.rt).map_err(|e| e.to_string())
    }

    pub fn keyroll_activate(&self, ca: &str) -> OpRes {
        let ca_h = CaHandle::from_str(ca).map_err(|e| e.to_string())?;
        self.cam()
            .ca_keyroll_activate(ca_h, chrono::Duration::seconds(0), &self.actor, &self.rt)
            .map_err(|e| e.to_string())
    }

    pub fn ca_update_id(&self, ca: &str) -> OpRes {
        let ca_h = CaHandle::from_str(ca).map_err(|e| e.to_string())?;
        self.cam().ca_update_id(ca_h, &self.actor, &self.rt).map_err(|e| e.to_string())
    }

    pub fn roa_update(&self, ca: &str, updates: api::roa::RoaConfigurationUpdates) -> Result<(), KrillError> {
        let ca_h = CaHandle::from_str(ca).unwrap();
        self.cam().ca_routes_update(ca_h, updates, &self.actor, &self.rt)
    }

    pub fn aspa_update(&self, ca: &str, updates: api::aspa::AspaDefinitionUpdates) -> Result<(), KrillError> {
        let ca_h = CaHandle::from_str(ca).unwrap();
        self.cam().ca_aspas_definitions_update(ca_h, updates, &self.actor, &self.rt)
    }

    pub fn aspa_providers_update(
        &self,
        ca: &str,
        customer: api::aspa::CustomerAsn,
        update: api::aspa::AspaProvidersUpdate,
    ) -> Result<(), KrillError> {
        let ca_h = CaHandle::from_str(ca).unwrap();
        self.cam().ca_aspas_update_aspa_providers(ca_h, customer, update, &self.actor, &self.rt)
    }

    pub fn bgpsec_update(&self, ca: &str, updates: api::bgpsec::BgpSecDefinitionUpdates) -> Result<(), KrillError> {
        let ca_h = CaHandle::from_str(ca).unwrap();
        self.cam().ca_bgpsec_definitions_update(ca_h, updates, &self.actor, &self.rt)
    }

    pub fn republish(&self, force: bool) -> Result<Vec<CaHandle>, String> {
        let cas = self.cam().republish_all(force, &self.rt).map_err(|e| e.to_string())?;
        for ca in &cas {
            self.rt
                .tasks()
                .schedule(Task::SyncRepo { ca_handle: ca.clone(), ca_version: 0 }, krill::server::mq::now())
                .map_err(|e| e.to_string())?;
        }
        Ok(cas)
    }

    pub fn renew(&self) -> OpRes {
        self.cam().renew_objects_all(&self.actor, &self.rt).map_err(|e| e.to_string())
    }

    pub fn refresh_all(&self) -> OpRes {
        self.cam().cas_schedule_refresh_all(&self.rt).map_err(|e| e.to_string())
    }

    pub fn repo_sync_all(&self) -> OpRes {
        self.cam().cas_schedule_repo_sync_all(&self.rt).map_err(|e| e.to_string())
    }

    pub fn session_reset(&self) -> OpRes {
        self.repo().rrdp_session_reset().map_err(|e| e.to_string())
    }

    pub fn schedule(&self, task: Task) -> OpRes {
        self.rt.tasks().schedule(task, krill::server::mq::now()).map_err(|e| e.to_string())
    }

    //--- pump

    /// Pending tasks as (due time in ms, name).
    pub fn pending_tasks(&self) -> Vec<(u128, String)> {
        self.queue_keys("pending")
    }

    pub fn running_tasks(&self) -> Vec<(u128, String)> {
        self.queue_keys("running")
    }

    fn queue_keys(&self, scope: &str) -> Vec<(u128, String)> {
        let Ok(store) = self.rt.storage().open(TASK_QUEUE_NS) else { return vec![] };
        let scope = Ident::from_str_or_replace(scope);
        let keys = store.keys(Some(scope.as_ref()), "").unwrap_or_default();
        let mut res = Vec::new();
        for k in keys {
            if let Some((ts, name)) = k.as_str().split_once('-') {
                if let Ok(ts) = ts.parse::<u128>() {
                    res.push((ts, name.to_string()));
                }
            }
        }
        res.sort();
        res
    }

    /// Processes one due task like `scheduler::run` does. Returns the task's
    /// storage key, or None if no task was due.
    pub fn pump_one(&mut self) -> Result<Option<String>, Crash> {
        let Some(mut c) = self.pump_claim()? else { return Ok(None) };
        self.pump_process(&mut c)?;
        self.pump_finish(c).map(Some)
    }

    /// First third of `pump_one`: the scheduler claims the next due task
    /// (it is "running" from now on).
    pub fn pump_claim(&mut self) -> Result<Option<Claimed>, Crash> {
        let rt = self.rt.clone();
        let Some((key, value)) = guarded(|| rt.tasks().pop())? else {
            return Ok(None);
        };
        self.pump_steps += 1;
        let name = key.as_str().split_once('-').map(|x| x.1.to_string()).unwrap_or_default();
        if self.task_trace.len() < 20_000 {
            self.task_trace.push(name.clone());
        }
        if self.hold_types.iter().any(|h| name.contains(h.as_str())) {
            let rt = self.rt.clone();
            let _ = guarded(|| rt.tasks().reschedule(&key, krill::server::mq::in_hours(6)))?;
            return Ok(Some(Claimed { key, name, task: None, res: None, held: true }));
        }
        let task: Task = match serde_json::from_value(value) {
            Ok(t) => t,
            Err(e) => {
                return Err(Crash { what: format!("EXIT: task {key} cannot be parsed: {e}"), exit_sites: vec![] })
            }
        };
        Ok(Some(Claimed { key, name, task: Some(task), res: None, held: false }))
    }

    /// Second third: the task does its work.
    pub fn pump_process(&mut self, c: &mut Claimed) -> Result<(), Crash> {
        let Some(task) = c.task.take() else { return Ok(()) };
        let slow = self.slow.clone_slow();
        let started = self.started;
        c.res = Some(guarded(|| verif_process_task(&slow, task, started))?.map_err(|e| e.to_string()));
        Ok(())
    }

    /// Last third: the scheduler records the outcome in the queue.
    pub fn pump_finish(&mut self, c: Claimed) -> Result<String, Crash> {
        let Claimed { key, name, res, held, .. } = c;
        if held {
            return Ok(format!("held:{name}"));
        }
        let Some(res) = res else { return Ok(name) };
        let rt = self.rt.clone();
        let fin = guarded(|| match res {
            Ok(TaskResult::Done) => rt.tasks().finish(&key),
            Ok(TaskResult::FollowUp(task, prio)) => rt.tasks().schedule_and_finish_existing(task, prio),
            Ok(TaskResult::Reschedule(prio)) => rt.tasks().reschedule(&key, prio),
            Err(e) => Err(KrillError::Custom(format!("FATAL task error: {e}"))),
        })?;
        if let Err(e) = fin {
            return Err(Crash {
                what: format!("EXIT: scheduler would exit after task {name}: {e}"),
                exit_sites: vec![],
            });
        }
        Ok(name)
    }

    /// Runs due tasks until nothing is due within the next `lookahead_s`
    /// seconds (tasks that asked to be retried "in a second" are waited for by
    /// advancing the virtual clock). Returns Err(trace) if the step bound is
    /// hit.
    pub fn pump_quiesce(&mut self, max_steps: usize) -> Result<Result<usize, String>, Crash> {
        let mut steps = 0;
        let mut last = String::new();
        let mut same = 0;
        loop {
            while let Some(name) = self.pump_one()? {
                steps += 1;
                // A task that is rescheduled to "the same second" (e.g. the
                // RRDP update waiting for its interval, which is kept in
                // whole seconds) spins until the wall clock moves on; with
                // the virtual clock we move it on ourselves.
                if name == last {
                    same += 1;
                    if same >= 20 {
                        clock::advance(1);
                        same = 0;
                    }
                } else {
                    last = name;
                    same = 0;
                }
                if steps >= max_steps {
                    let tail: Vec<_> = self.task_trace.iter().rev().take(30).cloned().collect();
                    return Ok(Err(format!("no quiescence after {steps} task steps; last tasks (newest first): {tail:?}")));
                }
            }
            // anything due soon?
            let now_ms = (clock::now_s() as u128) * 1000;
            let soon = self.pending_tasks().into_iter().find(|(ts, _)| *ts <= now_ms + 3_000);
            match soon {
                Some(_) => clock::advance(1),
                None => return Ok(Ok(steps)),
            }
        }
    }

    pub fn pump_n(&mut self, n: usize) -> Result<usize, Crash> {
        let mut done = 0;
        for _ in 0..n {
            if self.pump_one()?.is_none() {
                break;
            }
            done += 1;
        }
        Ok(done)
    }

    //--- observation

    pub fn ca_handles(&self) -> Vec<String> {
        let mut v: Vec<String> =
            self.cam().ca_handles().unwrap_or_default().into_iter().map(|h| h.to_string()).collect();
        v.sort();
        v
    }

    pub fn publishers(&self) -> Vec<String> {
        let mut v: Vec<String> =
            self.repo().publishers().unwrap_or_default().into_iter().map(|h| h.to_string()).collect();
        v.sort();
        v
    }

    /// The served content: uri -> bytes, for all publishers (as the
    /// publication server holds it, including staged changes).
    pub fn served(&self) -> Result<BTreeMap<String, bytes::Bytes>, String> {
        let mut res = BTreeMap::new();
        for p in self.repo().publishers().map_err(|e| e.to_string())? {
            let details = self.repo().get_publisher_details(p.clone()).map_err(|e| format!("details {p}: {e}"))?;
            for f in details.current_files {
                res.insert(f.uri.to_string(), f.base64.to_bytes());
            }
        }
        Ok(res)
    }

    pub fn served_for(&self, publisher: &str) -> Result<BTreeMap<String, bytes::Bytes>, String> {
        let p = PublisherHandle::from_str(publisher).map_err(|e| e.to_string())?;
        let details = self.repo().get_publisher_details(p).map_err(|e| e.to_string())?;
        Ok(details.current_files.into_iter().map(|f| (f.uri.to_string(), f.base64.to_bytes())).collect())
    }

    pub fn ta_cert_and_tal(&self) -> Result<(bytes::Bytes, String), String> {
        let proxy = self.cam().get_trust_anchor_proxy().map_err(|e| e.to_string())?;
        let details = proxy.get_ta_details().map_err(|e| e.to_string())?;
        Ok((details.cert.to_bytes(), details.tal.to_string()))
    }
}

impl Drop for World {
    fn drop(&mut self) {
        if !self.keep_dir && std::env::var("KVH_KEEP_DIRS").is_err() {
            let _ = std::fs::remove_dir_all(&self.dir);
        }
    }
}

pub trait CloneSlow {
    fn clone_slow(&self) -> SlowKrillRuntime;
}

impl CloneSlow for SlowKrillRuntime {
    fn clone_slow(&self) -> SlowKrillRuntime {
        SlowKrillRuntime::new(self.runtime().clone())
    }
}

pub fn rs(asn: &str, v4: &str, v6: &str) -> ResourceSet {
    ResourceSet::from_strs(asn, v4, v6).unwrap()
}

pub fn storage_uri_for(dir: &Path) -> StorageUri {
    StorageUri::disk(dir.join("data"))
}
