//! Engine H: the real krill daemon (`start_krill_daemon`) running inside the
//! worker process, listening on a Unix socket and on a plain-HTTP TCP port.
//! Requests are written by hand (HTTP/1.1, `Connection: close`) so that any
//! method, path, header and body can be sent.
use std::collections::BTreeMap;
use std::io::{Read, Write};
use std::path::PathBuf;
use std::sync::atomic::{AtomicU64, Ordering};
use std::time::Duration;

use tokio::sync::oneshot;

use crate::world::scratch_root;

static NR: AtomicU64 = AtomicU64::new(0);

#[derive(Clone, Debug)]
pub struct RoleDef {
    pub name: String,
    pub permissions: Vec<String>,
    pub cas: Option<Vec<String>>,
}

#[derive(Clone, Debug)]
pub struct UserDef {
    /// the key in [auth_users] (as the administrator typed it)
    pub name: String,
    pub password: String,
    pub role: String,
}

#[derive(Clone, Debug, Default)]
pub struct DaemonCfg {
    pub admin_token: String,
    pub config_file_auth: bool,
    pub roles: Vec<RoleDef>,
    pub users: Vec<UserDef>,
    /// role name mapped to the system user the harness runs as
    pub unix_role: Option<String>,
    pub testbed: bool,
    pub tcp: bool,
    /// disk storage under the daemon's directory instead of memory storage
    pub disk: bool,
}

pub struct Daemon {
    pub dir: PathBuf,
    pub sock: PathBuf,
    pub port: Option<u16>,
    /// the configuration the daemon was started with (for a restart on the same directory)
    toml: String,
    /// a stop leaves the directory in place
    keep_dir: bool,
    exit: Option<oneshot::Sender<()>>,
    thread: Option<std::thread::JoinHandle<Result<(), String>>>,
}

#[derive(Clone, Debug)]
pub struct Reply {
    pub status: u16,
    pub headers: BTreeMap<String, String>,
    pub body: Vec<u8>,
}

impl Reply {
    pub fn text(&self) -> String {
        String::from_utf8_lossy(&self.body).to_string()
    }
    pub fn json(&self) -> Option<serde_json::Value> {
        serde_json::from_slice(&self.body).ok()
    }
}

#[derive(Clone, Copy, Debug, PartialEq, Eq)]
pub enum Transport {
    Unix,
    Tcp,
}

/// Password hash and salt as `krillc config user` computes them.
pub fn hash_password(user_key: &str, password: &str, salt_seed: u64) -> (String, String) {
    use unicode_normalization::UnicodeNormalization;
    let user_id = user_key.nfkc().collect::<String>();
    let password = password.trim().nfkc().collect::<String>();
    let params = scrypt::Params::new(13, 8, 1, scrypt::Params::RECOMMENDED_LEN).unwrap();
    let weak_salt = format!("krill-lagosta-{user_id}").nfkc().collect::<String>();
    let mut interim = [0u8; 32];
    scrypt::scrypt(password.as_bytes(), weak_salt.as_bytes(), &params, &mut interim).unwrap();
    let mut strong = [0u8; 32];
    let mut x = salt_seed | 1;
    for b in strong.iter_mut() {
        x ^= x << 13;
        x ^= x >> 7;
        x ^= x << 17;
        *b = x as u8;
    }
    let mut fin = [0u8; 32];
    scrypt::scrypt(&interim, &strong, &params, &mut fin).unwrap();
    (hex::encode(fin), hex::encode(strong))
}

fn toml_str(s: &str) -> String {
    // TOML basic string
    let mut out = String::from("\"");
    for c in s.chars() {
        match c {
            '"' => out.push_str("\\\""),
            '\\' => out.push_str("\\\\"),
            '\n' => out.push_str("\\n"),
            '\t' => out.push_str("\\t"),
            c if (c as u32) < 0x20 || c as u32 == 0x7f => out.push_str(&format!("\\u{:04X}", c as u32)),
            c => out.push(c),
        }
    }
    out.push('"');
    out
}

/// Every worker process has a port range of its own, so that two daemons
/// of different workers can never be mistaken for each other.
fn free_port(nr: u64) -> Option<u16> {
    let base = 20000 + (std::process::id() as u64 % 450) * 100;
    for k in 0..100u64 {
        let p = (base + (nr + k) % 100) as u16;
        if std::net::TcpListener::bind(("127.0.0.1", p)).is_ok() {
            return Some(p);
        }
    }
    None
}

impl Daemon {
    pub fn start(cfg: &DaemonCfg, hashes: &BTreeMap<String, (String, String)>) -> Result<Daemon, String> {
        let mut last = String::new();
        for _ in 0..3 {
            match Self::start_once(cfg, hashes) {
                Ok(d) => return Ok(d),
                Err(e) => last = e,
            }
        }
        Err(last)
    }

    fn start_once(cfg: &DaemonCfg, hashes: &BTreeMap<String, (String, String)>) -> Result<Daemon, String> {
        let nr = NR.fetch_add(1, Ordering::SeqCst);
        let dir = scratch_root().join(format!("d{nr}"));
        let _ = std::fs::remove_dir_all(&dir);
        std::fs::create_dir_all(&dir).map_err(|e| e.to_string())?;
        let sock = dir.join("krill.sock");
        let port = if cfg.tcp { Some(free_port(nr).ok_or("no free port")?) } else { None };
        let mem = ((std::process::id() as u64) << 24) | (1 << 22) | nr;
        let mut t = String::new();
        if cfg.disk {
            t.push_str(&format!("storage_uri = \"{}/data/\"\n", dir.display()));
        } else {
            t.push_str(&format!("storage_uri = \"memory:{mem}\"\n"));
        }
        t.push_str(&format!("repo_dir = \"{}/repo\"\ntls_keys_dir = \"{}/ssl\"\npid_file = \"{}/krill.pid\"\n", dir.display(), dir.display(), dir.display()));
        t.push_str("service_uri = \"https://krill.example.org/\"\nlog_type = \"stderr\"\n");
        t.push_str(&format!("log_level = \"{}\"\n", std::env::var("KVH_LOG").unwrap_or("off".into())));
        t.push_str(&format!("admin_token = {}\n", toml_str(&cfg.admin_token)));
        t.push_str("https_mode = \"disable\"\nip = \"127.0.0.1\"\n");
        match port {
            Some(p) => t.push_str(&format!("port = {p}\n")),
            None => t.push_str("port = 0\n"),
        }
        t.push_str(&format!("unix_socket_enabled = true\nunix_socket = \"{}\"\n", sock.display()));
        t.push_str("bgp_riswhois_enabled = false\nta_support_enabled = true\nta_signer_enabled = true\n");
        if cfg.config_file_auth {
            t.push_str("auth_type = \"config-file\"\n");
        }
        if let Some(r) = &cfg.unix_role {
            let me = nix_user();
            t.push_str(&format!("unix_users = {{ {} = {} }}\n", toml_str(&me), toml_str(r)));
        } else {
            t.push_str("unix_users = {}\n");
        }
        if cfg.testbed {
            t.push_str("[testbed]\nrrdp_base_uri = \"https://krill.example.org/rrdp/\"\nrsync_jail = \"rsync://krill.example.org/repo/\"\nta_aia = \"rsync://krill.example.org/ta/ta.cer\"\nta_uri = \"https://krill.example.org/ta/ta.cer\"\n");
        }
        if cfg.config_file_auth {
            t.push_str("[auth_users]\n");
            for u in &cfg.users {
                let (h, s) = hashes.get(&format!("{}\u{0}{}", u.name, u.password)).cloned().ok_or("missing hash")?;
                t.push_str(&format!("{} = {{ password_hash = \"{h}\", salt = \"{s}\", role = {} }}\n", toml_str(&u.name), toml_str(&u.role)));
            }
        }
        if !cfg.roles.is_empty() {
            t.push_str("[auth_roles]\n");
            for r in &cfg.roles {
                let perms: Vec<String> = r.permissions.iter().map(|p| toml_str(p)).collect();
                let cas = match &r.cas {
                    Some(c) => format!(", cas = [{}]", c.iter().map(|x| toml_str(x)).collect::<Vec<_>>().join(", ")),
                    None => String::new(),
                };
                t.push_str(&format!("{} = {{ permissions = [{}]{cas} }}\n", toml_str(&r.name), perms.join(", ")));
            }
        }
        Self::launch(dir, sock, port, t)
    }

    /// Starts the daemon with the given configuration text on the given directory.
    fn launch(dir: PathBuf, sock: PathBuf, port: Option<u16>, t: String) -> Result<Daemon, String> {
        let _ = std::fs::remove_file(&sock);
        let mut config: krill::config::Config = toml::from_str(&t).map_err(|e| format!("toml: {e}\n{t}"))?;
        config.process().map_err(|e| format!("process: {e}"))?;
        let (run_tx, run_rx) = oneshot::channel::<()>();
        let (exit_tx, exit_rx) = oneshot::channel::<()>();
        let thread = std::thread::spawn(move || krill::daemon::start::start_krill_daemon(config, Some(run_tx), Some(exit_rx)).map_err(|e| e.to_string()));
        // wait until it listens
        let mut run_rx = run_rx;
        let t0 = std::time::Instant::now();
        loop {
            match run_rx.try_recv() {
                Ok(()) => break,
                Err(oneshot::error::TryRecvError::Empty) => {
                    if thread.is_finished() {
                        let r = thread.join().map_err(|_| "daemon thread panicked".to_string())?;
                        return Err(format!("daemon ended during start-up: {r:?}"));
                    }
                    if t0.elapsed() > Duration::from_secs(60) {
                        return Err("daemon did not start within 60 s".into());
                    }
                    std::thread::sleep(Duration::from_millis(2));
                }
                Err(oneshot::error::TryRecvError::Closed) => {
                    let r = thread.join().map_err(|_| "daemon thread panicked".to_string())?;
                    return Err(format!("daemon ended during start-up: {r:?}"));
                }
            }
        }
        let d = Daemon { dir, sock, port, toml: t, keep_dir: false, exit: Some(exit_tx), thread: Some(thread) };
        // the "running" signal is given by the first listener; wait for the other one too
        for tr in [Transport::Unix, Transport::Tcp] {
            if tr == Transport::Tcp && port.is_none() {
                continue;
            }
            let t0 = std::time::Instant::now();
            loop {
                match d.request(tr, "GET", "/health", &[], None) {
                    Ok(r) if r.status == 200 => break,
                    other => {
                        if d.thread.as_ref().map(|t| t.is_finished()).unwrap_or(true) {
                            let mut d = d;
                            let r = d.thread.take().map(|t| t.join());
                            return Err(format!("daemon ended right after start-up: {r:?}"));
                        }
                        if t0.elapsed() > Duration::from_secs(20) {
                            return Err(format!("daemon does not answer on {tr:?}: {other:?}"));
                        }
                        std::thread::sleep(Duration::from_millis(3));
                    }
                }
            }
        }
        Ok(d)
    }

    pub fn request(&self, tr: Transport, method: &str, path: &str, headers: &[(String, String)], body: Option<&[u8]>) -> Result<Reply, String> {
        let mut req = Vec::new();
        req.extend_from_slice(format!("{method} {path} HTTP/1.1\r\nHost: localhost\r\nConnection: close\r\n").as_bytes());
        for (k, v) in headers {
            req.extend_from_slice(k.as_bytes());
            req.extend_from_slice(b": ");
            req.extend_from_slice(v.as_bytes());
            req.extend_from_slice(b"\r\n");
        }
        if let Some(b) = body {
            req.extend_from_slice(format!("Content-Length: {}\r\n", b.len()).as_bytes());
        }
        req.extend_from_slice(b"\r\n");
        if let Some(b) = body {
            req.extend_from_slice(b);
        }
        let mut buf = Vec::new();
        match tr {
            Transport::Unix => {
                let mut s = std::os::unix::net::UnixStream::connect(&self.sock).map_err(|e| format!("connect: {e}"))?;
                s.set_read_timeout(Some(Duration::from_secs(60))).ok();
                s.write_all(&req).map_err(|e| format!("write: {e}"))?;
                s.read_to_end(&mut buf).map_err(|e| format!("read: {e}"))?;
            }
            Transport::Tcp => {
                let port = self.port.ok_or("tcp not enabled")?;
                let mut s = std::net::TcpStream::connect(("127.0.0.1", port)).map_err(|e| format!("connect: {e}"))?;
                s.set_read_timeout(Some(Duration::from_secs(60))).ok();
                s.write_all(&req).map_err(|e| format!("write: {e}"))?;
                s.read_to_end(&mut buf).map_err(|e| format!("read: {e}"))?;
            }
        }
        parse_reply(&buf)
    }

    pub fn stop(&mut self) -> Result<(), String> {
        if let Some(tx) = self.exit.take() {
            let _ = tx.send(());
        }
        if let Some(t) = self.thread.take() {
            let t0 = std::time::Instant::now();
            while !t.is_finished() {
                if t0.elapsed() > Duration::from_secs(30) {
                    return Err("daemon did not stop within 30 s".into());
                }
                std::thread::sleep(Duration::from_millis(2));
            }
            match t.join() {
                Ok(r) => r?,
                Err(_) => return Err("daemon thread panicked".into()),
            }
        }
        if !self.keep_dir {
            let _ = std::fs::remove_dir_all(&self.dir);
        }
        Ok(())
    }

    /// Stops the daemon and starts a new one on the same directory with the same configuration (disk storage:
    /// the new instance finds what the old one left, the task queue included). `between` runs while no daemon
    /// is up (e.g. to arrange the remains of a crash).
    pub fn restart(mut self, between: impl FnOnce(&std::path::Path) -> Result<(), String>) -> Result<Daemon, String> {
        self.keep_dir = true;
        self.stop()?;
        between(&self.dir)?;
        let (dir, sock, port, toml) = (self.dir.clone(), self.sock.clone(), self.port, self.toml.clone());
        drop(self);
        let mut last = String::new();
        for _ in 0..3 {
            match Self::launch(dir.clone(), sock.clone(), port, toml.clone()) {
                Ok(d) => return Ok(d),
                Err(e) => last = e,
            }
            std::thread::sleep(Duration::from_millis(200));
        }
        Err(last)
    }
}

impl Drop for Daemon {
    fn drop(&mut self) {
        let _ = self.stop();
    }
}

pub fn nix_user() -> String {
    // the name of the system user this process runs as
    let uid = unsafe { libc::getuid() };
    let passwd = std::fs::read_to_string("/etc/passwd").unwrap_or_default();
    for l in passwd.lines() {
        let f: Vec<&str> = l.split(':').collect();
        if f.len() > 2 && f[2].parse::<u32>().ok() == Some(uid) {
            return f[0].to_string();
        }
    }
    "root".into()
}

fn parse_reply(buf: &[u8]) -> Result<Reply, String> {
    let pos = buf.windows(4).position(|w| w == b"\r\n\r\n").ok_or_else(|| format!("no header end in reply of {} bytes", buf.len()))?;
    let head = String::from_utf8_lossy(&buf[..pos]).to_string();
    let mut lines = head.split("\r\n");
    let status_line = lines.next().unwrap_or("");
    let status: u16 = status_line.split_whitespace().nth(1).and_then(|s| s.parse().ok()).ok_or_else(|| format!("bad status line '{status_line}'"))?;
    let mut headers = BTreeMap::new();
    for l in lines {
        if let Some((k, v)) = l.split_once(':') {
            headers.insert(k.trim().to_ascii_lowercase(), v.trim().to_string());
        }
    }
    let mut body = buf[pos + 4..].to_vec();
    if headers.get("transfer-encoding").map(|v| v.contains("chunked")).unwrap_or(false) {
        let mut out = Vec::new();
        let mut rest = &body[..];
        loop {
            let Some(p) = rest.windows(2).position(|w| w == b"\r\n") else { break };
            let n = usize::from_str_radix(String::from_utf8_lossy(&rest[..p]).trim(), 16).unwrap_or(0);
            rest = &rest[p + 2..];
            if n == 0 || rest.len() < n {
                break;
            }
            out.extend_from_slice(&rest[..n]);
            rest = &rest[(n + 2).min(rest.len())..];
        }
        body = out;
    }
    Ok(Reply { status, headers, body })
}
