//! Virtual wall clock.
//!
//! The harness binary interposes `clock_gettime`: the real syscall is made and
//! a harness-controlled offset (seconds) is added for CLOCK_REALTIME. All of
//! krill's notions of "now" (chrono::Utc::now, rpki Time::now, SystemTime::now)
//! follow. Instant / CLOCK_MONOTONIC are untouched.
use std::sync::atomic::{AtomicI64, Ordering};

static OFFSET_S: AtomicI64 = AtomicI64::new(0);
/// if non-zero, CLOCK_REALTIME is frozen at this second (+ a nanosecond tick so
/// time still strictly increases a little)
static FROZEN_AT: AtomicI64 = AtomicI64::new(0);
static TICK: AtomicI64 = AtomicI64::new(0);

#[unsafe(no_mangle)]
pub unsafe extern "C" fn clock_gettime(
    clk: libc::clockid_t,
    ts: *mut libc::timespec,
) -> libc::c_int {
    let r = unsafe { libc::syscall(libc::SYS_clock_gettime, clk, ts) } as libc::c_int;
    if r == 0 && clk == libc::CLOCK_REALTIME {
        let frozen = FROZEN_AT.load(Ordering::Relaxed);
        unsafe {
            if frozen != 0 {
                let t = TICK.fetch_add(1, Ordering::Relaxed);
                (*ts).tv_sec = frozen + t / 1_000_000;
                (*ts).tv_nsec = (t % 1_000_000) * 1000;
            } else {
                (*ts).tv_sec += OFFSET_S.load(Ordering::Relaxed);
            }
        }
    }
    r
}

pub fn real_now_s() -> i64 {
    let mut ts = libc::timespec { tv_sec: 0, tv_nsec: 0 };
    unsafe { libc::syscall(libc::SYS_clock_gettime, libc::CLOCK_REALTIME, &mut ts) };
    ts.tv_sec
}

pub fn now_s() -> i64 {
    let mut ts = libc::timespec { tv_sec: 0, tv_nsec: 0 };
    unsafe { clock_gettime(libc::CLOCK_REALTIME, &mut ts) };
    ts.tv_sec
}

pub fn offset() -> i64 {
    OFFSET_S.load(Ordering::Relaxed)
}

/// Reset the clock to real time plus the given offset.
pub fn reset(offset_s: i64) {
    FROZEN_AT.store(0, Ordering::Relaxed);
    OFFSET_S.store(offset_s, Ordering::Relaxed);
}

/// Move the clock forward.
pub fn advance(secs: i64) {
    assert!(secs >= 0);
    let frozen = FROZEN_AT.load(Ordering::Relaxed);
    if frozen != 0 {
        FROZEN_AT.store(frozen + secs, Ordering::Relaxed);
    }
    OFFSET_S.fetch_add(secs, Ordering::Relaxed);
}

/// Freeze the clock (it then only advances by microsecond ticks per read).
pub fn freeze() {
    let now = now_s();
    TICK.store(0, Ordering::Relaxed);
    FROZEN_AT.store(now + 1, Ordering::Relaxed);
}

pub fn unfreeze() {
    let frozen = FROZEN_AT.load(Ordering::Relaxed);
    if frozen != 0 {
        // keep the time continuous: offset such that now == frozen time
        let t = TICK.load(Ordering::Relaxed) / 1_000_000;
        FROZEN_AT.store(0, Ordering::Relaxed);
        let real = real_now_s();
        OFFSET_S.store(frozen + t + 1 - real, Ordering::Relaxed);
    }
}
