//! C05 — Configuration changes are validated against held resources, all or
//! nothing. Differential check against a reference decision procedure.
use std::collections::{BTreeMap, BTreeSet};
use std::str::FromStr;

use krill::api;
use proptest::collection::vec;
use proptest::prelude::*;
use proptest::strategy::BoxedStrategy;
use rpki::ca::idexchange::CaHandle;
use rpki::repository::resources::ResourceSet;
use serde::{Deserialize, Serialize};
use serde_json::Value;

use crate::fw::{Ctx, Outcome, Prop, Tier};
use crate::gens::roa_spec;
use crate::ops::{resources_of, Fail, Op, Payload, RoaSpec, Sim, ASNS};
use crate::world::{guarded, WorldCfg, TA};

pub struct C05;

#[derive(Clone, Debug, Serialize, Deserialize)]
pub enum Req {
    /// remove: Ok(index selector into current config) or an arbitrary payload
    Roa { add: Vec<RoaSpec>, remove_existing: Vec<u16>, remove_other: Vec<RoaSpec> },
    Aspa { set: Vec<(u8, Vec<u8>)>, remove: Vec<u8> },
    AspaProviders { customer: u8, add: Vec<u8>, remove: Vec<u8> },
    /// csr 0..5 valid pool, 6 = invalid signature
    Bgpsec { add: Vec<(u8, u8)>, remove_existing: Vec<u16>, remove_other: Vec<(u8, u8)> },
    ChildAdd { child: u8, under_ta: bool, res: u16 },
    ChildUpdate { child: u8, res: u16 },
    /// change what ca0 holds (entitlement under the root CA) and converge
    Hold { res: u16 },
}

#[derive(Clone, Debug, Serialize, Deserialize)]
pub struct Case {
    pub agg: usize,
    pub deagg: usize,
    pub key_start: u16,
    pub initial: u16,
    pub reqs: Vec<Req>,
}

#[derive(Default, Clone, PartialEq, Debug)]
struct State {
    roas: BTreeMap<Payload, Option<String>>,
    aspas: BTreeMap<u32, BTreeSet<u32>>,
    bgpsec: BTreeSet<(u32, String)>,
    children: BTreeMap<String, String>, // child -> entitlement text
}

const CA: &str = "ca0";
const ROOT: &str = "root";

fn asn(i: u8) -> u32 {
    ASNS[i as usize % ASNS.len()]
}

/// Customer / AS selectors of 100 and above name the k-th AS that is
/// currently configured (ASPA customer, router key AS): requests about what
/// exists are as frequent as requests about something new.
fn resolve(req: &Req, st: &State, csr_keys: &[String]) -> Req {
    let existing_aspa: Vec<u32> = st.aspas.keys().copied().collect();
    let existing_bgpsec: Vec<u32> = st.bgpsec.iter().map(|b| b.0).collect();
    let idx_of = |a: u32| ASNS.iter().position(|x| *x == a).unwrap_or(0) as u8;
    let pick = |sel: u8, from: &Vec<u32>| -> u8 {
        if sel < 100 {
            sel
        } else if from.is_empty() {
            sel - 100
        } else {
            idx_of(from[(sel as usize - 100) % from.len()])
        }
    };
    match req {
        Req::Aspa { set, remove } => {
            let mut seen = BTreeSet::new();
            let mut set: Vec<(u8, Vec<u8>)> = set.iter().map(|(c, p)| (pick(*c, &existing_aspa), p.clone())).collect();
            set.retain(|(c, _)| seen.insert(asn(*c)));
            Req::Aspa { set, remove: remove.iter().map(|c| pick(*c, &existing_aspa)).collect() }
        }
        Req::AspaProviders { customer, add, remove } => Req::AspaProviders { customer: pick(*customer, &existing_aspa), add: add.clone(), remove: remove.clone() },
        Req::Bgpsec { add, remove_existing, remove_other } => Req::Bgpsec {
            add: add
                .iter()
                .map(|(a, c)| {
                    // a key selector of 100 and above with an AS selector of 100 and above names an
                    // existing definition as a whole: the same AS and the same router key again
                    if *a >= 100 && *c >= 100 && !st.bgpsec.is_empty() {
                        let defs: Vec<&(u32, String)> = st.bgpsec.iter().collect();
                        let (asn_, key) = defs[(*a as usize - 100) % defs.len()];
                        let ci = csr_keys.iter().position(|k| k.to_uppercase() == *key).unwrap_or(0) as u8;
                        (idx_of(*asn_), ci)
                    } else {
                        (pick(*a, &existing_bgpsec), *c % 7)
                    }
                })
                .collect(),
            remove_existing: remove_existing.clone(),
            remove_other: remove_other.clone(),
        },
        other => other.clone(),
    }
}

fn held(sim: &Sim) -> ResourceSet {
    let mut rs = ResourceSet::empty();
    if let Some(info) = sim.ca_info(CA) {
        for rc in info.resource_classes.values() {
            if let Some(k) = rc.keys.current_key() {
                rs = rs.union(&k.incoming_cert.resources);
            }
        }
    }
    rs
}

fn canon(p: &str) -> String {
    if let Some((a, l)) = p.split_once('/') {
        if let Ok(ip) = std::net::IpAddr::from_str(a) {
            return format!("{ip}/{l}");
        }
    }
    p.to_string()
}

fn asn_of(v: &Value) -> Option<u32> {
    match v {
        Value::Number(n) => n.as_u64().map(|x| x as u32),
        Value::String(s) => s.trim_start_matches("AS").parse().ok(),
        _ => None,
    }
}

/// What krill reports as configured (API views).
fn observe(sim: &Sim) -> Result<State, String> {
    let h = CaHandle::from_str(CA).unwrap();
    let ca = sim.w().cam().get_ca(&h).map_err(|e| e.to_string())?;
    let mut st = State::default();
    for c in serde_json::to_value(ca.configured_roas()).unwrap_or(Value::Null).as_array().cloned().unwrap_or_default() {
        let prefix = c["prefix"].as_str().unwrap_or("").to_string();
        let len: u8 = prefix.split_once('/').and_then(|x| x.1.parse().ok()).unwrap_or(0);
        st.roas.insert(
            Payload { asn: asn_of(&c["asn"]).unwrap_or(u32::MAX), prefix: canon(&prefix), maxlen: c["max_length"].as_u64().map(|x| x as u8).unwrap_or(len) },
            c["comment"].as_str().map(|s| s.to_string()),
        );
    }
    for a in serde_json::to_value(ca.aspas_definitions_show()).unwrap_or(Value::Null).as_array().cloned().unwrap_or_default() {
        st.aspas.insert(
            asn_of(&a["customer"]).unwrap_or(u32::MAX),
            a["providers"].as_array().cloned().unwrap_or_default().iter().filter_map(asn_of).collect(),
        );
    }
    for b in serde_json::to_value(ca.bgpsec_definitions_show()).unwrap_or(Value::Null).as_array().cloned().unwrap_or_default() {
        st.bgpsec.insert((asn_of(&b["asn"]).unwrap_or(u32::MAX), b["key_identifier"].as_str().unwrap_or("").to_uppercase()));
    }
    for child in ca.children() {
        let info = sim.w().cam().ca_show_child(&h, child).map_err(|e| e.to_string())?;
        st.children.insert(child.to_string(), info.entitled_resources.to_string());
    }
    Ok(st)
}

fn version(sim: &Sim, ca: &str) -> u64 {
    use krill::commons::eventsourcing::Aggregate;
    sim.w().cam().get_ca(&CaHandle::from_str(ca).unwrap()).map(|c| c.version()).unwrap_or(0)
}

fn payload_of(r: &RoaSpec) -> Payload {
    let p = r.payload();
    Payload { asn: p.asn, prefix: canon(&p.prefix), maxlen: p.maxlen }
}

fn prefix_held(held: &ResourceSet, prefix: &str) -> bool {
    let rs = if prefix.contains(':') { ResourceSet::from_strs("", "", prefix) } else { ResourceSet::from_strs("", prefix, "") };
    rs.map(|r| held.contains(&r)).unwrap_or(false)
}

fn asn_held(held: &ResourceSet, a: u32) -> bool {
    ResourceSet::from_strs(&format!("AS{a}"), "", "").map(|r| held.contains(&r)).unwrap_or(false)
}

/// Reference decision procedure. Returns Some(new state) if the request is to
/// be accepted, None if it is to be refused.
fn model(st: &State, held: &ResourceSet, req: &Req, csr_keys: &[String], ta_children: &BTreeSet<String>) -> Option<State> {
    let mut n = st.clone();
    match req {
        Req::Roa { add, remove_existing, remove_other } => {
            let mut ok = true;
            let current: Vec<Payload> = st.roas.keys().cloned().collect();
            let mut removals: Vec<Payload> = Vec::new();
            for sel in remove_existing {
                if let Some(i) = crate::ops::pick::<()>(*sel, current.len()) {
                    removals.push(current[i].clone());
                }
            }
            for r in remove_other {
                removals.push(payload_of(r));
            }
            for p in removals {
                if n.roas.remove(&p).is_none() {
                    ok = false; // removes one that is not present (also: twice in one delta)
                }
            }
            for a in add {
                let (_, addr, len, ml) = a.parts();
                let fam = if addr.contains(':') { 128 } else { 32 };
                let ml = ml.unwrap_or(len);
                let p = payload_of(a);
                if ml < len || ml > fam {
                    ok = false;
                } else if !prefix_held(held, &format!("{addr}/{len}")) {
                    ok = false;
                } else if let Some(existing) = n.roas.get(&p) {
                    if *existing == a.comment() {
                        ok = false; // already present with the same comment
                    } else {
                        n.roas.insert(p, a.comment());
                    }
                } else {
                    n.roas.insert(p, a.comment());
                }
            }
            ok.then_some(n)
        }
        Req::Aspa { set, remove } => {
            for c in remove {
                if n.aspas.remove(&asn(*c)).is_none() {
                    return None;
                }
            }
            for (c, provs) in set {
                let cust = asn(*c);
                let provs: Vec<u32> = provs.iter().map(|p| asn(*p)).collect();
                let uniq: BTreeSet<u32> = provs.iter().copied().collect();
                if provs.is_empty() || uniq.len() != provs.len() || uniq.contains(&cust) || !asn_held(held, cust) {
                    return None;
                }
                n.aspas.insert(cust, uniq);
            }
            Some(n)
        }
        Req::AspaProviders { customer, add, remove } => {
            let cust = asn(*customer);
            let mut provs = n.aspas.get(&cust).cloned().unwrap_or_default();
            let before = provs.clone();
            for r in remove {
                provs.remove(&asn(*r));
            }
            for a in add {
                provs.insert(asn(*a));
            }
            if provs == before {
                return Some(n); // no effect
            }
            if provs.is_empty() {
                n.aspas.remove(&cust);
                return Some(n);
            }
            if !asn_held(held, cust) || provs.contains(&cust) {
                return None;
            }
            n.aspas.insert(cust, provs);
            Some(n)
        }
        Req::Bgpsec { add, remove_existing, remove_other } => {
            let current: Vec<(u32, String)> = st.bgpsec.iter().cloned().collect();
            let mut removals = Vec::new();
            for sel in remove_existing {
                if let Some(i) = crate::ops::pick::<()>(*sel, current.len()) {
                    removals.push(current[i].clone());
                }
            }
            for (a, k) in remove_other {
                removals.push((asn(*a), csr_keys[*k as usize % csr_keys.len()].to_uppercase()));
            }
            for r in removals {
                if !n.bgpsec.remove(&r) {
                    return None;
                }
            }
            for (a, c) in add {
                if *c as usize >= csr_keys.len() {
                    return None; // CSR not validly self-signed
                }
                if !asn_held(held, asn(*a)) {
                    return None;
                }
                n.bgpsec.insert((asn(*a), csr_keys[*c as usize].to_uppercase()));
            }
            Some(n)
        }
        Req::ChildAdd { child, under_ta, res } => {
            let name = format!("k{}", child % 3);
            let rs = resources_of(*res);
            if *under_ta {
                if rs.is_empty() || ta_children.contains(&name) {
                    return None;
                }
                return Some(n);
            }
            if rs.is_empty() || !held.contains(&rs) || n.children.contains_key(&name) {
                return None;
            }
            n.children.insert(name, rs.to_string());
            Some(n)
        }
        Req::ChildUpdate { child, res } => {
            let name = format!("k{}", child % 3);
            let rs = resources_of(*res);
            if !n.children.contains_key(&name) || !held.contains(&rs) {
                return None;
            }
            n.children.insert(name, rs.to_string());
            Some(n)
        }
        Req::Hold { .. } => Some(n),
    }
}

fn roa_json(r: &RoaSpec) -> Value {
    r.config_json()
}

/// Sends the request to krill. Ok(true) = accepted, Ok(false) = refused.
fn send(sim: &mut Sim, st: &State, req: &Req, bad_csr: &str) -> Result<bool, Fail> {
    let w = sim.w.as_ref().unwrap();
    let res: Result<(), String> = match req {
        Req::Roa { add, remove_existing, remove_other } => {
            let current: Vec<Payload> = st.roas.keys().cloned().collect();
            let mut removed: Vec<Value> = Vec::new();
            for sel in remove_existing {
                if let Some(i) = crate::ops::pick::<()>(*sel, current.len()) {
                    removed.push(crate::ops::payload_json(&current[i]));
                }
            }
            for r in remove_other {
                removed.push(r.json());
            }
            let added: Vec<Value> = add.iter().map(roa_json).collect();
            let upd: api::roa::RoaConfigurationUpdates = serde_json::from_value(serde_json::json!({"added": added, "removed": removed}))
                .map_err(|e| Fail::Harness(format!("roa json {e}")))?;
            guarded(|| w.roa_update(CA, upd))?.map_err(|e| e.to_string())
        }
        Req::Aspa { set, remove } => {
            let defs: Vec<Value> = set
                .iter()
                .map(|(c, provs)| serde_json::json!({"customer": asn(*c), "providers": provs.iter().map(|p| asn(*p)).collect::<Vec<_>>()}))
                .collect();
            let remove: Vec<Value> = remove.iter().map(|c| serde_json::json!(asn(*c))).collect();
            match serde_json::from_value::<api::aspa::AspaDefinitionUpdates>(serde_json::json!({"add_or_replace": defs, "remove": remove})) {
                Ok(upd) => guarded(|| w.aspa_update(CA, upd))?.map_err(|e| e.to_string()),
                Err(e) => Err(format!("rejected at decoding: {e}")),
            }
        }
        Req::AspaProviders { customer, add, remove } => {
            let add: Vec<u32> = add.iter().map(|a| asn(*a)).collect();
            let remove: Vec<u32> = remove.iter().map(|a| asn(*a)).collect();
            let upd: api::aspa::AspaProvidersUpdate =
                serde_json::from_value(serde_json::json!({"added": add, "removed": remove})).map_err(|e| Fail::Harness(format!("prov json {e}")))?;
            let cust: api::aspa::CustomerAsn = serde_json::from_value(serde_json::json!(asn(*customer))).map_err(|e| Fail::Harness(format!("cust json {e}")))?;
            guarded(|| w.aspa_providers_update(CA, cust, upd))?.map_err(|e| e.to_string())
        }
        Req::Bgpsec { add, remove_existing, remove_other } => {
            let current: Vec<(u32, String)> = st.bgpsec.iter().cloned().collect();
            let mut removed: Vec<Value> = Vec::new();
            for sel in remove_existing {
                if let Some(i) = crate::ops::pick::<()>(*sel, current.len()) {
                    removed.push(format!("ROUTER-{:08X}-{}", current[i].0, current[i].1).into());
                }
            }
            for (a, k) in remove_other {
                removed.push(format!("ROUTER-{:08X}-{}", asn(*a), sim.csrs[*k as usize % sim.csrs.len()].1).into());
            }
            let added: Vec<Value> = add
                .iter()
                .map(|(a, c)| {
                    let csr = if (*c as usize) < sim.csrs.len() { sim.csrs[*c as usize].0.clone() } else { bad_csr.to_string() };
                    serde_json::json!({"asn": asn(*a), "csr": csr})
                })
                .collect();
            match serde_json::from_value::<api::bgpsec::BgpSecDefinitionUpdates>(serde_json::json!({"add": added, "remove": removed})) {
                Ok(upd) => guarded(|| w.bgpsec_update(CA, upd))?.map_err(|e| e.to_string()),
                Err(e) => Err(format!("rejected at decoding: {e}")),
            }
        }
        Req::ChildAdd { child, under_ta, res } => {
            let name = format!("k{}", child % 3);
            let rs = resources_of(*res);
            let parent = if *under_ta { TA } else { CA };
            guarded(|| w.parent_add_child(&name, parent, &rs))?
        }
        Req::ChildUpdate { child, res } => {
            let name = format!("k{}", child % 3);
            let rs = resources_of(*res);
            guarded(|| w.child_update(CA, &name, api::admin::UpdateChildRequest::resources(rs)))?
        }
        Req::Hold { res } => {
            let rs = resources_of(*res);
            let r = guarded(|| w.child_update(ROOT, CA, api::admin::UpdateChildRequest::resources(rs)))?;
            sim.converge()?;
            r
        }
    };
    Ok(res.is_ok())
}

fn req_strategy() -> BoxedStrategy<Req> {
    let asn_i = || 0u8..8;
    // a customer / router AS: any, or (100 and above) one that is configured at that moment
    let cust = || prop_oneof![3 => 0u8..8, 2 => 100u8..108];
    prop_oneof![
        8 => (vec(roa_spec(), 0..6), vec(any::<u16>(), 0..3), vec(roa_spec(), 0..2))
            .prop_map(|(add, remove_existing, remove_other)| Req::Roa { add, remove_existing, remove_other }),
        3 => (vec((cust(), vec(asn_i(), 0..4)), 0..3), vec(cust(), 0..2)).prop_map(|(mut set, remove)| {
            // one entry per customer in a single update (what two entries for
            // the same customer mean is not specified)
            let mut seen = BTreeSet::new();
            set.retain(|(c, _)| seen.insert(*c));
            Req::Aspa { set, remove }
        }),
        3 => (cust(), vec(asn_i(), 0..3), vec(asn_i(), 0..3)).prop_map(|(customer, add, remove)| Req::AspaProviders { customer, add, remove }),
        3 => (vec((cust(), prop_oneof![3 => 0u8..7, 2 => Just(100u8)]), 0..3), vec(any::<u16>(), 0..2), vec((asn_i(), 0u8..6), 0..2))
            .prop_map(|(add, remove_existing, remove_other)| Req::Bgpsec { add, remove_existing, remove_other }),
        2 => (0u8..3, prop_oneof![4 => Just(false), 1 => Just(true)], mask()).prop_map(|(child, under_ta, res)| Req::ChildAdd { child, under_ta, res }),
        2 => (0u8..3, mask()).prop_map(|(child, res)| Req::ChildUpdate { child, res }),
        3 => mask().prop_map(|res| Req::Hold { res }),
    ]
    .boxed()
}

fn mask() -> impl Strategy<Value = u16> {
    prop_oneof![
        3 => any::<u16>().prop_map(|m| m & 0x7fff),
        2 => (any::<u16>(), any::<u16>()).prop_map(|(a, b)| (a & b) & 0x7fff),
        1 => Just(0u16),
        1 => (0u32..15).prop_map(|b| 1u16 << b),
    ]
}

impl Prop for C05 {
    type Case = Case;
    const ID: &'static str = "C05";

    fn strategy(tier: Tier) -> BoxedStrategy<Case> {
        let n = match tier {
            Tier::Quick => 3..16,
            Tier::Thorough => 3..30,
        };
        ((1usize..6).prop_flat_map(|a| (Just(a), 0usize..=a)), any::<u16>(), prop_oneof![2 => Just(0x7fffu16), 3 => any::<u16>().prop_map(|m| (m | 0x0811) & 0x7fff)], vec(req_strategy(), n))
            .prop_map(|((agg, deagg), key_start, initial, reqs)| Case { agg, deagg, key_start, initial, reqs })
            .boxed()
    }

    fn run(case: &Case, _ctx: &Ctx) -> Outcome {
        let cfg = WorldCfg { agg: case.agg, deagg: case.deagg, ..WorldCfg::default() };
        let mut sim = match Sim::new(cfg, case.key_start as usize) {
            Ok(s) => s,
            Err(e) => return Outcome::Harness(format!("{e:?}")),
        };
        // world: ta -> root (everything) -> ca0 (initial mask); k0..k2 without parent
        let setup = [
            Op::CaAdd { ca: 0 },
        ];
        let _ = setup;
        let w = sim.w.as_ref().unwrap();
        let all = resources_of(0x7fff);
        for step in [w.add_ca(ROOT), w.attach(ROOT, TA, &all)] {
            if let Err(e) = step {
                return Outcome::Harness(format!("setup: {e}"));
            }
        }
        if let Err(e) = sim.converge() {
            return Outcome::Harness(format!("setup converge: {e:?}"));
        }
        let w = sim.w.as_ref().unwrap();
        for step in [w.add_ca(CA), w.attach(CA, ROOT, &resources_of(case.initial)), w.add_ca("k0"), w.add_ca("k1"), w.add_ca("k2")] {
            if let Err(e) = step {
                return Outcome::Harness(format!("setup: {e}"));
            }
        }
        if let Err(e) = sim.converge() {
            return Outcome::Harness(format!("setup converge: {e:?}"));
        }
        let csr_keys: Vec<String> = sim.csrs.iter().map(|c| c.1.clone()).collect();
        let bad_csr = crate::csr::bad_csr();
        let mut ta_children: BTreeSet<String> = BTreeSet::new();
        let mut st = match observe(&sim) {
            Ok(s) => s,
            Err(e) => return Outcome::Harness(e),
        };
        let mut accepted = 0usize;
        let mut refused = 0usize;
        let mut mixed = 0usize;
        let mut classes: BTreeSet<String> = BTreeSet::new();
        for (i, req) in case.reqs.iter().enumerate() {
            let held = held(&sim);
            let req = &resolve(req, &st, &csr_keys);
            let expect = model(&st, &held, req, &csr_keys, &ta_children);
            let served_before = sim.w().served_for(CA).unwrap_or_default();
            let tasks_before: BTreeSet<String> = sim.w().pending_tasks().into_iter().map(|t| t.1).collect();
            let v_before = version(&sim, CA);
            let got = match send(&mut sim, &st, req, &bad_csr) {
                Ok(g) => g,
                Err(Fail::Crash(e)) => {
                    return Outcome::Violation { clause: "crash".into(), key: super::crash_key(&e), msg: format!("request #{i} {req:?}: {e}") }
                }
                Err(Fail::Violation(e)) => return Outcome::Violation { clause: "no-quiescence".into(), key: "hold".into(), msg: e },
                Err(Fail::Harness(e)) => return Outcome::Harness(e),
            };
            let kind = match req {
                Req::Roa { .. } => "roa",
                Req::Aspa { .. } => "aspa",
                Req::AspaProviders { .. } => "aspa-providers",
                Req::Bgpsec { .. } => "bgpsec",
                Req::ChildAdd { .. } => "child-add",
                Req::ChildUpdate { .. } => "child-update",
                Req::Hold { .. } => "hold",
            };
            if matches!(req, Req::Hold { .. }) {
                // not a judged request: refresh the state (ROAs etc. stay configured)
                st = match observe(&sim) {
                    Ok(s) => s,
                    Err(e) => return Outcome::Harness(e),
                };
                classes.insert("held_resources_changed".into());
                continue;
            }
            // requests that touch something configured whose backing resources were lost meanwhile
            match req {
                Req::Aspa { set, remove } => {
                    if set.iter().any(|(c, _)| st.aspas.contains_key(&asn(*c)) && !asn_held(&held, asn(*c)) && !remove.contains(c)) {
                        classes.insert("aspa_replace_of_definition_with_unheld_customer".into());
                    }
                }
                Req::AspaProviders { customer, .. } => {
                    if st.aspas.contains_key(&asn(*customer)) && !asn_held(&held, asn(*customer)) {
                        classes.insert("aspa_providers_of_definition_with_unheld_customer".into());
                    }
                }
                Req::Bgpsec { add, .. } => {
                    if add.iter().any(|(a, _)| st.bgpsec.iter().any(|b| b.0 == asn(*a)) && !asn_held(&held, asn(*a))) {
                        classes.insert("bgpsec_for_configured_unheld_asn".into());
                    }
                }
                _ => {}
            }
            // A provider update without effect on a definition whose customer
            // AS is no longer held "keeps something not backed by held
            // resources": krill refuses or ignores it depending on the order
            // in which the providers happen to be stored. The property allows
            // both; only "nothing changes" is required.
            let either = match (req, &expect) {
                (Req::AspaProviders { customer, .. }, Some(n)) => *n == st && !asn_held(&held, asn(*customer)) && st.aspas.contains_key(&asn(*customer)),
                _ => false,
            };
            let expect = if either && !got { None } else { expect };
            if got != expect.is_some() {
                return Outcome::Violation {
                    clause: "c05-verdict".into(),
                    key: format!("{kind}-{}", if got { "accepted-but-must-refuse" } else { "refused-but-must-accept" }),
                    msg: format!(
                        "request #{i} {req:?} was {} by krill but the reference procedure says {} (held: [{held}]; configured before: roas {:?} aspas {:?} bgpsec {:?} children {:?})",
                        if got { "accepted" } else { "refused" },
                        if expect.is_some() { "accept" } else { "refuse" },
                        st.roas.keys().collect::<Vec<_>>(),
                        st.aspas,
                        st.bgpsec.iter().map(|b| b.0).collect::<Vec<_>>(),
                        st.children.keys().collect::<Vec<_>>()
                    ),
                };
            }
            let now = match observe(&sim) {
                Ok(s) => s,
                Err(e) => return Outcome::Harness(e),
            };
            match expect {
                Some(n) => {
                    accepted += 1;
                    if let Req::ChildAdd { child, under_ta: true, .. } = req {
                        ta_children.insert(format!("k{}", child % 3));
                    }
                    if now != n {
                        return Outcome::Violation {
                            clause: "c05-applied-state".into(),
                            key: kind.into(),
                            msg: format!("request #{i} {req:?} was accepted but the configuration is {now:?}, expected {n:?}"),
                        };
                    }
                    st = n;
                }
                None => {
                    refused += 1;
                    if now != st {
                        return Outcome::Violation {
                            clause: "c05-refused-but-changed".into(),
                            key: format!("{kind}-configuration"),
                            msg: format!("request #{i} {req:?} was refused but the configuration changed from {st:?} to {now:?}"),
                        };
                    }
                    let served_after = sim.w().served_for(CA).unwrap_or_default();
                    if let Some(d) = crate::rrdpc::diff_maps("before", &served_before, "after", &served_after) {
                        return Outcome::Violation { clause: "c05-refused-but-changed".into(), key: format!("{kind}-repository"), msg: format!("request #{i} {req:?} was refused but the repository changed: {d}") };
                    }
                    let tasks_after: BTreeSet<String> = sim.w().pending_tasks().into_iter().map(|t| t.1).collect();
                    if tasks_after != tasks_before {
                        return Outcome::Violation { clause: "c05-refused-but-changed".into(), key: format!("{kind}-tasks"), msg: format!("request #{i} {req:?} was refused but scheduled tasks changed: {:?}", tasks_after.symmetric_difference(&tasks_before).collect::<Vec<_>>()) };
                    }
                    let v_after = version(&sim, CA);
                    if v_after > v_before + 1 {
                        return Outcome::Violation { clause: "c05-refused-but-changed".into(), key: format!("{kind}-audit"), msg: format!("request #{i} {req:?} was refused but {} commands were recorded", v_after - v_before) };
                    }
                }
            }
            // is the request a mix of valid and invalid entries?
            let entries = match req {
                Req::Roa { add, remove_existing, remove_other } => add.len() + remove_existing.len() + remove_other.len(),
                Req::Aspa { set, remove } => set.len() + remove.len(),
                Req::Bgpsec { add, remove_existing, remove_other } => add.len() + remove_existing.len() + remove_other.len(),
                _ => 1,
            };
            if entries >= 2 && !got {
                mixed += 1;
            }
            classes.insert(format!("{kind}:{}", if got { "accepted" } else { "refused" }));
        }
        let mut cl: Vec<String> = classes.into_iter().collect();
        if mixed > 0 {
            cl.push("multi_entry_request_refused".into());
        }
        let total = accepted + refused;
        if total > 0 {
            cl.push(format!("accept_rate:{}", (accepted * 4 / total).min(3)));
        }
        let nontrivial = mixed > 0 && accepted > 0;
        Outcome::Pass { nontrivial, classes: cl, size: total }
    }
}
