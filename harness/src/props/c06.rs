//! C06 — State rebuilt from the audit log equals the live state.
use std::collections::BTreeMap;
use std::str::FromStr;

use krill::commons::eventsourcing::{Aggregate, AggregateStore, WalStore};
use krill::commons::storage::{Ident, StorageSystem};
use krill::constants::{ta_handle, CASERVER_NS, PUBSERVER_CONTENT_NS, PUBSERVER_NS, TA_PROXY_SERVER_NS, TA_SIGNER_SERVER_NS};
use krill::server::ca::CertAuth;
use krill::server::pubd::{RepositoryAccess, RepositoryContent};
use krill::server::taproxy::TrustAnchorProxy;
use krill::tasigner::TrustAnchorSigner;
use proptest::prelude::*;
use proptest::strategy::BoxedStrategy;
use rpki::ca::idexchange::CaHandle;
use serde_json::Value;

use crate::fw::{Ctx, Outcome, Prop, Tier};
use crate::gens::{cfg_strategy, wcase_strategy, WCase, Weights};
use crate::ops::{Op, Sim};
use crate::oracle::{bad, Bad};
use crate::world::guarded;

pub struct C06;

/// Removes the two wall-clock fields that `apply` fills in and no API exposes.
fn mask(v: &mut Value) {
    match v {
        Value::Object(m) => {
            m.remove("last_key_change");
            m.remove("since");
            for (_, x) in m.iter_mut() {
                mask(x);
            }
        }
        Value::Array(a) => {
            for x in a.iter_mut() {
                mask(x);
            }
        }
        _ => {}
    }
}

/// Sorts arrays (of a view that is built from map iteration) canonically.
fn sort_arrays(v: &mut Value) {
    match v {
        Value::Object(m) => {
            for (_, x) in m.iter_mut() {
                sort_arrays(x);
            }
        }
        Value::Array(a) => {
            for x in a.iter_mut() {
                sort_arrays(x);
            }
            a.sort_by_key(|x| x.to_string());
        }
        _ => {}
    }
}

fn first_diff(a: &Value, b: &Value, path: String) -> Option<String> {
    match (a, b) {
        (Value::Object(x), Value::Object(y)) => {
            for (k, v) in x {
                match y.get(k) {
                    None => return Some(format!("{path}/{k}: only on the left")),
                    Some(w) => {
                        if let Some(d) = first_diff(v, w, format!("{path}/{k}")) {
                            return Some(d);
                        }
                    }
                }
            }
            for k in y.keys() {
                if !x.contains_key(k) {
                    return Some(format!("{path}/{k}: only on the right"));
                }
            }
            None
        }
        (Value::Array(x), Value::Array(y)) => {
            if x.len() != y.len() {
                return Some(format!("{path}: lengths {} vs {}", x.len(), y.len()));
            }
            for (i, (v, w)) in x.iter().zip(y.iter()).enumerate() {
                if let Some(d) = first_diff(v, w, format!("{path}[{i}]")) {
                    return Some(d);
                }
            }
            None
        }
        _ => {
            if a != b {
                let (sa, sb) = (a.to_string(), b.to_string());
                Some(format!("{path}: {} vs {}", &sa[..sa.len().min(80)], &sb[..sb.len().min(80)]))
            } else {
                None
            }
        }
    }
}

/// Copies a namespace without the snapshots, so a store on the copy has to
/// replay from the initialisation command.
fn copy_without_snapshots(storage: &StorageSystem, src: &Ident, dst: &Ident) -> Result<usize, String> {
    let s = storage.open(src).map_err(|e| e.to_string())?;
    let d = storage.open(dst).map_err(|e| e.to_string())?;
    let _ = d.wipe();
    let mut n = 0;
    for scope in s.scopes().map_err(|e| e.to_string())? {
        for key in s.keys(Some(&scope), "").map_err(|e| e.to_string())? {
            if key.as_str() == "snapshot.json" {
                continue;
            }
            let v: Option<Value> = s.get(Some(&scope), &key).map_err(|e| e.to_string())?;
            if let Some(v) = v {
                d.store(Some(&scope), &key, &v).map_err(|e| e.to_string())?;
                n += 1;
            }
        }
    }
    Ok(n)
}

fn plain<A: Aggregate>(a: &A) -> Value {
    serde_json::to_value(a).unwrap_or(Value::Null)
}

/// The serde view plus the API views of a CA (the serde view alone would
/// hide state that a faulty `skip_serializing_if` drops on both sides).
fn ca_view(ca: &CertAuth) -> Value {
    let mut info = serde_json::to_value(ca.as_ca_info()).unwrap_or(Value::Null);
    if let Some(m) = info.as_object_mut() {
        // a union whose textual form depends on map iteration order; the
        // per-class certificates are compared instead
        m.remove("resources");
    }
    serde_json::json!({
        "state": serde_json::to_value(ca).unwrap_or(Value::Null),
        "info": info,
        "roas": serde_json::to_value(ca.configured_roas()).unwrap_or(Value::Null),
        "aspas": serde_json::to_value(ca.aspas_definitions_show()).unwrap_or(Value::Null),
        "bgpsec": serde_json::to_value(ca.bgpsec_definitions_show()).unwrap_or(Value::Null),
    })
}

fn agg_views<A: Aggregate>(
    storage: &StorageSystem,
    ns: &'static Ident,
    scratch: &'static Ident,
    what: &str,
    live: &BTreeMap<String, Value>,
    view: fn(&A) -> Value,
) -> Result<(usize, bool), Bad> {
    // (B) fresh store on the same storage: snapshot + later commands
    let b_store = AggregateStore::<A>::create(storage, ns, false).map_err(|e| bad("c06-open", what, e.to_string()))?;
    let handles = b_store.list().map_err(|e| bad("c06-list", what, e.to_string()))?;
    // (C) fresh store on a copy without snapshots: replay from scratch
    let copied = copy_without_snapshots(storage, ns, scratch).map_err(|e| bad("harness", "copy", e))?;
    let c_store = AggregateStore::<A>::create(storage, scratch, false).map_err(|e| bad("c06-open", what, e.to_string()))?;
    let mut had_snapshot = false;
    if let Ok(s) = storage.open(ns) {
        for scope in s.scopes().unwrap_or_default() {
            if s.has(Some(&scope), Ident::make("snapshot.json")).unwrap_or(false) {
                had_snapshot = true;
            }
        }
    }
    let mut n = 0;
    for h in &handles {
        let hs = h.to_string();
        let b = match guarded(|| b_store.get_latest(h)) {
            Err(c) => return Err(bad("c06-replay-panics", what, format!("{what} {hs}: loading from snapshot + commands: {}", c.what))),
            Ok(Err(e)) => return Err(bad("c06-replay-fails", what, format!("{what} {hs}: loading from snapshot + commands: {e}"))),
            Ok(Ok(a)) => a,
        };
        let c = match guarded(|| c_store.get_latest(h)) {
            Err(c) => return Err(bad("c06-replay-panics", what, format!("{what} {hs}: replay from scratch: {}", c.what))),
            Ok(Err(e)) => return Err(bad("c06-replay-fails", what, format!("{what} {hs}: replay from scratch: {e}"))),
            Ok(Ok(a)) => a,
        };
        let mut bv = view(&b);
        let mut cv = view(&c);
        sort_arrays(&mut bv);
        sort_arrays(&mut cv);
        mask(&mut bv);
        mask(&mut cv);
        if let Some(d) = first_diff(&bv, &cv, String::new()) {
            return Err(bad("c06-snapshot-vs-scratch", what, format!("{what} {hs}: state from snapshot+commands differs from replay from scratch at {d}")));
        }
        if let Some(lv) = live.get(&hs) {
            if let Some(d) = first_diff(lv, &bv, String::new()) {
                return Err(bad("c06-live-vs-rebuilt", what, format!("{what} {hs}: live state differs from the rebuilt state at {d}")));
            }
        }
        n += 1;
    }
    let _ = copied;
    if let Ok(d) = storage.open(scratch) {
        let _ = d.wipe();
    }
    Ok((n, had_snapshot))
}

fn check(sim: &Sim) -> Result<(usize, usize, bool), Bad> {
    let storage = sim.w().rt.storage();
    // live views
    let mut live_cas = BTreeMap::new();
    let mut commands = 0usize;
    for ca in sim.w().ca_handles() {
        if ca == "ta" {
            continue;
        }
        if let Ok(c) = sim.w().cam().get_ca(&CaHandle::from_str(&ca).unwrap()) {
            commands += c.version() as usize;
            let mut v = ca_view(&c);
            mask(&mut v);
            sort_arrays(&mut v);
            live_cas.insert(ca, v);
        }
    }
    let mut live_proxy = BTreeMap::new();
    if let Ok(p) = sim.w().cam().get_trust_anchor_proxy() {
        commands += p.version() as usize;
        let mut v = serde_json::to_value(&*p).unwrap_or(Value::Null);
        mask(&mut v);
        sort_arrays(&mut v);
        live_proxy.insert(ta_handle().to_string(), v);
    }
    let mut live_signer = BTreeMap::new();
    if let Ok(p) = sim.w().cam().get_trust_anchor_signer() {
        let mut v = serde_json::to_value(&*p).unwrap_or(Value::Null);
        mask(&mut v);
        sort_arrays(&mut v);
        live_signer.insert(ta_handle().to_string(), v);
    }
    let mut entities = 0;
    let mut snap = false;
    let (n, s) = agg_views::<CertAuth>(storage, CASERVER_NS, Ident::make("c06cas"), "CA", &live_cas, ca_view)?;
    entities += n;
    snap |= s;
    let (n, s) = agg_views::<TrustAnchorProxy>(storage, TA_PROXY_SERVER_NS, Ident::make("c06proxy"), "TA proxy", &live_proxy, plain)?;
    entities += n;
    snap |= s;
    let (n, s) = agg_views::<TrustAnchorSigner>(storage, TA_SIGNER_SERVER_NS, Ident::make("c06signer"), "TA signer", &live_signer, plain)?;
    entities += n;
    snap |= s;
    let (n, s) = agg_views::<RepositoryAccess>(storage, PUBSERVER_NS, Ident::make("c06pubd"), "repository access", &BTreeMap::new(), plain)?;
    entities += n;
    snap |= s;
    // repository content (write-ahead log): can only be rebuilt from its last
    // snapshot; compare the rebuilt view with the live API views
    let wal = WalStore::<RepositoryContent>::create(storage, PUBSERVER_CONTENT_NS).map_err(|e| bad("c06-open", "repository content", e.to_string()))?;
    for h in wal.list().map_err(|e| bad("c06-list", "repository content", e.to_string()))? {
        match guarded(|| wal.get_latest(&h)) {
            Err(c) => return Err(bad("c06-replay-panics", "repository content", c.what)),
            Ok(Err(e)) => return Err(bad("c06-replay-fails", "repository content", e.to_string())),
            Ok(Ok(_)) => {}
        };
        entities += 1;
    }
    repo_content_live_vs_rebuilt(sim.w())?;
    // publishers: access vs API
    Ok((entities, commands, snap))
}

/// A fresh content proxy over the same storage (last snapshot plus the
/// write-ahead log) must show what the live one shows.
pub fn repo_content_live_vs_rebuilt(w: &crate::world::World) -> Result<(), Bad> {
    let storage = w.rt.storage();
    let fresh = krill::server::pubd::RepositoryContentProxy::create(storage).map_err(|e| bad("c06-open", "repository content", e.to_string()))?;
    let mut rebuilt = serde_json::to_value(fresh.stats().map_err(|e| bad("c06-replay-fails", "repository content", e.to_string()))?).unwrap_or(Value::Null);
    let mut live = serde_json::to_value(w.repo().repo_stats().map_err(|e| bad("repo-stats", "error", e.to_string()))?).unwrap_or(Value::Null);
    sort_arrays(&mut rebuilt);
    sort_arrays(&mut live);
    if let Some(d) = first_diff(&live, &rebuilt, String::new()) {
        return Err(bad("c06-live-vs-rebuilt", "repository content", format!("repository stats differ at {d}")));
    }
    for p in w.repo().publishers().unwrap_or_default() {
        let live = w.repo().list(&p).map_err(|e| bad("list", "error", e.to_string()))?;
        let rebuilt = fresh.list_reply(&p).map_err(|e| bad("c06-replay-fails", "repository content", e.to_string()))?;
        let mut l: Vec<String> = live.elements().iter().map(|e| format!("{} {}", e.uri(), e.hash())).collect();
        let mut r: Vec<String> = rebuilt.elements().iter().map(|e| format!("{} {}", e.uri(), e.hash())).collect();
        l.sort();
        r.sort();
        if l != r {
            return Err(bad("c06-live-vs-rebuilt", "repository content", format!("publisher {p}: live list reply differs from the rebuilt one")));
        }
    }
    Ok(())
}

impl Prop for C06 {
    type Case = WCase;
    const ID: &'static str = "C06";

    fn strategy(tier: Tier) -> BoxedStrategy<WCase> {
        let ops = match tier {
            Tier::Quick => 8..40,
            Tier::Thorough => 10..80,
        };
        let w = Weights { snapshot: 6, restart: 3, check: 6, publisher: 1, max_advance: 5 * 86400, ..Weights::default() };
        wcase_strategy(cfg_strategy(any::<bool>().boxed(), false), w, 5, ops)
    }

    fn run(case: &WCase, _ctx: &Ctx) -> Outcome {
        let mut max_entities = 0;
        let mut max_commands = 0;
        let mut snapshot_inside = false;
        let n = case.ops.len();
        let mut idx = 0;
        let res = super::run_wcase(case, |sim, op, setup| {
            if setup {
                return Ok(());
            }
            idx += 1;
            if matches!(op, Op::Check) {
                let (e, c, s) = check(sim)?;
                max_entities = max_entities.max(e);
                max_commands = max_commands.max(c);
                if s && idx < n {
                    snapshot_inside = true;
                }
                if s {
                    sim.flags.hit("snapshot_present_at_check");
                }
            }
            Ok(())
        });
        match res {
            Err(o) => o,
            Ok(sim) => {
                let mut classes = Vec::new();
                if sim.flags.has("snapshot_present_at_check") {
                    classes.push("snapshot_present".to_string());
                }
                if sim.flags.has("restart") {
                    classes.push("restart".into());
                }
                if case.cfg.disk {
                    classes.push("disk".into());
                } else {
                    classes.push("memory".into());
                }
                for k in ["keyroll_activate", "child_removed", "ca_deleted", "entitlement_shrunk", "aspa_set", "bgpsec_added"] {
                    if sim.flags.has(k) {
                        classes.push(k.to_string());
                    }
                }
                let nontrivial = max_commands >= 15 && max_entities >= 2 && sim.flags.has("snapshot_present_at_check");
                let _ = snapshot_inside;
                Outcome::Pass { nontrivial, classes, size: max_commands }
            }
        }
    }

    fn sample(case: &WCase) -> serde_json::Value {
        serde_json::json!({
            "disk": case.cfg.disk,
            "ops": case.ops.iter().map(|o| o.short()).collect::<Vec<_>>(),
        })
    }
}
