//! C16 — Untrusted input never brings the daemon down.
//!
//! Inputs: byte-level mutations of valid signed RFC 6492 / RFC 8181 messages,
//! XML-level mutations re-signed under a registered identity (so that the
//! message parser and the request handlers are reached, not only the CMS
//! decoder), random bytes, tree-level mutations of valid API JSON bodies that
//! are then fed to the manager call behind the route, and text notations.
use std::collections::BTreeMap;
use std::str::FromStr;

use bytes::Bytes;
use proptest::collection::vec;
use proptest::prelude::*;
use proptest::strategy::BoxedStrategy;
use rpki::ca::idexchange::{CaHandle, ChildHandle};
use serde::{Deserialize, Serialize};
use serde_json::Value;

use crate::fw::{Ctx, Outcome, Prop, Tier};
use crate::ops::Fail;
use crate::sigw::{Pay6492, Pay8181, PubEl, SigWorld, CHILDREN, PARENT, PUBLISHERS};
use crate::world::{guarded, WorldCfg};

pub struct C16;

#[derive(Clone, Debug, Serialize, Deserialize)]
pub enum ByteMut {
    Truncate(u16),
    Flip(u16),
    Set(u16, u8),
    Insert(u16, Vec<u8>),
    Delete(u16, u8),
    Dup(u16, u8),
}

/// Text-level mutation: the text is cut into tokens at `"`, `<`, `>`, `=`,
/// `/`, `:`, `,` and whitespace; the selected token is replaced.
#[derive(Clone, Debug, Serialize, Deserialize)]
pub enum TextMut {
    Replace(u16, u8),
    Delete(u16),
    Dup(u16),
    Truncate(u16),
    ReplaceB64(u16, u8),
}

#[derive(Clone, Debug, Serialize, Deserialize)]
pub enum JsonMut {
    /// replace the k-th leaf by the n-th nasty value
    Leaf(u16, u8),
    /// delete the k-th object member
    DropKey(u16),
    /// duplicate the k-th array element
    DupElem(u16),
    /// character-level edit of the k-th string leaf
    EditStr(u16, CharEdit),
}

/// Character-level edit of a valid notation: `what % 4` = replace / insert /
/// delete / truncate at the (scaled) character position, with the
/// `what / 4`-th replacement character (multi-byte characters, separators,
/// digits, invisible characters).
#[derive(Clone, Debug, Serialize, Deserialize)]
pub struct CharEdit {
    pub pos: u16,
    pub what: u8,
}

const REPL: &[&str] = &["é", "€", "𝄞", "\u{0}", "-", " ", "/", "=", ">", "0", "9", "A", "z", ".", ":", ",", "\u{feff}", "\u{202e}", "Ⅷ", "٣", "％", "ß", "\u{301}", "+", "%", "\"", "\\", "<", "&", "#"];

pub fn edit_chars(s: &str, edits: &[CharEdit]) -> String {
    let mut cs: Vec<char> = s.chars().collect();
    for e in edits {
        let r = REPL[(e.what as usize / 4) % REPL.len()];
        let i = idx(e.pos, cs.len() + 1);
        match e.what % 4 {
            0 if i < cs.len() => {
                cs.splice(i..i + 1, r.chars());
            }
            0 | 1 => {
                cs.splice(i..i, r.chars());
            }
            2 if i < cs.len() => {
                cs.remove(i);
            }
            2 => {}
            _ => cs.truncate(i),
        }
    }
    cs.into_iter().collect()
}

pub fn char_edit() -> impl Strategy<Value = CharEdit> {
    (any::<u16>(), any::<u8>()).prop_map(|(pos, what)| CharEdit { pos, what })
}

const VALID_TEXT: &[(&str, &[&str])] = &[
    ("RoaPayload", &["10.0.0.0/16-18 => 64496", "2001:db8::/32 => 64497", "10.1.0.0/24 => 0", "10.0.0.0/8-32 => 4294967295"]),
    ("AspaDef", &["AS64496 => AS64497, AS64498", "AS64500 => <none>", "AS65000 => AS65001"]),
    ("Resources", &["AS64496-AS64500", "10.0.0.0/12, 10.32.0.0-10.47.255.255", "2001:db8::/32"]),
    ("Handle", &["c1", "some-handle_1", "p"]),
    ("BgpsecKey", &["ROUTER-0000FBF0-6E3B8B4F5DCD0F4A5E0A8F3F0B0E0D0C0B0A0908", "ROUTER-00010000-17316903F0671229E8808BA8E8AB0105FA915A07"]),
    ("Uri", &["rsync://krill.example.org/repo/c1/0/file.roa", "rsync://krill.example.org/repo/"]),
];

#[derive(Clone, Debug, Serialize, Deserialize)]
pub enum JsonKind {
    Roa,
    Aspa,
    Bgpsec,
    AddChild,
    UpdateChild,
    ParentReq,
    RepoContact,
    Import,
}

#[derive(Clone, Debug, Serialize, Deserialize)]
pub enum TextKind {
    RoaPayload,
    AspaDef,
    Resources,
    Handle,
    BgpsecKey,
    Uri,
}

#[derive(Clone, Debug, Serialize, Deserialize)]
pub enum In {
    Cms6492 { sender: u8, pay: Pay6492, muts: Vec<ByteMut> },
    Cms8181 { to: u8, pay: Pay8181, muts: Vec<ByteMut> },
    Xml6492 { sender: u8, pay: Pay6492, muts: Vec<TextMut> },
    Xml8181 { to: u8, pay: Pay8181, muts: Vec<TextMut> },
    Raw { to6492: bool, bytes: Vec<u8> },
    /// arbitrary content bytes under a valid signature
    SignedRaw { to6492: bool, bytes: Vec<u8> },
    Json { kind: JsonKind, muts: Vec<JsonMut> },
    Text { kind: TextKind, a: u8, b: u8, c: u8, glue: u8 },
    /// a valid notation with character-level edits
    TextEdit { kind: TextKind, seed: u8, edits: Vec<CharEdit> },
}

#[derive(Clone, Debug, Serialize, Deserialize)]
pub struct Case {
    pub key_start: u16,
    pub inputs: Vec<In>,
    /// HTTP part: requests to the real daemon (then `inputs` is empty)
    #[serde(default)]
    pub http: Option<Vec<super::c16h::HttpIn>>,
}

const NASTY: &[&str] = &[
    "", "0", "-1", "1", "255", "256", "4294967295", "4294967296", "18446744073709551616", "-9223372036854775809", "1e400", "0.5",
    "10.0.0.0/33", "10.0.0.0/8-7", "10.0.0.0/8-255", "10.0.0.0/8-33", "10.0.0.0/0", "0.0.0.0/0", "::/0", "::/0-129", "2001:db8::/129", "2001:db8::/32-31",
    "10.0.0.0/", "/8", "10.0.0.1/8", "10.0.0.0/8 => 64496", "10.0.0.0/8-4 => 64496", "10.0.0.0/8 => 64496 => 1", "=>", "10.0.0.0/8-", "::ffff:10.0.0.0/104",
    "AS", "AS-1", "AS4294967296", "AS0", "AS64496", "64496", "AS64496 => AS64496", "AS64496 => ", "AS64496 => AS64497, AS64497", "AS64496 => <none>",
    "AS64496-AS64400", "AS1-AS4294967295", "10.0.0.0-9.0.0.0", "10.0.0.0-10.0.0.255", "inherit", "all", "none",
    "ta", "testbed", "p", "c1", "../..", "..", ".", "a/b", "a b", "%2F", "%00", "\u{0}", "ä", "𝔘", "\u{202e}", " ", "\n", "\t",
    "rsync://", "rsync://krill.example.org", "rsync://krill.example.org/repo/../x", "rsync://krill.example.org/repo/pub1", "https://", "https://[::1", "http://x/",
    "ROUTER-00000000-", "ROUTER-FFFFFFFFF-00", "ROUTER-0000FBF0-6E3B8B4F5DCD0F4A5E0A8F3F0B0E0D0C0B0A0908", "ROUTER-zz",
    "<![CDATA[", "]]>", "<!--", "&amp;", "&#0;", "&#x110000;", "<!DOCTYPE x [<!ENTITY a \"aaaa\">]>", "&a;", "<?xml version=\"1.0\"?>",
    "AAAA", "====", "A", "MIIB", "MIIBIjANBgkqhkiG9w0BAQEFAAOCAQ8AMIIBCgKCAQEA", "!!!!",
    "version", "4", "3", "type", "publish", "withdraw", "list", "issue", "revoke", "error_response", "1101", "class_name", "0",
];

pub fn nasty(n: u8) -> String {
    let i = n as usize % (NASTY.len() + 3);
    match i.checked_sub(NASTY.len()) {
        None => NASTY[i].to_string(),
        Some(0) => "A".repeat(70_000),
        Some(1) => "9".repeat(400),
        Some(_) => "/".repeat(300),
    }
}

fn nasty_json(n: u8) -> Value {
    match n % 16 {
        0 => Value::Null,
        1 => Value::Bool(true),
        2 => serde_json::json!(-1),
        3 => serde_json::json!(4294967296u64),
        4 => serde_json::json!(18446744073709551615u64),
        5 => serde_json::json!(1.5),
        6 => serde_json::json!([]),
        7 => serde_json::json!({}),
        8 => serde_json::json!([[[[[[]]]]]]),
        9 => serde_json::json!(255),
        10 => serde_json::json!(129),
        11 => serde_json::json!(0),
        _ => Value::String(nasty(n.wrapping_mul(7).wrapping_add(n >> 4))),
    }
}

fn idx(sel: u16, len: usize) -> usize {
    if len == 0 {
        0
    } else {
        ((sel as usize) * len) >> 16
    }
}

fn mutate_bytes(b: &[u8], muts: &[ByteMut]) -> Vec<u8> {
    let mut v = b.to_vec();
    for m in muts {
        if v.is_empty() {
            break;
        }
        match m {
            ByteMut::Truncate(s) => v.truncate(idx(*s, v.len())),
            ByteMut::Flip(s) => {
                let i = idx(*s, v.len() * 8);
                v[i / 8] ^= 1 << (i % 8);
            }
            ByteMut::Set(s, x) => {
                let i = idx(*s, v.len());
                v[i] = *x;
            }
            ByteMut::Insert(s, x) => {
                let i = idx(*s, v.len());
                v.splice(i..i, x.iter().copied());
            }
            ByteMut::Delete(s, n) => {
                let i = idx(*s, v.len());
                let e = (i + *n as usize).min(v.len());
                v.drain(i..e);
            }
            ByteMut::Dup(s, n) => {
                let i = idx(*s, v.len());
                let e = (i + *n as usize).min(v.len());
                let part: Vec<u8> = v[i..e].to_vec();
                v.splice(i..i, part);
            }
        }
    }
    v
}

fn tokens(s: &str) -> Vec<String> {
    let mut out = Vec::new();
    let mut cur = String::new();
    for ch in s.chars() {
        if "\"<>=/:, \n".contains(ch) {
            if !cur.is_empty() {
                out.push(std::mem::take(&mut cur));
            }
            out.push(ch.to_string());
        } else {
            cur.push(ch);
        }
    }
    if !cur.is_empty() {
        out.push(cur);
    }
    out
}

pub fn mutate_text(s: &str, muts: &[TextMut]) -> String {
    let mut t = tokens(s);
    for m in muts {
        if t.is_empty() {
            break;
        }
        // only "word" tokens are targets of replacement
        let words: Vec<usize> = t.iter().enumerate().filter(|(_, x)| x.len() > 1 || x.chars().all(|c| c.is_alphanumeric())).map(|(i, _)| i).collect();
        match m {
            TextMut::Replace(s, n) => {
                if !words.is_empty() {
                    t[words[idx(*s, words.len())]] = nasty(*n);
                }
            }
            TextMut::Delete(s) => {
                let i = idx(*s, t.len());
                t.remove(i);
            }
            TextMut::Dup(s) => {
                let i = idx(*s, t.len());
                let e = (i + 12).min(t.len());
                let part: Vec<String> = t[i..e].to_vec();
                t.splice(i..i, part);
            }
            TextMut::Truncate(s) => t.truncate(idx(*s, t.len())),
            TextMut::ReplaceB64(s, n) => {
                // the long tokens are the base64 bodies (certificates, CSRs, objects)
                let long: Vec<usize> = t.iter().enumerate().filter(|(_, x)| x.len() > 40).map(|(i, _)| i).collect();
                if !long.is_empty() {
                    let i = long[idx(*s, long.len())];
                    let cur = t[i].clone();
                    t[i] = match n % 5 {
                        0 => cur[..cur.len() / 2].to_string(),
                        1 => {
                            // valid base64 of damaged DER
                            use base64::Engine;
                            let mut der = base64::engine::general_purpose::STANDARD.decode(cur.as_bytes()).unwrap_or_default();
                            if !der.is_empty() {
                                let k = (*n as usize * 31) % der.len();
                                der[k] ^= 0xff;
                                der.truncate(der.len() - (*n as usize % 7));
                            }
                            base64::engine::general_purpose::STANDARD.encode(der)
                        }
                        2 => "AAAA".into(),
                        3 => format!("{cur}{cur}"),
                        _ => nasty(*n),
                    };
                }
            }
        }
    }
    t.concat()
}

fn leaves(v: &mut Value, out: &mut Vec<*mut Value>) {
    match v {
        Value::Object(m) => m.values_mut().for_each(|x| leaves(x, out)),
        Value::Array(a) => a.iter_mut().for_each(|x| leaves(x, out)),
        _ => out.push(v as *mut Value),
    }
}

fn containers(v: &mut Value, objs: bool, out: &mut Vec<*mut Value>) {
    match v {
        Value::Object(m) => {
            if objs && !m.is_empty() {
                out.push(v as *mut Value);
            }
            if let Value::Object(m) = v {
                m.values_mut().for_each(|x| containers(x, objs, out));
            }
        }
        Value::Array(a) => {
            if !objs && !a.is_empty() {
                out.push(v as *mut Value);
            }
            if let Value::Array(a) = v {
                a.iter_mut().for_each(|x| containers(x, objs, out));
            }
        }
        _ => {}
    }
}

pub fn mutate_json(mut v: Value, muts: &[JsonMut]) -> Value {
    for m in muts {
        match m {
            JsonMut::Leaf(s, n) => {
                let mut ls = Vec::new();
                leaves(&mut v, &mut ls);
                if !ls.is_empty() {
                    let p = ls[idx(*s, ls.len())];
                    // SAFETY: the pointers were just collected from `v`, which is not touched in between
                    unsafe { *p = nasty_json(*n) };
                }
            }
            JsonMut::EditStr(s, e) => {
                let mut ls = Vec::new();
                leaves(&mut v, &mut ls);
                let strs: Vec<*mut Value> = ls.into_iter().filter(|p| unsafe { (**p).is_string() }).collect();
                if !strs.is_empty() {
                    let p = strs[idx(*s, strs.len())];
                    unsafe {
                        let cur = (*p).as_str().unwrap_or("").to_string();
                        *p = Value::String(edit_chars(&cur, std::slice::from_ref(e)));
                    }
                }
            }
            JsonMut::DropKey(s) => {
                let mut cs = Vec::new();
                containers(&mut v, true, &mut cs);
                if !cs.is_empty() {
                    let p = cs[idx(*s, cs.len())];
                    // SAFETY: as above
                    if let Value::Object(m) = unsafe { &mut *p } {
                        let k = m.keys().nth(idx(s.wrapping_mul(31), m.len())).cloned();
                        if let Some(k) = k {
                            m.remove(&k);
                        }
                    }
                }
            }
            JsonMut::DupElem(s) => {
                let mut cs = Vec::new();
                containers(&mut v, false, &mut cs);
                if !cs.is_empty() {
                    let p = cs[idx(*s, cs.len())];
                    // SAFETY: as above
                    if let Value::Array(a) = unsafe { &mut *p } {
                        let e = a[idx(s.wrapping_mul(17), a.len())].clone();
                        a.push(e);
                    }
                }
            }
        }
    }
    v
}

//------------ strategies -----------------------------------------------------

fn pay6492() -> impl Strategy<Value = Pay6492> {
    prop_oneof![
        1 => Just(Pay6492::List),
        3 => (0u8..4, 0u8..3, 0u8..4).prop_map(|(key, class, limit)| Pay6492::Issue { key, class, limit }),
        2 => (0u8..4, 0u8..3).prop_map(|(key, class)| Pay6492::Revoke { key, class }),
    ]
}

fn pay8181() -> impl Strategy<Value = Pay8181> {
    let el = prop_oneof![
        (0u8..4, 0u8..4, 0u8..6).prop_map(|(owner, name, content)| PubEl::Publish { owner, name, content }),
        (0u8..4, 0u8..4, 0u8..6, any::<bool>()).prop_map(|(owner, name, content, right_hash)| PubEl::Update { owner, name, content, right_hash }),
        (0u8..4, 0u8..4, any::<bool>()).prop_map(|(owner, name, right_hash)| PubEl::Withdraw { owner, name, right_hash }),
    ];
    prop_oneof![1 => Just(Pay8181::List), 4 => vec(el, 1..4).prop_map(Pay8181::Delta)]
}

fn byte_mut() -> impl Strategy<Value = ByteMut> {
    prop_oneof![
        2 => any::<u16>().prop_map(ByteMut::Truncate),
        4 => any::<u16>().prop_map(ByteMut::Flip),
        4 => (any::<u16>(), prop_oneof![Just(0u8), Just(0xff), Just(0x80), Just(0x30), Just(0x7f), any::<u8>()]).prop_map(|(a, b)| ByteMut::Set(a, b)),
        2 => (any::<u16>(), vec(any::<u8>(), 1..8)).prop_map(|(a, b)| ByteMut::Insert(a, b)),
        2 => (any::<u16>(), 1u8..40).prop_map(|(a, b)| ByteMut::Delete(a, b)),
        1 => (any::<u16>(), 1u8..40).prop_map(|(a, b)| ByteMut::Dup(a, b)),
    ]
}

pub fn text_mut() -> impl Strategy<Value = TextMut> {
    prop_oneof![
        8 => (any::<u16>(), any::<u8>()).prop_map(|(a, b)| TextMut::Replace(a, b)),
        2 => any::<u16>().prop_map(TextMut::Delete),
        1 => any::<u16>().prop_map(TextMut::Dup),
        1 => any::<u16>().prop_map(TextMut::Truncate),
        3 => (any::<u16>(), any::<u8>()).prop_map(|(a, b)| TextMut::ReplaceB64(a, b)),
    ]
}

pub fn json_mut() -> impl Strategy<Value = JsonMut> {
    prop_oneof![
        8 => (any::<u16>(), any::<u8>()).prop_map(|(a, b)| JsonMut::Leaf(a, b)),
        1 => any::<u16>().prop_map(JsonMut::DropKey),
        1 => any::<u16>().prop_map(JsonMut::DupElem),
        4 => (any::<u16>(), char_edit()).prop_map(|(a, b)| JsonMut::EditStr(a, b)),
    ]
}

fn input() -> impl Strategy<Value = In> {
    let jk = prop_oneof![
        4 => Just(JsonKind::Roa),
        3 => Just(JsonKind::Aspa),
        3 => Just(JsonKind::Bgpsec),
        2 => Just(JsonKind::AddChild),
        2 => Just(JsonKind::UpdateChild),
        2 => Just(JsonKind::ParentReq),
        1 => Just(JsonKind::RepoContact),
        2 => Just(JsonKind::Import),
    ];
    let tk = prop_oneof![Just(TextKind::RoaPayload), Just(TextKind::AspaDef), Just(TextKind::Resources), Just(TextKind::Handle), Just(TextKind::BgpsecKey), Just(TextKind::Uri)];
    prop_oneof![
        3 => (0u8..2, pay6492(), vec(byte_mut(), 1..4)).prop_map(|(sender, pay, muts)| In::Cms6492 { sender, pay, muts }),
        3 => (0u8..2, pay8181(), vec(byte_mut(), 1..4)).prop_map(|(to, pay, muts)| In::Cms8181 { to, pay, muts }),
        6 => (0u8..2, pay6492(), vec(text_mut(), 1..4)).prop_map(|(sender, pay, muts)| In::Xml6492 { sender, pay, muts }),
        6 => (0u8..2, pay8181(), vec(text_mut(), 1..4)).prop_map(|(to, pay, muts)| In::Xml8181 { to, pay, muts }),
        1 => (any::<bool>(), vec(any::<u8>(), 0..200)).prop_map(|(to6492, bytes)| In::Raw { to6492, bytes }),
        2 => (any::<bool>(), vec(any::<u8>(), 0..200)).prop_map(|(to6492, bytes)| In::SignedRaw { to6492, bytes }),
        8 => (jk, vec(json_mut(), 0..4)).prop_map(|(kind, muts)| In::Json { kind, muts }),
        4 => (tk.clone(), any::<u8>(), any::<u8>(), any::<u8>(), 0u8..6).prop_map(|(kind, a, b, c, glue)| In::Text { kind, a, b, c, glue }),
        6 => (tk, any::<u8>(), vec(char_edit(), 1..3)).prop_map(|(kind, seed, edits)| In::TextEdit { kind, seed, edits }),
    ]
}

//------------ running --------------------------------------------------------

struct Run {
    sw: SigWorld,
    stats: BTreeMap<String, usize>,
    /// signatures of known findings to step over (empty in strict mode)
    known: Vec<String>,
}

fn digest(sw: &SigWorld) -> Result<String, Fail> {
    let obs = sw.observe()?;
    let ca = sw.parent()?;
    let served = sw.w.served().map_err(Fail::Harness)?;
    let v = serde_json::json!({
        "children": format!("{:?}", obs.children),
        "publishers": format!("{:?}", obs.publishers),
        "id": obs.parent_id_key,
        "roas": serde_json::to_value(ca.configured_roas()).unwrap_or(Value::Null),
        "aspas": serde_json::to_value(ca.aspas_definitions_show()).unwrap_or(Value::Null),
        "bgpsec": serde_json::to_value(ca.bgpsec_definitions_show()).unwrap_or(Value::Null),
        "parents": serde_json::to_value(ca.as_ca_info()).ok().and_then(|v| v.get("parents").cloned()),
        "served": served.iter().map(|(k, v)| format!("{k}:{}", v.len())).collect::<Vec<_>>(),
    });
    Ok(v.to_string())
}

type StepRes = Result<Result<(), (String, String, String)>, Fail>;

impl Run {
    fn hit(&mut self, k: &str) {
        *self.stats.entry(k.to_string()).or_default() += 1;
    }

    /// Runs `f` (the request), which reports Ok/Err as krill did; checks
    /// "no crash" and "an error changes nothing".
    fn request(&mut self, label: &str, f: impl FnOnce(&SigWorld) -> Result<(), String>) -> StepRes {
        let before = digest(&self.sw)?;
        let res = match guarded(|| f(&self.sw)) {
            Ok(r) => r,
            Err(c) => {
                // a panic is identified by where it is raised, an exit by its site
                let (clause, key) = if c.what.starts_with("EXIT") {
                    ("c16-exit", super::crash_key(&c.what))
                } else {
                    ("c16-panic", crate::world::last_panic_location().unwrap_or_else(|| super::crash_key(&c.what)))
                };
                if self.known.iter().any(|k| format!("{clause}:{key}").starts_with(k.as_str())) {
                    crate::fw::soft_known(&format!("{clause}:{key}"), &format!("{label}: {}", c.what));
                    self.hit("known_panic_stepped_over");
                    return Ok(Ok(()));
                }
                return Ok(Err((clause.into(), key, format!("{label}: {}", c.what))));
            }
        };
        match res {
            Ok(()) => self.hit(&format!("{label}:accepted")),
            Err(e) => {
                self.hit(&if e.starts_with("decode: ") { format!("{label}:rejected-by-decoder") } else { format!("{label}:error") });
                let after = digest(&self.sw)?;
                if before != after {
                    return Ok(Err(("c16-error-changed-state".into(), label.into(), format!("{label}: request failed ({e}) but configuration or content changed"))));
                }
            }
        }
        Ok(Ok(()))
    }

    fn step(&mut self, input: &In) -> StepRes {
        match input {
            In::Cms6492 { sender, pay, muts } => {
                let s = CHILDREN[*sender as usize % 2];
                let id = self.sw.child_id[s];
                let msg = self.sw.msg6492(s, PARENT, pay)?;
                let bytes = Bytes::from(mutate_bytes(&self.sw.sign6492(msg, id)?, muts));
                self.request("rfc6492-cms", move |sw| sw.w.cam().rfc6492(&CaHandle::from_str(PARENT).unwrap(), bytes, None, &sw.w.actor, &sw.w.rt).map(|_| ()).map_err(|e| e.to_string()))
            }
            In::Cms8181 { to, pay, muts } => {
                let p = PUBLISHERS[*to as usize % 2];
                let id = self.sw.pub_id[p];
                let msg = self.sw.msg8181(pay)?;
                let bytes = Bytes::from(mutate_bytes(&self.sw.sign8181(msg, id)?, muts));
                self.request("rfc8181-cms", move |sw| sw.w.repo().rfc8181(rpki::ca::idexchange::PublisherHandle::from_str(p).unwrap(), bytes, &sw.w.rt).map(|_| ()).map_err(|e| e.to_string()))
            }
            In::Xml6492 { sender, pay, muts } => {
                let s = CHILDREN[*sender as usize % 2];
                let id = self.sw.child_id[s];
                let xml = self.sw.msg6492(s, PARENT, pay)?.to_xml_string();
                let bytes = self.sw.sign_raw(Bytes::from(mutate_text(&xml, muts).into_bytes()), id)?;
                self.request("rfc6492-xml", move |sw| sw.w.cam().rfc6492(&CaHandle::from_str(PARENT).unwrap(), bytes, None, &sw.w.actor, &sw.w.rt).map(|_| ()).map_err(|e| e.to_string()))
            }
            In::Xml8181 { to, pay, muts } => {
                let p = PUBLISHERS[*to as usize % 2];
                let id = self.sw.pub_id[p];
                let xml = String::from_utf8_lossy(self.sw.msg8181(pay)?.to_xml_bytes().as_ref()).to_string();
                let bytes = self.sw.sign_raw(Bytes::from(mutate_text(&xml, muts).into_bytes()), id)?;
                self.request("rfc8181-xml", move |sw| sw.w.repo().rfc8181(rpki::ca::idexchange::PublisherHandle::from_str(p).unwrap(), bytes, &sw.w.rt).map(|_| ()).map_err(|e| e.to_string()))
            }
            In::Raw { to6492, bytes } | In::SignedRaw { to6492, bytes } => {
                let signed = matches!(input, In::SignedRaw { .. });
                let b = if signed {
                    let id = if *to6492 { self.sw.child_id[CHILDREN[0]] } else { self.sw.pub_id[PUBLISHERS[0]] };
                    self.sw.sign_raw(Bytes::from(bytes.clone()), id)?
                } else {
                    Bytes::from(bytes.clone())
                };
                if *to6492 {
                    self.request("rfc6492-raw", move |sw| sw.w.cam().rfc6492(&CaHandle::from_str(PARENT).unwrap(), b, None, &sw.w.actor, &sw.w.rt).map(|_| ()).map_err(|e| e.to_string()))
                } else {
                    self.request("rfc8181-raw", move |sw| sw.w.repo().rfc8181(rpki::ca::idexchange::PublisherHandle::from_str(PUBLISHERS[0]).unwrap(), b, &sw.w.rt).map(|_| ()).map_err(|e| e.to_string()))
                }
            }
            In::Json { kind, muts } => self.json(kind, muts),
            In::Text { kind, a, b, c, glue } => {
                let g = ["", " ", " => ", "-", "/", ", "][*glue as usize % 6];
                let s = format!("{}{g}{}{g}{}", nasty(*a), nasty(*b), nasty(*c));
                self.text(kind, s, [nasty(*a), nasty(*b), nasty(*c)])
            }
            In::TextEdit { kind, seed, edits } => {
                let name = format!("{kind:?}");
                let seeds = VALID_TEXT.iter().find(|(k, _)| *k == name).map(|(_, v)| *v).unwrap_or(&["x"]);
                let pick = seeds[*seed as usize % seeds.len()];
                let s = edit_chars(pick, edits);
                // resource sets: one of the three parts is edited
                let mut parts = [seeds[0].to_string(), seeds.get(1).unwrap_or(&"").to_string(), seeds.get(2).unwrap_or(&"").to_string()];
                let k = *seed as usize % 3;
                parts[k] = edit_chars(&parts[k].clone(), edits);
                self.text(kind, s, parts)
            }
        }
    }

    fn json(&mut self, kind: &JsonKind, muts: &[JsonMut]) -> StepRes {
        use krill::api;
        let csr = crate::csr::pool()[0].0.clone();
        let idc = krill::api::ca::IdCertInfo::from(&self.sw.ids[4].cert).base64.to_string();
        let base = match kind {
            JsonKind::Roa => serde_json::json!({"added": [{"asn": 64496, "prefix": "10.0.0.0/16", "max_length": 18, "comment": "x"}, {"asn": 64497, "prefix": "2001:db8::/32"}], "removed": []}),
            JsonKind::Aspa => serde_json::json!({"add_or_replace": [{"customer": 64496, "providers": [64497, 64498]}], "remove": []}),
            JsonKind::Bgpsec => serde_json::json!({"add": [{"asn": 64496, "csr": csr}], "remove": ["ROUTER-0000FBF0-6E3B8B4F5DCD0F4A5E0A8F3F0B0E0D0C0B0A0908"]}),
            JsonKind::AddChild => serde_json::json!({"handle": "c3", "resources": {"asn": "AS64530", "ipv4": "10.128.0.0/16", "ipv6": ""}, "id_cert": idc}),
            // one part per request: krill applies the parts of a child update as separate
            // commands, so a request with several parts can be applied partially by design
            JsonKind::UpdateChild => {
                if muts.len() % 2 == 0 {
                    serde_json::json!({"id_cert": null, "resources": {"asn": "AS64496-AS64500", "ipv4": "10.0.0.0/12", "ipv6": ""}, "suspend": null})
                } else {
                    serde_json::json!({"resources": null, "suspend": null, "resource_class_name_mapping": {"name_in_parent": "0", "name_for_child": "mine"}})
                }
            }
            JsonKind::ParentReq => serde_json::json!({"handle": "other", "response": {"tag": null, "id_cert": idc, "parent_handle": "other", "child_handle": "p", "service_uri": "https://other.example.org/rfc6492/other"}}),
            JsonKind::RepoContact => serde_json::json!({"repository_response": {"tag": null, "id_cert": idc, "publisher_handle": "p", "service_uri": "https://other.example.org/rfc8181/p", "repo_info": {"sia_base": "rsync://other.example.org/repo/p/", "rrdp_notification_uri": "https://other.example.org/rrdp/notification.xml"}}}),
            JsonKind::Import => serde_json::json!({"ta": {"ta_aia": "rsync://krill.example.org/ta/ta.cer", "ta_uri": "https://krill.example.org/ta/ta.cer", "ta_key_pem": null},
                "cas": [{"handle": "n1", "parent": [{"handle": "ta", "resources": {"asn": "AS64496", "ipv4": "10.0.0.0/16", "ipv6": ""}}], "roas": [{"asn": 64496, "prefix": "10.0.0.0/16", "max_length": 16}]},
                        {"handle": "n2", "parent": [{"handle": "n1", "resources": {"asn": "", "ipv4": "10.0.0.0/24", "ipv6": ""}}], "roas": []}]}),
        };
        let text = mutate_json(base, muts).to_string();
        let parent = CaHandle::from_str(PARENT).unwrap();
        let dec = |e: serde_json::Error| format!("decode: {e}");
        match kind {
            JsonKind::Roa => self.request("json-roa", move |sw| {
                let upd = serde_json::from_str::<api::roa::RoaConfigurationUpdates>(&text).map_err(dec)?;
                // the route also offers a dry run with an analysis of the update
                {
                    let ca = sw.parent().map_err(|_| "no parent".to_string())?;
                    let mut u = upd.clone();
                    u.set_explicit_max_length();
                    let held = ca.all_resources();
                    let limit = Some(u.affected_prefixes());
                    if let Ok(routes) = ca.get_updated_authorizations(&u) {
                        let cfgs = routes.roa_configurations();
                        let cr = ca.configured_roas_for_configs(cfgs);
                        let _ = sw.w.rt.bgp_analyser().analyse(&cr, &held, limit);
                    }
                }
                sw.w.roa_update(PARENT, upd).map_err(|e| e.to_string())
            }),
            JsonKind::Aspa => self.request("json-aspa", move |sw| {
                let upd = serde_json::from_str::<api::aspa::AspaDefinitionUpdates>(&text).map_err(dec)?;
                sw.w.aspa_update(PARENT, upd).map_err(|e| e.to_string())
            }),
            JsonKind::Bgpsec => self.request("json-bgpsec", move |sw| {
                let upd = serde_json::from_str::<api::bgpsec::BgpSecDefinitionUpdates>(&text).map_err(dec)?;
                sw.w.bgpsec_update(PARENT, upd).map_err(|e| e.to_string())
            }),
            JsonKind::AddChild => {
                let r = self.request("json-add-child", move |sw| {
                    let req = serde_json::from_str::<api::admin::AddChildRequest>(&text).map_err(dec)?;
                    sw.w.cam().ca_add_child(&parent, req, &sw.w.actor, &sw.w.rt).map(|_| ()).map_err(|e| e.to_string())
                });
                // keep the set of children fixed for the other inputs
                if let Ok(ca) = self.sw.parent() {
                    let extra: Vec<String> = ca.children().map(|c| c.to_string()).filter(|c| !CHILDREN.contains(&c.as_str())).collect();
                    for c in extra {
                        let _ = self.sw.w.child_remove(PARENT, &c);
                    }
                }
                r
            }
            JsonKind::UpdateChild => self.request("json-update-child", move |sw| {
                let req = serde_json::from_str::<api::admin::UpdateChildRequest>(&text).map_err(dec)?;
                sw.w.cam().ca_child_update(&parent, ChildHandle::from_str(CHILDREN[1]).unwrap(), req, &sw.w.actor, &sw.w.rt).map_err(|e| e.to_string())
            }),
            JsonKind::ParentReq => {
                let r = self.request("json-parent", move |sw| {
                    let req = serde_json::from_str::<api::admin::ParentCaReq>(&text).map_err(dec)?;
                    sw.w.cam().ca_parent_add_or_update(parent, req, &sw.w.actor, &sw.w.rt).map_err(|e| e.to_string())
                });
                if let Ok(ca) = self.sw.parent() {
                    let extra: Vec<String> = ca.parents().map(|p| p.to_string()).filter(|p| p != "ta").collect();
                    for p in extra {
                        let _ = self.sw.w.parent_remove(PARENT, &p);
                    }
                }
                r
            }
            JsonKind::RepoContact => self.request("json-repo", move |_sw| {
                // decoding and validating is the client-facing part; changing the repository of
                // `p` would start a migration to an unreachable server and is not exercised
                let c = serde_json::from_str::<api::admin::ApiRepositoryContact>(&text).map_err(dec)?;
                api::admin::RepositoryContact::try_from_response(c.repository_response).map(|_| ()).map_err(|e| format!("decode: {e}"))
            }),
            JsonKind::Import => self.request("json-import", move |_sw| {
                let structure = serde_json::from_str::<api::import::Structure>(&text).map_err(dec)?;
                structure.validate_ca_hierarchy(Default::default()).map_err(|e| e.to_string())
            }),
        }
    }

    fn text(&mut self, kind: &TextKind, s: String, parts: [String; 3]) -> StepRes {
        let label = format!("text-{kind:?}");
        let kind = kind.clone();
        self.request(&label, move |sw| match kind {
            TextKind::RoaPayload => {
                let p = krill::api::roa::RoaPayload::from_str(&s).map_err(|e| e.to_string())?;
                let _ = p.max_length_valid();
                let _ = p.to_string();
                // what the route does with a payload
                let upd = krill::api::roa::RoaConfigurationUpdates { added: vec![krill::api::roa::RoaConfiguration { payload: p.into(), comment: None }], removed: vec![] };
                sw.w.roa_update(PARENT, upd).map_err(|e| e.to_string())
            }
            TextKind::AspaDef => {
                let d = krill::api::aspa::AspaDefinition::from_str(&s).map_err(|e| e.to_string())?;
                let _ = d.to_string();
                Ok(())
            }
            TextKind::Resources => {
                let r = rpki::repository::resources::ResourceSet::from_strs(&parts[0], &parts[1], &parts[2]).map_err(|e| e.to_string())?;
                let _ = r.to_string();
                let req = krill::api::admin::UpdateChildRequest::resources(r);
                sw.w.child_update(PARENT, CHILDREN[1], req)
            }
            TextKind::Handle => {
                // path segments naming a CA, a child, a publisher
                let h = CaHandle::from_str(&s).map_err(|e| e.to_string())?;
                let _ = sw.w.cam().get_ca(&h).map_err(|e| e.to_string());
                let _ = sw.w.cam().ca_show_child(&CaHandle::from_str(PARENT).unwrap(), &h.convert());
                let _ = sw.w.repo().get_publisher_details(h.convert());
                sw.w.cam().rfc6492(&h, Bytes::from_static(b"x"), None, &sw.w.actor, &sw.w.rt).map(|_| ()).map_err(|e| e.to_string())
            }
            TextKind::BgpsecKey => {
                let v = Value::String(s.clone());
                let k: krill::api::bgpsec::BgpSecAsnKey = serde_json::from_value(v).map_err(|e| e.to_string())?;
                let upd = krill::api::bgpsec::BgpSecDefinitionUpdates { add: vec![], remove: vec![k] };
                sw.w.bgpsec_update(PARENT, upd).map_err(|e| e.to_string())
            }
            TextKind::Uri => {
                let _ = rpki::uri::Rsync::from_str(&s).map_err(|e| e.to_string())?;
                Ok(())
            }
        })
    }
}

fn fail_outcome(f: Fail, what: &str) -> Outcome {
    match f {
        Fail::Crash(e) => Outcome::Violation { clause: "c16-panic".into(), key: super::crash_key(&e), msg: format!("{what}: {e}") },
        Fail::Violation(e) => Outcome::Violation { clause: "c16".into(), key: "op".into(), msg: format!("{what}: {e}") },
        Fail::Harness(e) => Outcome::Harness(format!("{what}: {e}")),
    }
}

impl Prop for C16 {
    type Case = Case;
    const ID: &'static str = "C16";

    fn strategy(tier: Tier) -> BoxedStrategy<Case> {
        let n = match tier {
            Tier::Quick => 20..80,
            Tier::Thorough => 40..200,
        };
        let hn = match tier {
            Tier::Quick => 20..70,
            Tier::Thorough => 40..160,
        };
        // (for experiments: KVH_C16_ONLY=http restricts the run to the HTTP part)
        let (wa, wb) = match std::env::var("KVH_C16_ONLY").as_deref() {
            Ok("http") => (0, 1),
            Ok("sig") => (1, 0),
            _ => (4, 1),
        };
        prop_oneof![
            wa => (any::<u16>(), vec(input(), n)).prop_map(|(key_start, inputs)| Case { key_start, inputs, http: None }),
            wb => vec(super::c16h::http_in(), hn).prop_map(|h| Case { key_start: 0, inputs: vec![], http: Some(h) }),
        ]
        .boxed()
    }

    fn run(case: &Case, ctx: &Ctx) -> Outcome {
        if let Some(h) = &case.http {
            let known = if ctx.strict { vec![] } else { ctx.known.iter().filter(|k| k.property == Self::ID && k.status == "known").map(|k| k.signature.clone()).collect() };
            return super::c16h::run(h, known);
        }
        let sw = match SigWorld::new(WorldCfg::default(), case.key_start as usize) {
            Ok(w) => w,
            Err(f) => return fail_outcome(f, "setup"),
        };
        let known = if ctx.strict { vec![] } else { ctx.known.iter().filter(|k| k.property == Self::ID && k.status == "known").map(|k| k.signature.clone()).collect() };
        let mut run = Run { sw, stats: Default::default(), known };
        for (i, input) in case.inputs.iter().enumerate() {
            let short = {
                let s = format!("{input:?}");
                if s.len() > 300 { format!("{}...", &s[..300]) } else { s }
            };
            match run.step(input) {
                Err(f) => return fail_outcome(f, &format!("input #{i} {short}")),
                Ok(Err((clause, key, msg))) => return Outcome::Violation { clause, key, msg: format!("input #{i} {short}: {msg}") },
                Ok(Ok(())) => {}
            }
        }
        let classes: Vec<String> = run.stats.keys().cloned().collect();
        // non-trivial: some mutated input got past the decoders into a handler
        let nontrivial = run.stats.keys().any(|k| (k.starts_with("rfc") && k.ends_with("-xml:accepted")) || (k.starts_with("json-") && (k.ends_with(":accepted") || k.ends_with(":error"))));
        Outcome::Pass { nontrivial, classes, size: case.inputs.len() }
    }
}
