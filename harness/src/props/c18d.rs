//! C18, daemon part — the same commuting request sets as `c18.rs`, but sent
//! as HTTP requests from several client threads to the real daemon
//! (`start_krill_daemon`): its own HTTP worker threads, its own scheduler
//! thread and its own locks do the work; the harness only perturbs the
//! schedule through the yield hook and watches.
//!
//! Oracle: every request is answered (no read time-out) with success, as in
//! every serial order; the scheduler thread neither exits nor panics; the task
//! queue drains; then the RRDP snapshot equals the rsync tree, a
//! relying-party walk from the trust anchor accepts everything, the validated
//! payloads are exactly what the threads asked for, the API lists every
//! definition exactly once, and every effective ROA request is recorded once
//! in the CA's command history.
use std::collections::{BTreeMap, BTreeSet};
use std::path::Path;
use std::str::FromStr;
use std::sync::atomic::Ordering;
use std::sync::Arc;
use std::time::{Duration, Instant};

use krill::api;
use serde_json::{json, Value};

use super::c18::{spare_gone, Case, TOp, SPARE};
use crate::hooks;
use crate::httpd::{Daemon, DaemonCfg, Reply, Transport};
use crate::ops::{payload_json, RoaSpec, ASNS};
use crate::rp::{self, Vrp};
use crate::rrdpc;

pub const ADMIN: &str = "c18-admin-token";
const CAS: [&str; 3] = ["ca0", "ca1", "ca2"];
const ALL: (&str, &str, &str) = ("AS0-AS4294967295", "0.0.0.0/0", "::/0");

type Bad = (String, String, String);
fn bad(c: &str, k: &str, m: String) -> Bad {
    (c.into(), k.into(), m)
}

fn spec(t: usize, slot: u8) -> RoaSpec {
    RoaSpec { asn_i: (t + 1) as u8, pfx_i: slot, ml: slot % 3, comment: 0 }
}

pub fn admin(d: &Daemon, method: &str, path: &str, body: Option<&str>) -> Result<Reply, String> {
    let mut hs = vec![("Authorization".to_string(), format!("Bearer {ADMIN}"))];
    if body.is_some() {
        hs.push(("Content-Type".into(), "application/json".into()));
    }
    d.request(Transport::Tcp, method, path, &hs, body.map(|b| b.as_bytes()))
}

pub fn ok(r: Reply, what: &str) -> Result<Reply, String> {
    if r.status == 200 {
        Ok(r)
    } else {
        Err(format!("{what}: {} {}", r.status, r.text()))
    }
}

/// Creates a CA with repository and parent through the API.
pub fn create_ca(d: &Daemon, ca: &str, parent: &str) -> Result<(), String> {
    ok(admin(d, "POST", "/api/v1/cas", Some(&json!({"handle": ca}).to_string()))?, "create ca")?;
    let pr = ok(admin(d, "GET", &format!("/api/v1/cas/{ca}/id/publisher_request.json"), None)?, "publisher request")?;
    ok(admin(d, "POST", "/api/v1/pubd/publishers", Some(&pr.text()))?, "add publisher")?;
    let rr = ok(admin(d, "GET", &format!("/api/v1/pubd/publishers/{ca}/response.json"), None)?, "repository response")?;
    let body = json!({"repository_response": rr.json().unwrap_or_default()});
    ok(admin(d, "POST", &format!("/api/v1/cas/{ca}/repo"), Some(&body.to_string()))?, "configure repository")?;
    let req = ok(admin(d, "GET", &format!("/api/v1/cas/{ca}/id/child_request.json"), None)?, "child request")?;
    let idc = req.json().and_then(|j| j.get("id_cert").and_then(|c| c.as_str()).map(|s| s.to_string())).ok_or("no id_cert in child request")?;
    let body = json!({"handle": ca, "resources": {"asn": ALL.0, "ipv4": ALL.1, "ipv6": ALL.2}, "id_cert": idc});
    ok(admin(d, "POST", &format!("/api/v1/cas/{parent}/children"), Some(&body.to_string()))?, "add child")?;
    let resp = ok(admin(d, "GET", &format!("/api/v1/cas/{parent}/children/{ca}/parent_response.json"), None)?, "parent response")?;
    let body = json!({"handle": parent, "response": resp.json().unwrap_or_default()});
    ok(admin(d, "POST", &format!("/api/v1/cas/{ca}/parents"), Some(&body.to_string()))?, "add parent")?;
    Ok(())
}

/// (running, pending due within `horizon_ms`) task names read from the
/// daemon's task queue on disk.
pub fn queue_state(dir: &Path, horizon_ms: i128) -> (Vec<String>, Vec<String>) {
    let now = chrono::Utc::now().timestamp_millis() as i128;
    let list = |scope: &str| -> Vec<(i128, String)> {
        let mut out = Vec::new();
        if let Ok(rd) = std::fs::read_dir(dir.join("data").join("tasks").join(scope)) {
            for e in rd.flatten() {
                let name = e.file_name().to_string_lossy().to_string();
                if let Some((ts, rest)) = name.split_once('-') {
                    if let Ok(ts) = ts.parse::<i128>() {
                        out.push((ts, rest.to_string()));
                    }
                }
            }
        }
        out
    };
    let running = list("running").into_iter().map(|x| x.1).collect();
    let due = list("pending").into_iter().filter(|(ts, _)| *ts <= now + horizon_ms).map(|x| x.1).collect();
    (running, due)
}

/// Waits until the scheduler has nothing to do (twice in a row, more than
/// one idle period of the scheduler apart).
pub fn wait_quiet(dir: &Path, limit: Duration) -> Result<(), String> {
    let t0 = Instant::now();
    let mut quiet = 0;
    loop {
        let (running, due) = queue_state(dir, 1500);
        if running.is_empty() && due.is_empty() {
            quiet += 1;
            if quiet >= 2 {
                return Ok(());
            }
            std::thread::sleep(Duration::from_millis(600));
        } else {
            quiet = 0;
            std::thread::sleep(Duration::from_millis(25));
        }
        if t0.elapsed() > limit {
            return Err(format!("running {running:?}, due {due:?}"));
        }
    }
}

type Done = Vec<(TOp, Result<(), String>)>;

fn post(d: &Daemon, path: &str, body: Option<String>) -> Result<(), String> {
    let r = admin(d, "POST", path, body.as_deref())?;
    if r.status == 200 {
        Ok(())
    } else {
        Err(format!("{} {}", r.status, r.text()))
    }
}

fn get(d: &Daemon, path: &str) -> Result<(), String> {
    let r = admin(d, "GET", path, None)?;
    if r.status == 200 {
        Ok(())
    } else {
        Err(format!("{} {}", r.status, r.text()))
    }
}

fn run_thread(d: &Daemon, t: usize, ops: &[TOp]) -> Done {
    let mut roas: BTreeSet<(u8, u8)> = BTreeSet::new();
    let mut done = Vec::new();
    let csrs = crate::csr::pool();
    let mut spare_deleted = false;
    for op in ops {
        let res: Result<(), String> = (|| match op {
            TOp::RoaAdd { ca, slot } => {
                if roas.contains(&(*ca % 3, *slot)) {
                    return Ok(());
                }
                post(d, &format!("/api/v1/cas/{}/routes", CAS[*ca as usize % 3]), Some(json!({"added": [spec(t, *slot).config_json()], "removed": []}).to_string()))?;
                roas.insert((*ca % 3, *slot));
                Ok(())
            }
            TOp::RoaRemove { ca, slot } => {
                if !roas.contains(&(*ca % 3, *slot)) {
                    return Ok(());
                }
                post(d, &format!("/api/v1/cas/{}/routes", CAS[*ca as usize % 3]), Some(json!({"added": [], "removed": [payload_json(&spec(t, *slot).payload())]}).to_string()))?;
                roas.remove(&(*ca % 3, *slot));
                Ok(())
            }
            TOp::Aspa { ca, providers } => {
                let cust = ASNS[t + 1];
                let set: BTreeSet<u32> = providers.iter().map(|p| ASNS[*p as usize % ASNS.len()]).filter(|p| *p != cust && *p != 0).collect();
                if set.is_empty() {
                    return Ok(());
                }
                let provs: Vec<String> = set.iter().map(|p| format!("AS{p}")).collect();
                let def = api::aspa::AspaDefinition::from_str(&format!("AS{cust} => {}", provs.join(", "))).map_err(|e| e.to_string())?;
                let upd = api::aspa::AspaDefinitionUpdates { add_or_replace: vec![def], remove: vec![] };
                post(d, &format!("/api/v1/cas/{}/aspas", CAS[*ca as usize % 3]), Some(serde_json::to_string(&upd).map_err(|e| e.to_string())?))
            }
            TOp::Bgpsec { ca } => {
                let (csr, _key) = csrs[t % csrs.len()].clone();
                post(d, &format!("/api/v1/cas/{}/bgpsec", CAS[*ca as usize % 3]), Some(json!({"add": [{"asn": ASNS[t + 1], "csr": csr}], "remove": []}).to_string()))
            }
            TOp::KeyrollInit => {
                if t < 3 {
                    post(d, &format!("/api/v1/cas/{}/keys/roll_init", CAS[t]), None)
                } else {
                    Ok(())
                }
            }
            TOp::Republish => post(d, "/api/v1/bulk/cas/publish", None),
            TOp::RepublishForce => post(d, "/api/v1/bulk/cas/force_publish", None),
            TOp::RefreshAll => post(d, "/api/v1/bulk/cas/sync/parent", None),
            TOp::RepoSyncAll => post(d, "/api/v1/bulk/cas/sync/repo", None),
            // the publication protocol needs signed messages; over HTTP these
            // slots are reads of the publication server instead
            TOp::Publish { slot, .. } => get(d, &format!("/api/v1/pubd/publishers/{}", CAS[*slot as usize % 3])),
            TOp::Withdraw { .. } => get(d, "/api/v1/pubd/publishers"),
            TOp::SpareUpdateId => post(d, &format!("/api/v1/cas/{SPARE}/id"), None),
            TOp::SpareRead => {
                get(d, &format!("/api/v1/cas/{SPARE}"))?;
                get(d, &format!("/api/v1/cas/{SPARE}/history/commands"))
            }
            TOp::SpareDelete => {
                if t != 0 {
                    Ok(())
                } else if !spare_deleted {
                    let r = admin(d, "DELETE", &format!("/api/v1/cas/{SPARE}"), None)?;
                    if r.status == 200 {
                        spare_deleted = true;
                        Ok(())
                    } else {
                        Err(format!("{} {}", r.status, r.text()))
                    }
                } else {
                    let r = admin(d, "POST", "/api/v1/cas", Some(&json!({"handle": SPARE}).to_string()))?;
                    if r.status == 200 {
                        spare_deleted = false;
                        Ok(())
                    } else {
                        Err(format!("{} {}", r.status, r.text()))
                    }
                }
            }
            // (no request triggers the snapshot task; the daemon part reads instead)
            TOp::Snapshot | TOp::RemoteChildList { .. } => get(d, "/stats/info"),
            TOp::Read => {
                for ca in CAS {
                    get(d, &format!("/api/v1/cas/{ca}"))?;
                    get(d, &format!("/api/v1/cas/{ca}/routes"))?;
                    get(d, &format!("/api/v1/cas/{ca}/repo/status"))?;
                    get(d, &format!("/api/v1/cas/{ca}/history/commands"))?;
                }
                get(d, "/api/v1/bulk/cas/issues")?;
                get(d, "/stats/info")
            }
        })();
        let stop = res.as_ref().err().map(|e| e.contains("read:") || e.contains("connect:")).unwrap_or(false);
        done.push((op.clone(), res));
        if stop {
            break;
        }
    }
    done
}

pub fn history_labels(d: &Daemon, ca: &str) -> Result<Vec<String>, String> {
    let r = ok(admin(d, "GET", &format!("/api/v1/cas/{ca}/history/commands/10000"), None)?, "history")?;
    let j = r.json().ok_or("history is not JSON")?;
    let rows = j.get("commands").and_then(|c| c.as_array()).cloned().unwrap_or_default();
    let total = j.get("total").and_then(|t| t.as_u64()).unwrap_or(0) as usize;
    if total != rows.len() {
        return Err(format!("history of {ca}: total {total} but {} rows", rows.len()));
    }
    Ok(rows.iter().map(|r| r.get("summary").map(|s| s.get("msg").and_then(|m| m.as_str()).unwrap_or("").to_string()).unwrap_or_default()).collect())
}

pub fn run_case_daemon(case: &Case) -> Result<Result<Vec<String>, Bad>, String> {
    let mut classes: BTreeSet<String> = BTreeSet::new();
    classes.insert("daemon".into());
    classes.insert("disk".into());
    hooks::h().new_world_keys(case.key_start as usize);
    let _ = hooks::h().take_exits();
    let cfg = DaemonCfg { admin_token: ADMIN.into(), testbed: true, tcp: true, disk: true, ..Default::default() };
    let d = Daemon::start(&cfg, &BTreeMap::new()).map_err(|e| format!("daemon: {e}"))?;
    let dir = d.dir.clone();
    let limit = Duration::from_secs(120);
    create_ca(&d, "ca0", "testbed")?;
    wait_quiet(&dir, limit).map_err(|e| format!("set-up does not settle: {e}"))?;
    create_ca(&d, "ca1", "ca0")?;
    create_ca(&d, "ca2", "testbed")?;
    ok(admin(&d, "POST", "/api/v1/cas", Some(&json!({"handle": SPARE}).to_string()))?, "create spare ca")?;
    wait_quiet(&dir, limit).map_err(|e| format!("set-up does not settle: {e}"))?;
    for ca in CAS {
        let j = ok(admin(&d, "GET", &format!("/api/v1/cas/{ca}"), None)?, "ca info")?.json().unwrap_or_default();
        let n = j.get("resource_classes").and_then(|r| r.as_object()).map(|m| m.len()).unwrap_or(0);
        if n == 0 {
            return Err(format!("set-up: {ca} has no resource class: {j}"));
        }
    }
    let history0: BTreeMap<&str, usize> = CAS.iter().map(|ca| Ok((*ca, history_labels(&d, ca)?.len()))).collect::<Result<_, String>>()?;

    // the concurrent phase
    let panics0 = crate::world::PANIC_COUNT.load(Ordering::SeqCst);
    let d = Arc::new(d);
    hooks::h().set_yield(Some(case.yield_seed));
    // The scheduler sleeps half a second when it finds the queue empty, longer than a whole request set takes: give
    // it work and let the clients start when it has woken up, so that background tasks run while requests come in.
    let _ = admin(&d, "POST", "/api/v1/bulk/cas/sync/parent", None)?;
    let _ = admin(&d, "POST", "/api/v1/bulk/cas/sync/repo", None)?;
    let t_wake = Instant::now();
    while queue_state(&dir, 0).0.is_empty() && t_wake.elapsed() < Duration::from_millis(800) {
        std::thread::sleep(Duration::from_millis(1));
    }
    let mut handles = Vec::new();
    for (t, ops) in case.threads.iter().cloned().enumerate().take(5) {
        let d = d.clone();
        handles.push(std::thread::spawn(move || run_thread(&d, t, &ops)));
    }
    let mut saw_running = false;
    while handles.iter().any(|h| !h.is_finished()) {
        if !saw_running && !queue_state(&dir, 0).0.is_empty() {
            saw_running = true;
        }
        std::thread::sleep(Duration::from_millis(2));
    }
    let mut results: Vec<Done> = Vec::new();
    for h in handles {
        results.push(h.join().map_err(|_| "client thread panicked".to_string())?);
    }
    hooks::h().set_yield(None);
    if saw_running {
        classes.insert("tasks_ran_concurrently".into());
    }
    let finish = |d: Arc<Daemon>, r: Bad| -> Result<Result<Vec<String>, Bad>, String> {
        if let Ok(mut d) = Arc::try_unwrap(d) {
            let _ = d.stop();
        }
        Ok(Err(r))
    };

    // answers
    let delete_issued = results.first().map(|d| d.iter().any(|(op, _)| matches!(op, TOp::SpareDelete))).unwrap_or(false);
    let toggles = results.first().map(|d| d.iter().filter(|(op, r)| matches!(op, TOp::SpareDelete) && r.is_ok()).count()).unwrap_or(0);
    let spare_users = results.iter().enumerate().filter(|(t, d)| *t != 0 && d.iter().any(|(op, _)| matches!(op, TOp::SpareUpdateId | TOp::SpareRead))).count();
    if delete_issued && spare_users > 0 {
        classes.insert("ca_deleted_while_others_use_it".into());
    }
    let mut same_ca: BTreeMap<u8, BTreeSet<usize>> = BTreeMap::new();
    for (t, done) in results.iter().enumerate() {
        for (op, r) in done {
            if let Err(e) = r {
                let name = format!("{op:?}").split([' ', '{']).next().unwrap_or("op").to_string();
                if e.contains("read:") {
                    // the daemon cannot be stopped with a stuck worker: leave it behind
                    std::mem::forget(d);
                    return Ok(Err(bad("c18-hang", "daemon-request", format!("client {t} {op:?} was not answered: {e}"))));
                }
                if matches!(op, TOp::KeyrollInit) {
                    continue;
                }
                if matches!(op, TOp::SpareUpdateId | TOp::SpareRead) && delete_issued && spare_gone(e) {
                    continue;
                }
                return finish(d, bad("c18-request-failed", &format!("daemon-{name}"), format!("client {t} {op:?} failed although it succeeds in every serial order: {e}")));
            }
            if let TOp::RoaAdd { ca, .. } | TOp::RoaRemove { ca, .. } | TOp::Aspa { ca, .. } | TOp::Bgpsec { ca } = op {
                same_ca.entry(*ca % 3).or_default().insert(t);
            }
        }
    }
    if same_ca.values().any(|s| s.len() >= 2) {
        classes.insert("same_ca_from_2plus_threads".into());
    }

    // the spare CA: gone if its deletion was acknowledged, there otherwise
    {
        let there = admin(&d, "GET", &format!("/api/v1/cas/{SPARE}"), None)?.status == 200;
        let expect_there = toggles % 2 == 0;
        if there != expect_there {
            return finish(d, bad("c18-delete", if there { "daemon-ca-still-there" } else { "daemon-ca-vanished" }, format!("after {toggles} acknowledged deletions / re-creations {SPARE} should {} but it {}", if expect_there { "exist" } else { "be gone" }, if there { "exists" } else { "is gone" })));
        }
        if toggles > 1 {
            classes.insert("ca_deleted_and_created_again".into());
        }
    }
    // background work catches up
    let quiet = wait_quiet(&dir, limit);
    let exits = hooks::h().take_exits();
    if !exits.is_empty() {
        return finish(d, bad("c18-scheduler", "exit", format!("the daemon would have exited at {exits:?}")));
    }
    let panics1 = crate::world::PANIC_COUNT.load(Ordering::SeqCst);
    if panics1 != panics0 {
        let loc = crate::world::last_panic_location().unwrap_or_else(|| "unknown".into());
        return finish(d, bad("c18-crash", &format!("daemon-panic:{loc}"), format!("a thread of the daemon panicked at {loc}")));
    }
    if let Err(e) = quiet {
        return finish(d, bad("c18-no-quiescence", "daemon", format!("the task queue did not drain within {}s: {e}", limit.as_secs())));
    }

    // the model after all requests (any order)
    let csrs = crate::csr::pool();
    let mut vrps: BTreeSet<Vrp> = BTreeSet::new();
    let mut roas_by_ca: BTreeMap<&str, BTreeSet<(u32, String, u8)>> = BTreeMap::new();
    let mut aspas: BTreeMap<(&str, u32), Vec<u32>> = BTreeMap::new();
    let mut router_keys: BTreeSet<(u32, String)> = BTreeSet::new();
    let mut roa_requests: BTreeMap<&str, usize> = BTreeMap::new();
    for (t, done) in results.iter().enumerate() {
        let mut mine: BTreeSet<(u8, u8)> = BTreeSet::new();
        for (op, r) in done {
            if r.is_err() {
                continue;
            }
            match op {
                TOp::RoaAdd { ca, slot } => {
                    if mine.insert((*ca % 3, *slot)) {
                        *roa_requests.entry(CAS[*ca as usize % 3]).or_default() += 1;
                        classes.insert("roa_added".into());
                    }
                }
                TOp::RoaRemove { ca, slot } => {
                    if mine.remove(&(*ca % 3, *slot)) {
                        *roa_requests.entry(CAS[*ca as usize % 3]).or_default() += 1;
                    }
                }
                TOp::Aspa { ca, providers } => {
                    let cust = ASNS[t + 1];
                    let provs: BTreeSet<u32> = providers.iter().map(|p| ASNS[*p as usize % ASNS.len()]).filter(|p| *p != cust && *p != 0).collect();
                    if !provs.is_empty() {
                        aspas.insert((CAS[*ca as usize % 3], cust), provs.into_iter().collect());
                    }
                }
                TOp::Bgpsec { .. } => {
                    router_keys.insert((ASNS[t + 1], csrs[t % csrs.len()].1.clone()));
                }
                TOp::KeyrollInit => {
                    classes.insert("keyroll_started".into());
                }
                _ => {}
            }
        }
        for (ca, slot) in mine {
            let p = spec(t, slot).payload();
            vrps.insert(Vrp { asn: p.asn, prefix: crate::oracle::canon_prefix(&p.prefix), maxlen: p.maxlen });
            roas_by_ca.entry(CAS[ca as usize]).or_default().insert((p.asn, crate::oracle::canon_prefix(&p.prefix), p.maxlen));
        }
    }
    // the same customer in two CAs gives two ASPA objects with the same customer: the RP reports (customer, providers) pairs
    let exp_aspas: BTreeSet<(u32, Vec<u32>)> = aspas.iter().map(|((_, c), p)| (*c, p.clone())).collect();

    // the repository
    let repo_dir = dir.join("repo");
    let notif = match rrdpc::read_notification(&repo_dir) {
        Ok(n) => n,
        Err(e) => return finish(d, bad("rrdp-notification", "daemon-read", e)),
    };
    let (_, _, snapshot) = match rrdpc::read_snapshot(&notif.snapshot.0) {
        Ok(s) => s,
        Err(e) => return finish(d, bad("rrdp-snapshot", "daemon-read", e)),
    };
    let rsync = rrdpc::read_rsync_current(&repo_dir)?;
    if let Some(diff) = rrdpc::diff_maps("rsync/current", &rsync, "rrdp snapshot", &snapshot) {
        return finish(d, bad("rsync-vs-served", "daemon-diff", diff));
    }
    let ta_cer = ok(d.request(Transport::Tcp, "GET", "/ta/ta.cer", &[], None)?, "ta.cer")?;
    let tal = ok(d.request(Transport::Tcp, "GET", "/ta/ta.tal", &[], None)?, "ta.tal")?.text();
    let now = chrono::Utc::now().timestamp();
    let rep = rp::validate(&bytes::Bytes::from(ta_cer.body.clone()), &tal, &snapshot, now);
    if let Some(issue) = rep.issues.first() {
        let key: String = issue.split([' ', ':']).next().unwrap_or("issue").to_string();
        return finish(d, bad("c18-daemon-rp", &key, format!("after the concurrent phase and catching up, the relying-party walk reports: {:?}", rep.issues.iter().take(3).collect::<Vec<_>>())));
    }
    let diff = |what: &str, missing: Vec<String>, extra: Vec<String>| -> Option<Bad> {
        if missing.is_empty() && extra.is_empty() {
            None
        } else {
            Some(bad(what, if !missing.is_empty() { "missing" } else { "extra" }, format!("validated payloads differ from what the clients asked for: missing {:?} extra {:?}", &missing[..missing.len().min(3)], &extra[..extra.len().min(3)])))
        }
    };
    if let Some(b) = diff("vrps", vrps.difference(&rep.vrps).map(|x| format!("{x:?}")).collect(), rep.vrps.difference(&vrps).map(|x| format!("{x:?}")).collect()) {
        return finish(d, b);
    }
    if let Some(b) = diff("aspas", exp_aspas.difference(&rep.aspas).map(|x| format!("{x:?}")).collect(), rep.aspas.difference(&exp_aspas).map(|x| format!("{x:?}")).collect()) {
        return finish(d, b);
    }
    if let Some(b) = diff("router-keys", router_keys.difference(&rep.router_keys).map(|x| format!("{x:?}")).collect(), rep.router_keys.difference(&router_keys).map(|x| format!("{x:?}")).collect()) {
        return finish(d, b);
    }

    // the API: every definition exactly once, every effective ROA request recorded once
    for ca in CAS {
        let j: Value = ok(admin(&d, "GET", &format!("/api/v1/cas/{ca}/routes"), None)?, "routes")?.json().unwrap_or_default();
        let rows = j.as_array().cloned().unwrap_or_default();
        let mut seen: BTreeSet<(u32, String, u8)> = BTreeSet::new();
        for r in &rows {
            let asn = r.get("asn").and_then(|a| a.as_u64()).unwrap_or(0) as u32;
            let prefix = r.get("prefix").and_then(|p| p.as_str()).unwrap_or("").to_string();
            let len: u8 = prefix.rsplit_once('/').and_then(|x| x.1.parse().ok()).unwrap_or(0);
            let ml = r.get("max_length").and_then(|m| m.as_u64()).map(|m| m as u8).unwrap_or(len);
            if !seen.insert((asn, crate::oracle::canon_prefix(&prefix), ml)) {
                return finish(d, bad("c18-applied-twice", "daemon-roa-definition", format!("{ca} lists a ROA definition twice: {rows:?}")));
            }
            if r.get("roa_objects").and_then(|o| o.as_array()).map(|a| a.is_empty()).unwrap_or(true) {
                return finish(d, bad("api-roa-objects", "daemon-none", format!("{ca}: the API reports no object for {r}")));
            }
        }
        let want = roas_by_ca.get(ca).cloned().unwrap_or_default();
        if seen != want {
            let missing: Vec<_> = want.difference(&seen).take(3).collect();
            let extra: Vec<_> = seen.difference(&want).take(3).collect();
            return finish(d, bad("c18-api-roas", if !missing.is_empty() { "lost" } else { "extra" }, format!("{ca}: configured ROAs differ from the accepted requests: missing {missing:?} extra {extra:?}")));
        }
        let labels = history_labels(&d, ca)?;
        let new = &labels[history0[ca].min(labels.len())..];
        let roa_cmds = new.iter().filter(|l| l.to_ascii_lowercase().contains("roa")).count();
        let asked = roa_requests.get(ca).copied().unwrap_or(0);
        if roa_cmds != asked {
            return finish(d, bad("c18-history", if roa_cmds < asked { "lost" } else { "twice" }, format!("{ca}: {asked} effective ROA requests were accepted but the history lists {roa_cmds} ROA commands: {new:?}")));
        }
    }
    let mut d = Arc::try_unwrap(d).map_err(|_| "daemon still shared".to_string())?;
    d.stop().map_err(|e| format!("stopping the daemon: {e}"))?;
    let exits = hooks::h().take_exits();
    if !exits.is_empty() {
        return Ok(Err(bad("c18-scheduler", "exit", format!("the daemon would have exited at {exits:?}"))));
    }
    Ok(Ok(classes.into_iter().collect()))
}
