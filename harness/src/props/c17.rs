//! C17 — ROA analysis agrees with RFC 6811 origin validation.
use std::collections::{BTreeMap, BTreeSet};
use std::net::{Ipv4Addr, Ipv6Addr};

use krill::api::roa::ConfiguredRoa;
use krill::server::bgp::BgpAnalyser;
use proptest::collection::vec;
use proptest::prelude::*;
use proptest::strategy::BoxedStrategy;
use rpki::repository::resources::ResourceSet;
use serde::{Deserialize, Serialize};
use serde_json::Value;

use crate::fw::{Ctx, Outcome, Prop, Tier};
use crate::world::{guarded, WorldCfg};

pub struct C17;

#[derive(Clone, Copy, Debug, Serialize, Deserialize, PartialEq, Eq, PartialOrd, Ord, Hash)]
pub struct Pfx {
    pub v6: bool,
    #[serde(with = "u128_hex")]
    pub bits: u128, // the address (32 or 128 bits)
    pub len: u8,
}

mod u128_hex {
    use serde::{Deserialize, Deserializer, Serializer};
    pub fn serialize<S: Serializer>(v: &u128, s: S) -> Result<S::Ok, S::Error> {
        s.serialize_str(&format!("{v:x}"))
    }
    pub fn deserialize<'de, D: Deserializer<'de>>(d: D) -> Result<u128, D::Error> {
        let s = String::deserialize(d)?;
        u128::from_str_radix(&s, 16).map_err(serde::de::Error::custom)
    }
}

impl Pfx {
    fn fam(&self) -> u8 {
        if self.v6 { 128 } else { 32 }
    }
    fn text(&self) -> String {
        if self.v6 {
            format!("{}/{}", Ipv6Addr::from(self.bits), self.len)
        } else {
            format!("{}/{}", Ipv4Addr::from(self.bits as u32), self.len)
        }
    }
    fn covers(&self, other: &Pfx) -> bool {
        if self.v6 != other.v6 || self.len > other.len {
            return false;
        }
        if self.len == 0 {
            return true;
        }
        let shift = (self.fam() - self.len) as u32;
        (self.bits >> shift) == (other.bits >> shift)
    }
}

#[derive(Clone, Debug, Serialize, Deserialize)]
pub struct Case {
    /// (asn, prefix, seen by enough peers)
    pub anns: Vec<(u32, Pfx, bool)>,
    /// (asn, prefix, max length (None = implicit))
    pub roas: Vec<(u32, Pfx, Option<u8>)>,
    pub held: Vec<Pfx>,
    pub scope: Option<Vec<Pfx>>,
    pub perm: u64,
}

const ASNS: &[u32] = &[64496, 64497, 64498, 64499, 65000, 65001];

fn pfx() -> impl Strategy<Value = Pfx> {
    let v4 = (0u8..2, 0u32..4, 0u32..4, 0u32..4, 0u32..4, prop_oneof![1 => Just(0u8), 1 => Just(8u8), 6 => 14u8..27, 1 => 27u8..33]).prop_map(
        |(top, a, b, c, d, len)| {
            let addr: u32 = ((10 + top as u32) << 24) | (a << 22) | (b << 14) | (c << 8) | (d << 4) | (d & 1);
            let mask: u32 = if len == 0 { 0 } else { u32::MAX << (32 - len as u32) };
            Pfx { v6: false, bits: (addr & mask) as u128, len }
        },
    );
    let v6 = (0u128..2, 0u128..4, 0u128..4, 0u128..4, prop_oneof![1 => Just(0u8), 1 => Just(32u8), 5 => 32u8..65, 1 => 64u8..129]).prop_map(
        |(top, a, b, c, len)| {
            let addr: u128 = (0x2001_0db8u128 + top) << 96 | a << 92 | b << 78 | c << 62 | (c & 1);
            let mask: u128 = if len == 0 { 0 } else { u128::MAX << (128 - len as u32) };
            Pfx { v6: true, bits: addr & mask, len }
        },
    );
    prop_oneof![3 => v4, 1 => v6]
}

fn rset(ps: &[Pfx]) -> ResourceSet {
    let v4: Vec<String> = ps.iter().filter(|p| !p.v6).map(|p| p.text()).collect();
    let v6: Vec<String> = ps.iter().filter(|p| p.v6).map(|p| p.text()).collect();
    let rs = ResourceSet::from_strs("", &v4.join(", "), &v6.join(", ")).unwrap_or_default();
    // A set parsed from overlapping or unordered prefixes is not in canonical
    // form and `contains` gives wrong answers on it (krill only ever holds
    // sets taken from certificates, which are canonical): normalise by
    // taking the union with the empty set block by block.
    let mut out = ResourceSet::empty();
    for p in ps {
        let one = if p.v6 { ResourceSet::from_strs("", "", &p.text()) } else { ResourceSet::from_strs("", &p.text(), "") };
        if let Ok(one) = one {
            out = out.union(&one);
        }
    }
    let _ = rs;
    out
}

fn in_set(set: &ResourceSet, p: &Pfx) -> bool {
    set.contains(&rset(&[*p]))
}

#[derive(Clone, Copy, Debug, PartialEq, Eq, PartialOrd, Ord)]
enum Verdict {
    Valid,
    InvalidLength,
    InvalidAsn,
    Disallowed,
    NotFound,
}

fn maxlen(r: &(u32, Pfx, Option<u8>)) -> u8 {
    r.2.unwrap_or(r.1.len)
}

/// RFC 6811 by brute force over the covering ROAs.
fn validate(ann: &(u32, Pfx), roas: &[(u32, Pfx, Option<u8>)]) -> Verdict {
    let covering: Vec<&(u32, Pfx, Option<u8>)> = roas.iter().filter(|r| r.1.covers(&ann.1)).collect();
    if covering.is_empty() {
        return Verdict::NotFound;
    }
    if covering.iter().any(|r| r.0 == ann.0 && maxlen(r) >= ann.1.len) {
        return Verdict::Valid;
    }
    if covering.iter().any(|r| r.0 == ann.0) {
        return Verdict::InvalidLength;
    }
    if covering.iter().all(|r| r.0 == 0) {
        return Verdict::Disallowed;
    }
    Verdict::InvalidAsn
}

fn state_of(s: &str) -> Option<Verdict> {
    match s {
        "announcement_valid" => Some(Verdict::Valid),
        "announcement_invalid_length" => Some(Verdict::InvalidLength),
        "announcement_invalid_asn" => Some(Verdict::InvalidAsn),
        "announcement_disallowed" => Some(Verdict::Disallowed),
        "announcement_not_found" => Some(Verdict::NotFound),
        _ => None,
    }
}

fn asn_of(v: &Value) -> u32 {
    match v {
        Value::Number(n) => n.as_u64().unwrap_or(u64::MAX) as u32,
        Value::String(s) => s.trim_start_matches("AS").parse().unwrap_or(u32::MAX),
        _ => u32::MAX,
    }
}

fn ann_key(v: &Value) -> (u32, String) {
    (asn_of(&v["asn"]), v["prefix"].as_str().unwrap_or("").to_string())
}

fn analyser() -> &'static BgpAnalyser {
    use std::sync::OnceLock;
    static A: OnceLock<BgpAnalyser> = OnceLock::new();
    A.get_or_init(|| {
        let dir = crate::world::scratch_root().join("c17");
        let _ = std::fs::create_dir_all(&dir);
        let cfg = WorldCfg::default().config(&dir, 1, "").expect("config");
        BgpAnalyser::new(&cfg)
    })
}

fn configured(r: &(u32, Pfx, Option<u8>)) -> ConfiguredRoa {
    let mut v = serde_json::json!({"asn": r.0, "prefix": r.1.text(), "roa_objects": []});
    if let Some(ml) = r.2 {
        v["max_length"] = ml.into();
    }
    serde_json::from_value(v).expect("configured roa json")
}

impl Prop for C17 {
    type Case = Case;
    const ID: &'static str = "C17";

    fn strategy(_tier: Tier) -> BoxedStrategy<Case> {
        let asn = || proptest::sample::select(ASNS.to_vec());
        let roa_asn = prop_oneof![5 => proptest::sample::select(ASNS.to_vec()), 1 => Just(0u32)];
        let roa = (roa_asn, pfx(), 0u8..4).prop_map(|(a, p, ml)| {
            let m = match ml {
                0 => None,
                1 => Some(p.len),
                2 => Some((p.len + 1).min(p.fam())),
                _ => Some(p.fam()),
            };
            (a, p, m)
        });
        (
            vec((asn(), pfx(), prop_oneof![5 => Just(true), 1 => Just(false)]), 0..40),
            vec(roa, 0..15),
            vec(pfx(), 1..5),
            proptest::option::weighted(0.3, vec(pfx(), 1..3)),
            any::<u64>(),
            vec((any::<u16>(), 0u8..12, 0u8..4), 0..5),
        )
            .prop_map(|(mut anns, mut roas, mut held, scope, perm, derived)| {
                // some ROAs are derived from announcements (same or covering
                // prefix, same origin) so that valid and invalid-length
                // verdicts are common
                for (sel, shorten, mode) in derived {
                    if anns.is_empty() {
                        break;
                    }
                    let (asn, p, _) = anns[(sel as usize * anns.len()) >> 16];
                    let min = if p.v6 { 32 } else { 8 };
                    let len = p.len.saturating_sub(shorten).max(min.min(p.len));
                    let bits = if len == 0 { 0 } else { p.bits & (u128::MAX << (p.fam() - len) as u32) & if p.v6 { u128::MAX } else { 0xffff_ffff } };
                    let q = Pfx { v6: p.v6, bits, len };
                    let ml = match mode {
                        0 => None,
                        1 => Some(p.len),
                        2 => Some(p.len.saturating_sub(1).max(len)),
                        _ => Some(p.fam()),
                    };
                    roas.push((asn, q, ml));
                }
                // unique (prefix, origin) pairs, as in a RISwhois dump
                let mut seen = BTreeSet::new();
                anns.retain(|(a, p, _)| seen.insert((*a, *p)));
                // A CA that holds all of one address family is taken to hold
                // the /0 of the other family as well (the rpki crate compares
                // /0 prefixes without their family). Only a trust anchor
                // holds a /0; it is not generated as a held resource.
                held.retain(|p| p.len != 0);
                let scope = scope.map(|mut s: Vec<Pfx>| {
                    s.retain(|p| p.len != 0);
                    s
                }).filter(|s| !s.is_empty());
                // the CA usually holds the big blocks
                held.push(Pfx { v6: false, bits: (10u128) << 24, len: 8 });
                if perm % 3 != 0 {
                    held.push(Pfx { v6: true, bits: 0x2001_0db8u128 << 96, len: 32 });
                }
                Case { anns, roas, held, scope, perm }
            })
            .boxed()
    }

    fn run(case: &Case, _ctx: &Ctx) -> Outcome {
        let a = analyser();
        let line = |x: &(u32, Pfx, bool)| format!("{}\t{}\t{}\n", x.0, x.1.text(), if x.2 { 20 } else { 5 });
        let v4: String = std::iter::once("% test data\n\n".to_string()).chain(case.anns.iter().filter(|x| !x.1.v6).map(line)).collect();
        let v6: String = case.anns.iter().filter(|x| x.1.v6).map(line).collect();
        if let Err(e) = a.verif_load_announcements(v4.as_bytes(), v6.as_bytes()) {
            return Outcome::Harness(format!("load: {e}"));
        }
        let held = rset(&case.held);
        let scope = case.scope.as_ref().map(|s| rset(s));
        let roas: Vec<ConfiguredRoa> = case.roas.iter().map(configured).collect();
        let report = match guarded(|| a.analyse(&roas, &held, scope.clone())) {
            Ok(r) => r,
            Err(c) => return Outcome::Violation { clause: "crash".into(), key: super::crash_key(&c.what), msg: c.what },
        };
        let rv = serde_json::to_value(&report).unwrap_or(Value::Null);
        let entries: Vec<Value> = rv.as_array().cloned().or_else(|| rv["entries"].as_array().cloned()).unwrap_or_default();

        // brute force
        let eff_scope = scope.clone().unwrap_or_else(|| held.clone());
        let held_roas: Vec<(u32, Pfx, Option<u8>)> = case.roas.iter().filter(|r| in_set(&held, &r.1)).cloned().collect();
        // krill only analyses the ROAs that lie inside the limited scope
        let analysed_roas: Vec<(u32, Pfx, Option<u8>)> = match &scope {
            Some(s) => held_roas.iter().filter(|r| in_set(s, &r.1)).cloned().collect(),
            None => held_roas.clone(),
        };
        let mut expected: BTreeMap<(u32, String), Verdict> = BTreeMap::new();
        let mut multi = false;
        for (asn, p, seen) in &case.anns {
            if !*seen || !in_set(&eff_scope, p) {
                continue;
            }
            // the verdict of RFC 6811 over all ROAs the CA holds
            let v = validate(&(*asn, *p), &held_roas);
            expected.insert((*asn, p.text()), v);
            let cov: BTreeSet<u32> = held_roas.iter().filter(|r| r.1.covers(p)).map(|r| r.0).collect();
            if cov.len() >= 2 {
                multi = true;
            }
        }
        let mut got: BTreeMap<(u32, String), Verdict> = BTreeMap::new();
        let mut roa_entries: Vec<&Value> = Vec::new();
        for e in &entries {
            let st = e["state"].as_str().unwrap_or("");
            match state_of(st) {
                Some(v) => {
                    got.insert(ann_key(e), v);
                }
                None => roa_entries.push(e),
            }
        }
        let scoped = case.scope.is_some();
        if got != expected && scoped && analysed_roas.len() != held_roas.len() && !_ctx.strict
            && _ctx.is_known(Self::ID, "c17-announcements:with-roas-outside-limited-scope")
        {
            // known finding: with a limited scope krill ignores held ROAs
            // outside the scope; step over it by following krill there, so
            // that everything else is still compared
            crate::fw::soft_known("c17-announcements:with-roas-outside-limited-scope", "verdict differs because a covering ROA lies outside the limited scope");
            expected.clear();
            for (asn, p, seen) in &case.anns {
                if *seen && in_set(&eff_scope, p) {
                    expected.insert((*asn, p.text()), validate(&(*asn, *p), &analysed_roas));
                }
            }
        }
        if got != expected {
            let only_exp: Vec<_> = expected.iter().filter(|(k, v)| got.get(*k) != Some(*v)).take(3).collect();
            let only_got: Vec<_> = got.iter().filter(|(k, v)| expected.get(*k) != Some(*v)).take(3).collect();
            // is the difference explained by ROAs outside the limited scope?
            let key = if scoped && analysed_roas.len() != held_roas.len() { "with-roas-outside-limited-scope" } else { "verdicts" };
            return Outcome::Violation {
                clause: "c17-announcements".into(),
                key: key.into(),
                msg: format!("announcement verdicts differ from RFC 6811: expected {only_exp:?}, reported {only_got:?}; roas {:?} held {:?} scope {:?}", case.roas.iter().map(|r| (r.0, r.1.text(), r.2)).collect::<Vec<_>>(), case.held.iter().map(|p| p.text()).collect::<Vec<_>>(), case.scope.as_ref().map(|s| s.iter().map(|p| p.text()).collect::<Vec<_>>())),
            };
        }
        // per ROA attribution
        let in_scope_anns: Vec<(u32, Pfx)> = case.anns.iter().filter(|x| x.2 && in_set(&eff_scope, &x.1)).map(|x| (x.0, x.1)).collect();
        for e in &roa_entries {
            let st = e["state"].as_str().unwrap_or("");
            let asn = asn_of(&e["asn"]);
            let ptxt = e["prefix"].as_str().unwrap_or("").to_string();
            let Some(r) = case.roas.iter().find(|r| r.0 == asn && r.1.text() == ptxt && e["max_length"].as_u64().map(|m| m as u8) == r.2) else { continue };
            if st == "roa_not_held" {
                if in_set(&held, &r.1) {
                    return Outcome::Violation { clause: "c17-not-held".into(), key: "held-roa-reported-not-held".into(), msg: format!("ROA {e} is held but reported as not held") };
                }
                continue;
            }
            if !in_set(&held, &r.1) {
                return Outcome::Violation { clause: "c17-not-held".into(), key: "unheld-roa-analysed".into(), msg: format!("ROA {e} is not held but reported as {st}") };
            }
            let auth: BTreeSet<(u32, String)> = e["authorizes"].as_array().cloned().unwrap_or_default().iter().map(ann_key).collect();
            let dis: BTreeSet<(u32, String)> = e["disallows"].as_array().cloned().unwrap_or_default().iter().map(ann_key).collect();
            let exp_auth: BTreeSet<(u32, String)> = in_scope_anns
                .iter()
                .filter(|a| r.1.covers(&a.1) && r.0 == a.0 && maxlen(r) >= a.1.len)
                .map(|a| (a.0, a.1.text()))
                .collect();
            let exp_dis: BTreeSet<(u32, String)> = in_scope_anns
                .iter()
                .filter(|a| r.1.covers(&a.1) && matches!(validate(a, &analysed_roas), Verdict::InvalidAsn | Verdict::InvalidLength))
                .map(|a| (a.0, a.1.text()))
                .collect();
            if r.0 != 0 && st != "roa_redundant" || st == "roa_redundant" {
                if r.0 != 0 && auth != exp_auth {
                    return Outcome::Violation {
                        clause: "c17-roa-authorizes".into(),
                        key: st.into(),
                        msg: format!("ROA {}-{:?} => {} ({st}) reports authorizes {auth:?}, validation attributes {exp_auth:?}", ptxt, r.2, r.0),
                    };
                }
                if r.0 != 0 && dis != exp_dis {
                    return Outcome::Violation {
                        clause: "c17-roa-disallows".into(),
                        key: st.into(),
                        msg: format!("ROA {}-{:?} => {} ({st}) reports disallows {dis:?}, validation attributes {exp_dis:?}", ptxt, r.2, r.0),
                    };
                }
            }
            if st == "roa_as0" {
                let exp: BTreeSet<(u32, String)> = in_scope_anns.iter().filter(|a| r.1.covers(&a.1)).map(|a| (a.0, a.1.text())).collect();
                if dis != exp {
                    return Outcome::Violation { clause: "c17-roa-disallows".into(), key: "roa_as0".into(), msg: format!("AS0 ROA {ptxt} reports disallows {dis:?}, covered announcements are {exp:?}") };
                }
            }
        }
        // suggestions never remove a ROA that validates an announcement
        let sugg = match guarded(|| a.suggest(&roas, &held, scope.clone())) {
            Ok(s) => s,
            Err(c) => return Outcome::Violation { clause: "crash".into(), key: super::crash_key(&c.what), msg: c.what },
        };
        let sv = serde_json::to_value(&sugg).unwrap_or(Value::Null);
        let payload = |v: &Value| -> (u32, String, Option<u8>) { (asn_of(&v["asn"]), v["prefix"].as_str().unwrap_or("").to_string(), v["max_length"].as_u64().map(|m| m as u8)) };
        let mut removed: BTreeSet<(u32, String, Option<u8>)> = BTreeSet::new();
        let mut added: Vec<(u32, Pfx, Option<u8>)> = Vec::new();
        for k in ["stale", "disallowing", "redundant", "as0_redundant", "not_held"] {
            for r in sv[k].as_array().cloned().unwrap_or_default() {
                removed.insert(payload(&r));
            }
        }
        let parse_pfx = |s: &str| -> Option<Pfx> {
            let (a, l) = s.split_once('/')?;
            let len: u8 = l.parse().ok()?;
            if a.contains(':') {
                Some(Pfx { v6: true, bits: u128::from(a.parse::<Ipv6Addr>().ok()?), len })
            } else {
                Some(Pfx { v6: false, bits: u32::from(a.parse::<Ipv4Addr>().ok()?) as u128, len })
            }
        };
        for t in sv["too_permissive"].as_array().cloned().unwrap_or_default() {
            removed.insert(payload(&t["current"]));
            for n in t["new"].as_array().cloned().unwrap_or_default() {
                let (a, p, m) = payload(&n);
                if let Some(p) = parse_pfx(&p) {
                    added.push((a, p, m));
                }
            }
        }
        let mut after: Vec<(u32, Pfx, Option<u8>)> = analysed_roas.iter().filter(|r| !removed.contains(&(r.0, r.1.text(), r.2))).cloned().collect();
        after.extend(added);
        for ann in &in_scope_anns {
            if validate(ann, &analysed_roas) == Verdict::Valid && validate(ann, &after) != Verdict::Valid {
                // which kind of inconsistency?
                let mut eff: BTreeSet<(u32, String, u8)> = BTreeSet::new();
                let mut dup = false;
                for r in analysed_roas.iter().filter(|r| removed.contains(&(r.0, r.1.text(), r.2))) {
                    if !eff.insert((r.0, r.1.text(), maxlen(r))) {
                        dup = true;
                    }
                }
                let key = if dup {
                    "removes-validating-roa--mutually-redundant-duplicates"
                } else if sv["too_permissive"].as_array().map(|a| !a.is_empty()).unwrap_or(false) {
                    "removes-validating-roa--too-permissive-replacement-incomplete"
                } else {
                    "removes-validating-roa"
                };
                if !_ctx.strict && key != "removes-validating-roa" && _ctx.is_known(Self::ID, &format!("c17-suggestion:{key}")) {
                    crate::fw::soft_known(&format!("c17-suggestion:{key}"), &format!("suggestion {sv} invalidates {} => AS{}", ann.1.text(), ann.0));
                    break;
                }
                return Outcome::Violation {
                    clause: "c17-suggestion".into(),
                    key: key.into(),
                    msg: format!("following the suggestion ({sv}) would make the currently valid announcement {} => AS{} no longer valid", ann.1.text(), ann.0),
                };
            }
        }
        // metamorphic: the order of the configured ROAs does not matter
        if roas.len() > 1 {
            let mut shuffled = roas.clone();
            let n = shuffled.len();
            let mut x = case.perm | 1;
            for i in (1..n).rev() {
                x ^= x << 13;
                x ^= x >> 7;
                x ^= x << 17;
                shuffled.swap(i, (x % (i as u64 + 1)) as usize);
            }
            if let Ok(r2) = guarded(|| a.analyse(&shuffled, &held, scope.clone())) {
                let rv2 = serde_json::to_value(&r2).unwrap_or(Value::Null);
                let e2: Vec<Value> = rv2.as_array().cloned().or_else(|| rv2["entries"].as_array().cloned()).unwrap_or_default();
                let mut got2: BTreeMap<(u32, String), Verdict> = BTreeMap::new();
                for e in &e2 {
                    if let Some(v) = state_of(e["state"].as_str().unwrap_or("")) {
                        got2.insert(ann_key(e), v);
                    }
                }
                if got2 != got {
                    return Outcome::Violation { clause: "c17-permutation".into(), key: "order-dependent".into(), msg: "announcement verdicts depend on the order of the configured ROAs".into() };
                }
            }
        }
        let mut classes = Vec::new();
        if multi {
            classes.push("announcement_covered_by_roas_of_two_origins".to_string());
        }
        let equal_pair = case.anns.iter().any(|a| case.roas.iter().any(|r| r.1 == a.1));
        if equal_pair {
            classes.push("equal_prefix_pair".into());
        }
        if case.roas.iter().any(|r| r.1.len == 0) || case.anns.iter().any(|a| a.1.len == 0) {
            classes.push("slash_zero".into());
        }
        if case.roas.iter().any(|r| maxlen(r) == r.1.fam()) {
            classes.push("family_max_length".into());
        }
        if scoped {
            classes.push("limited_scope".into());
        }
        if case.roas.iter().any(|r| r.0 == 0) {
            classes.push("as0_roa".into());
        }
        for v in got.values() {
            classes.push(format!("verdict:{v:?}"));
        }
        classes.sort();
        classes.dedup();
        let nontrivial = multi || equal_pair;
        Outcome::Pass { nontrivial, classes, size: case.anns.len() + case.roas.len() }
    }

    fn sample(case: &Case) -> Value {
        serde_json::json!({
            "announcements": case.anns.iter().take(12).map(|a| format!("{} => AS{}{}", a.1.text(), a.0, if a.2 { "" } else { " (few peers)" })).collect::<Vec<_>>(),
            "roas": case.roas.iter().map(|r| format!("{}-{:?} => AS{}", r.1.text(), r.2, r.0)).collect::<Vec<_>>(),
            "held": case.held.iter().map(|p| p.text()).collect::<Vec<_>>(),
            "scope": case.scope.as_ref().map(|s| s.iter().map(|p| p.text()).collect::<Vec<_>>()),
        })
    }
}
