//! C16, HTTP part: the real daemon in-process; requests whose path segments,
//! query strings and bodies are derived from the route table by mutation.
//! Oracle: no panic anywhere in the process, the daemon keeps answering, and a
//! request that is answered with an error leaves the configuration unchanged.
use std::collections::BTreeMap;
use std::sync::atomic::Ordering;
use std::sync::OnceLock;

use proptest::collection::vec;
use proptest::prelude::*;
use serde::{Deserialize, Serialize};
use serde_json::Value;

use super::c13::table;
use super::c16::{char_edit, edit_chars, json_mut, mutate_json, mutate_text, nasty, text_mut, CharEdit, JsonMut, TextMut};
use crate::fw::Outcome;
use crate::httpd::{Daemon, DaemonCfg, Reply, Transport, UserDef};

const ADMIN: &str = "Adm1n-T0ken/verif+x9";

#[derive(Clone, Debug, Serialize, Deserialize)]
pub enum Seg {
    /// the name of something that exists
    Valid,
    /// the n-th nasty string, percent-encoded
    Nasty(u8),
    /// the n-th special path segment (dots, encoded slashes, numbers at the limits, ...)
    Special(u8),
    /// the n-th nasty string, raw (may be refused by the HTTP layer)
    Raw(u8),
    /// the valid name with character-level edits, percent-encoded
    Edit(Vec<CharEdit>),
    /// the n-th integer of `NUMBERS` (limits of the integer types, and values just inside them that
    /// are absurd as a count, an offset, an age or a time) - for the segments that are parsed as numbers
    Number(u8),
}

#[derive(Clone, Debug, Serialize, Deserialize)]
pub enum Body {
    /// what the route expects, valid
    Valid,
    /// the valid body with tree-level mutations
    Json(Vec<JsonMut>),
    /// the XML form (RFC 8183 exchange files) with token-level mutations
    Xml(Vec<TextMut>),
    Raw(Vec<u8>),
    NastyText(u8),
    Absent,
}

#[derive(Clone, Debug, Serialize, Deserialize)]
pub struct HttpIn {
    pub route: u16,
    pub segs: Vec<Seg>,
    pub suffix: Option<Seg>,
    pub query: Option<(u8, u8)>,
    pub body: Body,
    /// 0: none, 1: garbage, else admin
    pub cred: u8,
    pub content_type: u8,
}

const SPECIAL: &[&str] = &[
    "..", ".", "%2e%2e", "%2F", "%2f..%2f", "%00", "%", "%zz", "%c3%28", "%F0%9F%92%A9", "~", "*", "0", "1", "-1", "00", "10", "4294967295", "4294967296", "9223372036854775807", "9223372036854775808",
    "18446744073709551615", "18446744073709551616", "99999999999999999999999", "1e3", "0x10", "+1", "1.0", "%D9%A3", "ca1", "CA1", "ca1%20", "ca1%00", "ta", "testbed", "c1", "p1", "AS64496", "as64496", "64496", "AS0", "AS4294967296",
    "AS-1", "ROUTER-0000FBF0-0000000000000000000000000000000000000000", "ROUTER-0000FBF0-", "ROUTER-FFFFFFFFF-00", "notification.xml", "snapshot.xml", "index.html", "ta.cer", "x.json", "a/b", "a%2Fb/c",
];

const NUMBERS: &[&str] = &[
    "0", "1", "-1", "2", "255", "256", "65535", "65536", "2147483647", "2147483648", "-2147483648", "-2147483649", "4294967295", "4294967296", "1000000000000", "-1000000000000", "10000000000000",
    "-10000000000000", "8210000000000", "8220000000000", "-8220000000000", "253402300799", "253402300800", "-62167219200", "-62167219201", "1000000000000000", "1000000000000000000", "-1000000000000000000",
    "9223372036854775806", "9223372036854775807", "9223372036854775808", "-9223372036854775807", "-9223372036854775808", "-9223372036854775809", "18446744073709551614", "18446744073709551615",
    "18446744073709551616", "9223372036854775", "9223372036854776", "-9223372036854776", "+9223372036854775807", "09223372036854775807",
];

fn pct(s: &str) -> String {
    let mut out = String::new();
    for b in s.bytes().take(3000) {
        if b.is_ascii_alphanumeric() || b"-._~".contains(&b) {
            out.push(b as char);
        } else {
            out.push_str(&format!("%{b:02X}"));
        }
    }
    out
}

fn seg_text(s: &Seg, valid: &str) -> String {
    match s {
        Seg::Valid => valid.to_string(),
        Seg::Nasty(n) => pct(&nasty(*n)),
        Seg::Special(n) => SPECIAL[*n as usize % SPECIAL.len()].to_string(),
        Seg::Edit(e) => pct(&edit_chars(valid, e)),
        Seg::Number(n) => NUMBERS[*n as usize % NUMBERS.len()].to_string(),
        Seg::Raw(n) => nasty(*n).chars().filter(|c| !c.is_whitespace() && !c.is_control()).take(3000).collect(),
    }
}

pub fn http_in() -> impl Strategy<Value = HttpIn> {
    let seg = prop_oneof![4 => Just(Seg::Valid), 3 => any::<u8>().prop_map(Seg::Nasty), 4 => any::<u8>().prop_map(Seg::Special), 3 => any::<u8>().prop_map(Seg::Number), 1 => any::<u8>().prop_map(Seg::Raw), 4 => vec(char_edit(), 1..3).prop_map(Seg::Edit)];
    let body = prop_oneof![
        2 => Just(Body::Valid),
        8 => vec(json_mut(), 1..4).prop_map(Body::Json),
        3 => vec(text_mut(), 0..4).prop_map(Body::Xml),
        1 => vec(any::<u8>(), 0..120).prop_map(Body::Raw),
        1 => any::<u8>().prop_map(Body::NastyText),
        1 => Just(Body::Absent),
    ];
    (
        any::<u16>(),
        vec(seg.clone(), 0..5),
        prop_oneof![5 => Just(None), 1 => seg.prop_map(Some)],
        prop_oneof![4 => Just(None), 1 => (any::<u8>(), any::<u8>()).prop_map(Some)],
        body,
        prop_oneof![1 => Just(0u8), 1 => Just(1u8), 14 => Just(2u8)],
        0u8..8,
    )
        .prop_map(|(route, segs, suffix, query, body, cred, content_type)| HttpIn { route, segs, suffix, query, body, cred, content_type })
}

pub struct Run {
    d: Daemon,
    pub stats: BTreeMap<String, usize>,
    known: Vec<String>,
    id_ca2: String,
    pubreq: Value,
    child_req_xml: String,
    pub_req_xml: String,
    parent_resp_xml: String,
    repo_resp_xml: String,
}

type Bad = (String, String, String);

fn ok(r: Reply, what: &str) -> Result<Reply, String> {
    if r.status == 200 {
        Ok(r)
    } else {
        Err(format!("{what}: {} {}", r.status, r.text()))
    }
}

impl Run {
    pub fn start(known: Vec<String>) -> Result<Run, String> {
        let cfg = DaemonCfg { admin_token: ADMIN.into(), config_file_auth: false, roles: vec![], users: Vec::<UserDef>::new(), unix_role: None, testbed: true, tcp: true, disk: false };
        let d = Daemon::start(&cfg, &BTreeMap::new())?;
        let mut run = Run { d, stats: Default::default(), known, id_ca2: String::new(), pubreq: Value::Null, child_req_xml: String::new(), pub_req_xml: String::new(), parent_resp_xml: String::new(), repo_resp_xml: String::new() };
        run.ensure_baseline()?;
        Ok(run)
    }

    fn hit(&mut self, k: &str) {
        *self.stats.entry(k.to_string()).or_default() += 1;
    }

    fn admin(&self, method: &str, path: &str, body: Option<&str>) -> Result<Reply, String> {
        let mut hs = vec![("Authorization".to_string(), format!("Bearer {ADMIN}"))];
        if body.is_some() {
            hs.push(("Content-Type".into(), "application/json".into()));
        }
        self.d.request(Transport::Tcp, method, path, &hs, body.map(|b| b.as_bytes()))
    }

    /// ca1: child of the testbed CA with a repository, a ROA, an ASPA and the child c1 (= ca2); ca2: a repository and the parent p1 (= ca1).
    fn ensure_baseline(&mut self) -> Result<(), String> {
        let list = self.admin("GET", "/api/v1/cas", None)?.json().unwrap_or_default();
        let have: Vec<String> = list.get("cas").and_then(|c| c.as_array()).map(|a| a.iter().filter_map(|x| x.get("handle").and_then(|h| h.as_str()).map(|s| s.to_string())).collect()).unwrap_or_default();
        if !have.iter().any(|c| c == "testbed") {
            return Err(format!("the testbed CAs are gone: {have:?}"));
        }
        for ca in &have {
            if !["ca1", "ca2", "ta", "testbed"].contains(&ca.as_str()) {
                let _ = self.admin("DELETE", &format!("/api/v1/cas/{}", pct(ca)), None)?;
            }
        }
        for ca in ["ca1", "ca2"] {
            if !have.iter().any(|c| c == ca) {
                ok(self.admin("POST", "/api/v1/cas", Some(&format!("{{\"handle\": \"{ca}\"}}")))?, "create CA")?;
            }
            if self.admin("GET", &format!("/api/v1/cas/{ca}/repo"), None)?.status != 200 {
                let pr = ok(self.admin("GET", &format!("/api/v1/cas/{ca}/id/publisher_request.json"), None)?, "publisher request")?;
                let _ = self.admin("DELETE", &format!("/api/v1/pubd/publishers/{ca}"), None)?;
                ok(self.admin("POST", "/api/v1/pubd/publishers", Some(&pr.text()))?, "add publisher")?;
                let rr = ok(self.admin("GET", &format!("/api/v1/pubd/publishers/{ca}/response.json"), None)?, "repository response")?;
                let body = serde_json::json!({"repository_response": rr.json().unwrap_or_default()});
                ok(self.admin("POST", &format!("/api/v1/cas/{ca}/repo"), Some(&body.to_string()))?, "configure repository")?;
            }
        }
        let id_of = |run: &Run, ca: &str| -> Result<String, String> {
            let req = ok(run.admin("GET", &format!("/api/v1/cas/{ca}/id/child_request.json"), None)?, "child request")?;
            req.json().and_then(|j| j.get("id_cert").and_then(|c| c.as_str()).map(|s| s.to_string())).ok_or("no id_cert in child request".to_string())
        };
        // ca1 under the testbed CA
        if !self.admin("GET", "/api/v1/cas/ca1/parents", None)?.text().contains("\"p1\"") {
            let idc = id_of(self, "ca1")?;
            let _ = self.admin("DELETE", "/api/v1/cas/testbed/children/ca1", None)?;
            let body = serde_json::json!({"handle": "ca1", "resources": {"asn": "AS64496-AS64511", "ipv4": "10.0.0.0/16", "ipv6": "2001:db8::/32"}, "id_cert": idc});
            ok(self.admin("POST", "/api/v1/cas/testbed/children", Some(&body.to_string()))?, "add child ca1")?;
            let resp = ok(self.admin("GET", "/api/v1/cas/testbed/children/ca1/parent_response.json", None)?, "parent response")?;
            let body = serde_json::json!({"handle": "p1", "response": resp.json().unwrap_or_default()});
            ok(self.admin("POST", "/api/v1/cas/ca1/parents", Some(&body.to_string()))?, "add parent")?;
        }
        // wait for the certificate (background tasks of the real scheduler)
        let t0 = std::time::Instant::now();
        loop {
            let j = self.admin("GET", "/api/v1/cas/ca1", None)?.json().unwrap_or_default();
            let certified = j.get("resources").and_then(|r| r.get("ipv4")).and_then(|v| v.as_str()).map(|s| s.contains("10.0.0.0/16")).unwrap_or(false);
            if certified {
                break;
            }
            if t0.elapsed().as_secs() > 60 {
                return Err(format!("ca1 was not certified within 60 s: {j}"));
            }
            std::thread::sleep(std::time::Duration::from_millis(25));
        }
        // ca2 as child c1 of ca1
        self.id_ca2 = id_of(self, "ca2")?;
        if self.admin("GET", "/api/v1/cas/ca1/children/c1", None)?.status != 200 {
            let body = serde_json::json!({"handle": "c1", "resources": {"asn": "AS64500", "ipv4": "10.0.128.0/24", "ipv6": ""}, "id_cert": self.id_ca2});
            ok(self.admin("POST", "/api/v1/cas/ca1/children", Some(&body.to_string()))?, "add child c1")?;
        }
        if !self.admin("GET", "/api/v1/cas/ca2/parents", None)?.text().contains("\"p1\"") {
            let resp = ok(self.admin("GET", "/api/v1/cas/ca1/children/c1/parent_response.json", None)?, "parent response of ca1")?;
            let body = serde_json::json!({"handle": "p1", "response": resp.json().unwrap_or_default()});
            ok(self.admin("POST", "/api/v1/cas/ca2/parents", Some(&body.to_string()))?, "add parent to ca2")?;
        }
        let routes = self.admin("GET", "/api/v1/cas/ca1/routes", None)?;
        if !routes.text().contains("10.0.1.0/24") {
            let _ = self.admin("POST", "/api/v1/cas/ca1/routes", Some("{\"added\": [{\"asn\": 64496, \"prefix\": \"10.0.1.0/24\", \"max_length\": 24, \"comment\": \"base\"}], \"removed\": []}"))?;
        }
        if !self.admin("GET", "/api/v1/cas/ca1/aspas", None)?.text().contains("64497") {
            let _ = self.admin("POST", "/api/v1/cas/ca1/aspas", Some("{\"add_or_replace\": [{\"customer\": 64496, \"providers\": [64497]}], \"remove\": []}"))?;
        }
        if self.pubreq.is_null() {
            self.pubreq = ok(self.admin("GET", "/api/v1/cas/ca2/id/publisher_request.json", None)?, "publisher request")?.json().unwrap_or_default();
            self.child_req_xml = self.admin("GET", "/api/v1/cas/ca2/id/child_request.xml", None)?.text();
            self.pub_req_xml = self.admin("GET", "/api/v1/cas/ca2/id/publisher_request.xml", None)?.text();
            self.parent_resp_xml = self.admin("GET", "/api/v1/cas/ca1/children/c1/parent_response.xml", None)?.text();
            self.repo_resp_xml = self.admin("GET", "/api/v1/pubd/publishers/ca2/response.xml", None)?.text();
        }
        Ok(())
    }

    /// The configuration an administrator sees (nothing that background
    /// synchronisation changes on its own).
    fn digest(&self) -> Result<String, String> {
        let mut out = String::new();
        let names = |r: &Reply| -> String {
            let j = r.json().unwrap_or_default();
            let mut v: Vec<String> = j.get("cas").and_then(|c| c.as_array()).map(|a| a.iter().filter_map(|x| x.get("handle").and_then(|h| h.as_str()).map(|s| s.to_string())).collect()).unwrap_or_default();
            v.sort();
            v.join(",")
        };
        out.push_str(&names(&self.admin("GET", "/api/v1/cas", None)?));
        for ca in ["ca1", "ca2"] {
            for view in ["routes", "aspas", "bgpsec"] {
                let r = self.admin("GET", &format!("/api/v1/cas/{ca}/{view}"), None)?;
                // the configuration, not the objects issued for it (those follow in the background)
                let mut j = r.json().unwrap_or_default();
                if let Some(a) = j.as_array_mut() {
                    for x in a.iter_mut() {
                        if let Some(m) = x.as_object_mut() {
                            m.remove("roa_objects");
                        }
                    }
                }
                out.push_str(&format!("|{ca}/{view}:{} {}", r.status, j));
            }
            let c = self.admin("GET", &format!("/api/v1/cas/{ca}"), None)?.json().unwrap_or_default();
            // (the parents the CA has: GET .../parents lists the status entries, which also
            // remember a parent that was probed and then refused)
            out.push_str(&format!("|{ca}/parents:{}", c.get("parents").cloned().unwrap_or_default()));
            out.push_str(&format!("|{ca}/children:{}|{ca}/suspended:{}|{ca}/id:{}", c.get("children").cloned().unwrap_or_default(), c.get("suspended_children").cloned().unwrap_or_default(), c.get("id_cert").and_then(|i| i.get("hash")).cloned().unwrap_or_default()));
        }
        let c1 = self.admin("GET", "/api/v1/cas/ca1/children/c1", None)?;
        let c1j = c1.json().unwrap_or_default();
        out.push_str(&format!("|c1:{} {} {} {}", c1.status, c1j.get("entitled_resources").cloned().unwrap_or_default(), c1j.get("state").cloned().unwrap_or_default(), c1j.get("id_cert").and_then(|i| i.get("hash")).cloned().unwrap_or_default()));
        let p = self.admin("GET", "/api/v1/pubd/publishers", None)?;
        out.push_str(&format!("|pubd:{} {}", p.status, p.text()));
        Ok(out)
    }

    fn valid_body(&self, ty: Option<&str>) -> Value {
        match ty {
            Some("RoaConfigurationUpdates") => serde_json::json!({"added": [{"asn": 64496, "prefix": "10.0.2.0/24", "max_length": 24, "comment": "x"}, {"asn": 64497, "prefix": "2001:db8::/48"}], "removed": [{"asn": 64496, "prefix": "10.0.1.0/24", "max_length": 24}]}),
            Some("AspaDefinitionUpdates") => serde_json::json!({"add_or_replace": [{"customer": 64498, "providers": [64497, 64499]}], "remove": [64496]}),
            Some("AspaProvidersUpdate") => serde_json::json!({"added": [64499], "removed": [64497]}),
            Some("BgpSecDefinitionUpdates") => serde_json::json!({"add": [{"asn": 64496, "csr": crate::csr::pool()[0].0.clone()}], "remove": ["ROUTER-0000FBF0-6E3B8B4F5DCD0F4A5E0A8F3F0B0E0D0C0B0A0908"]}),
            Some("AddChildRequest") => serde_json::json!({"handle": "c9", "resources": {"asn": "AS64501", "ipv4": "10.0.200.0/24", "ipv6": ""}, "id_cert": self.id_ca2}),
            Some("UpdateChildRequest") => serde_json::json!({"id_cert": null, "resources": {"asn": "AS64500", "ipv4": "10.0.128.0/23", "ipv6": ""}, "suspend": null}),
            Some("ImportChild") => serde_json::json!({"name": "c8", "id_cert": self.id_ca2, "resources": {"0": {"resources": {"asn": "", "ipv4": "10.0.201.0/24", "ipv6": ""}, "issued": []}}}),
            Some("CertAuthInit") => serde_json::json!({"handle": "ca3"}),
            Some("PublisherRequest") => {
                let mut p = self.pubreq.clone();
                if let Some(m) = p.as_object_mut() {
                    m.insert("publisher_handle".into(), Value::String("pub9".into()));
                }
                p
            }
            Some("ResourceSet") => serde_json::json!({"asn": "AS64496", "ipv4": "10.0.0.0/16", "ipv6": ""}),
            Some("RepoFileDeleteCriteria") => serde_json::json!({"base_uri": "rsync://krill.example.org/repo/none/"}),
            Some("PublicationServerUris") => serde_json::json!({"rrdp_base_uri": "https://krill.example.org/rrdp/", "rsync_jail": "rsync://krill.example.org/repo/"}),
            Some("Structure") => serde_json::json!({"ta": {"ta_aia": "rsync://krill.example.org/ta/ta.cer", "ta_uri": "https://krill.example.org/ta/ta.cer", "ta_key_pem": null},
                "cas": [{"handle": "n1", "parent": [{"handle": "ta", "resources": {"asn": "AS64496", "ipv4": "10.0.0.0/16", "ipv6": ""}}], "roas": [{"asn": 64496, "prefix": "10.0.0.0/16", "max_length": 16}]}]}),
            Some("ParentCaReq") => serde_json::json!({"handle": "p2", "response": {"tag": null, "id_cert": self.id_ca2, "parent_handle": "other", "child_handle": "ca1", "service_uri": "https://other.example.org/rfc6492/other"}}),
            Some("ApiRepositoryContact") => serde_json::json!({"repository_response": {"tag": null, "id_cert": self.id_ca2, "publisher_handle": "ca1", "service_uri": "https://other.example.org/rfc8181/ca1", "repo_info": {"sia_base": "rsync://other.example.org/repo/ca1/", "rrdp_notification_uri": "https://other.example.org/rrdp/notification.xml"}}}),
            Some("TrustAnchorSignerInfo") => serde_json::json!({"id": {"public_key": "", "base64": self.id_ca2, "hash": "00"}, "tal": "rsync://krill.example.org/ta/ta.cer\n\nMIIB", "objects": {"revision": {"number": 1, "this_update": "2024-01-01T00:00:00Z", "next_update": "2024-02-01T00:00:00Z"}, "key_identifier": "00", "base_uri": "rsync://krill.example.org/repo/ta/", "revocations": [], "manifest": "", "crl": "", "issued": {}}, "ta_cert_details": {}}),
            Some("TrustAnchorSignedResponse") => serde_json::json!({"nonce": "x", "child_responses": {}, "objects": {}, "signed": "AAAA"}),
            _ => serde_json::json!({"verif": true}),
        }
    }

    fn xml_body(&self, ty: Option<&str>, path: &str) -> String {
        match ty {
            Some("AddChildRequest") => self.child_req_xml.clone(),
            Some("PublisherRequest") => self.pub_req_xml.clone(),
            Some("ParentCaReq") => self.parent_resp_xml.clone(),
            Some("ApiRepositoryContact") => self.repo_resp_xml.clone(),
            _ => {
                if path.contains("children") {
                    self.child_req_xml.clone()
                } else {
                    self.repo_resp_xml.clone()
                }
            }
        }
    }

    pub fn step(&mut self, inp: &HttpIn) -> Result<Result<(), Bad>, String> {
        let t = table();
        let r = &t.routes[(inp.route as usize * t.routes.len()) >> 16];
        // the OpenID callback and the logout are not data parsers of the CA
        // the path: placeholders filled in order
        let mut path = String::new();
        let mut k = 0;
        let mut all_valid = true;
        for (i, part) in r.path.split('/').enumerate() {
            if i > 0 {
                path.push('/');
            }
            if part.starts_with('{') {
                let valid = match part {
                    "{ca}" => if inp.route & 1 == 0 { "ca1" } else { "ca2" },
                    "{child}" => "c1",
                    "{parent}" => "p1",
                    "{publisher}" => "ca2",
                    "{key}" => "1",
                    _ => {
                        if r.path.contains("/aspas/as/") {
                            "AS64496"
                        } else if r.path.contains("/rrdp/") {
                            "notification.xml"
                        } else {
                            "10"
                        }
                    }
                };
                let s = inp.segs.get(k).cloned().unwrap_or(Seg::Valid);
                if !matches!(s, Seg::Valid) {
                    all_valid = false;
                }
                path.push_str(&seg_text(&s, valid));
                k += 1;
            } else {
                path.push_str(part);
            }
        }
        if let Some(s) = &inp.suffix {
            path.push('/');
            path.push_str(&seg_text(s, "x"));
            all_valid = false;
        }
        if let Some((a, b)) = inp.query {
            path.push_str(&format!("?{}={}", pct(&nasty(a)), pct(&nasty(b))));
        }
        let ty = r.body_type.as_deref();
        // A route that takes no body refuses a request that has one before it looks at the path
        // (`request.empty()`): three times in four such a route is sent no body, so that the
        // mutated path segments and queries get behind that check.
        let bodyless = r.body == "none" && inp.content_type % 4 != 0;
        let (body, json_like): (Option<Vec<u8>>, bool) = match (&inp.body, r.body.as_str()) {
            _ if bodyless => (None, false),
            (Body::Absent, _) => (None, false),
            (Body::Valid, "none") => (None, false),
            (Body::Valid, "bytes") => (Some(b"x".to_vec()), false),
            (Body::Valid, _) => (Some(self.valid_body(ty).to_string().into_bytes()), true),
            (Body::Json(m), _) => (Some(mutate_json(self.valid_body(ty), m).to_string().into_bytes()), true),
            (Body::Xml(m), _) => (Some(mutate_text(&self.xml_body(ty, &r.path), m).into_bytes()), false),
            (Body::Raw(b), _) => (Some(b.clone()), false),
            (Body::NastyText(n), _) => (Some(nasty(*n).into_bytes()), false),
        };
        let mut hs: Vec<(String, String)> = Vec::new();
        match inp.cred {
            0 => {}
            1 => hs.push(("Authorization".into(), format!("Bearer {}", pct(&nasty(inp.content_type.wrapping_mul(37)))))),
            _ => hs.push(("Authorization".into(), format!("Bearer {ADMIN}"))),
        }
        if body.is_some() {
            let ct = match inp.content_type {
                0 => None,
                1 => Some("application/xml"),
                2 => Some("text/plain; charset=utf-16"),
                3 => Some("application/rpki-updown"),
                _ => Some(if json_like { "application/json" } else { "application/xml" }),
            };
            if let Some(ct) = ct {
                hs.push(("Content-Type".into(), ct.into()));
            }
        }
        let what = format!("{} {} (route {}, body {:?})", r.method, path.chars().take(300).collect::<String>(), r.path, body.as_ref().map(|b| String::from_utf8_lossy(&b[..b.len().min(400)]).to_string()));

        let before = self.digest()?;
        let panics0 = crate::world::PANIC_COUNT.load(Ordering::SeqCst);
        let tr = if inp.route & 2 == 0 { Transport::Tcp } else { Transport::Unix };
        let reply = self.d.request(tr, &r.method, &path, &hs, body.as_deref());
        // a panicking handler may take a moment to unwind on another thread
        if reply.is_err() {
            std::thread::sleep(std::time::Duration::from_millis(30));
        }
        let panics1 = crate::world::PANIC_COUNT.load(Ordering::SeqCst);
        if panics1 != panics0 {
            let loc = crate::world::last_panic_location().unwrap_or_else(|| "unknown".into());
            let sig = format!("c16-panic:{loc}");
            if self.known.iter().any(|k| sig.starts_with(k.as_str())) {
                crate::fw::soft_known(&sig, &what);
                self.hit("known_panic_stepped_over");
                return Ok(Ok(()));
            }
            return Ok(Err(("c16-panic".into(), loc, format!("{what}: a thread of the daemon panicked (reply: {:?})", reply.as_ref().map(|r| r.status)))));
        }
        let health = self.d.request(Transport::Tcp, "GET", "/health", &[], None);
        if !matches!(&health, Ok(h) if h.status == 200) {
            return Ok(Err(("c16-daemon-down".into(), format!("{} {}", r.method, r.path), format!("{what}: the daemon does not answer /health afterwards ({:?})", health.map(|h| h.status)))));
        }
        let status = match &reply {
            Ok(rep) => rep.status,
            Err(_) => 0,
        };
        let class = match status {
            0 => "no-reply(refused-by-http-layer)",
            200..=299 => "2xx",
            300..=399 => "3xx",
            400 => "400",
            401 | 403 => "401/403",
            404 => "404",
            405..=499 => "4xx",
            _ => "5xx",
        };
        self.hit(&format!("http:{class}"));
        if inp.cred >= 2 && !all_valid && r.path.starts_with("/api/") {
            self.hit("http:mutated-path-behind-auth");
        }
        if inp.cred >= 2 && matches!(inp.body, Body::Json(_) | Body::Xml(_)) && r.body != "none" {
            self.hit(&format!("http:mutated-body:{}", if (200..300).contains(&status) { "accepted" } else { "refused" }));
        }
        if !(200..300).contains(&status) {
            let after = self.digest()?;
            if before != after {
                if r.method == "GET" {
                    self.hit("http:digest-noise");
                } else {
                    return Ok(Err(("c16-error-changed-state".into(), format!("{} {}", r.method, r.path), format!("{what}: answered {status} ({}) but the configuration changed:\nbefore {before}\nafter  {after}", reply.as_ref().map(|r| r.text().chars().take(300).collect::<String>()).unwrap_or_default()))));
                }
            }
        } else if r.method != "GET" {
            self.ensure_baseline()?;
        }
        Ok(Ok(()))
    }

    pub fn stop(mut self) -> Result<BTreeMap<String, usize>, String> {
        self.d.stop()?;
        Ok(self.stats)
    }
}

pub fn run(inputs: &[HttpIn], known: Vec<String>) -> Outcome {
    static ONCE: OnceLock<()> = OnceLock::new();
    ONCE.get_or_init(|| {
        let _ = table();
    });
    let mut run = match Run::start(known) {
        Ok(r) => r,
        Err(e) => return Outcome::Harness(format!("daemon: {e}")),
    };
    let mut out = None;
    for (i, inp) in inputs.iter().enumerate() {
        match run.step(inp) {
            Err(e) => {
                out = Some(Outcome::Harness(format!("http input #{i} {inp:?}: {e}")));
                break;
            }
            Ok(Err((clause, key, msg))) => {
                out = Some(Outcome::Violation { clause, key, msg: format!("http input #{i}: {msg}") });
                break;
            }
            Ok(Ok(())) => {}
        }
    }
    let stats = match run.stop() {
        Ok(s) => s,
        Err(e) => {
            return out.unwrap_or(Outcome::Harness(format!("stopping the daemon: {e}")));
        }
    };
    if let Some(o) = out {
        return o;
    }
    let classes: Vec<String> = stats.keys().cloned().collect();
    let nontrivial = stats.contains_key("http:mutated-path-behind-auth") && stats.keys().any(|k| k.starts_with("http:mutated-body:"));
    Outcome::Pass { nontrivial, classes, size: inputs.len() }
}
