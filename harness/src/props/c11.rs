//! C11 — RRDP and rsync views are consistent for every client at every
//! instant.
use std::collections::BTreeMap;

use bytes::Bytes;
use proptest::collection::vec;
use proptest::prelude::*;
use proptest::strategy::BoxedStrategy;
use serde::{Deserialize, Serialize};

use crate::clock;
use crate::enginep::{canon, el, POp, PubWorld};
use crate::fw::{Ctx, Outcome, Prop, Tier};
use crate::hooks::{self, FaultMode};
use crate::rrdpc;
use crate::world::{guarded, WorldCfg};

pub struct C11;

fn dirty_rsync_ok(_dirty: &mut bool) -> bool {
    false
}

#[derive(Clone, Debug, Serialize, Deserialize)]
pub enum COp {
    P(POp),
    /// a delta that is valid by construction: publish or update one own object
    Put { publisher: u8, name: u8, content: u8 },
    /// an RRDP update whose file writes are cut at the k-th mutation
    FaultyUpdate { k: u8, crash: bool },
    /// a session reset whose file writes are cut at the k-th mutation
    FaultyReset { k: u8, crash: bool },
    /// re-write the repository files (as the daemon does at start-up)
    WriteRepository,
}

#[derive(Clone, Debug, Serialize, Deserialize)]
pub struct Case {
    pub min_nr: usize,
    pub max_nr: usize,
    pub min_secs: u32,
    pub max_secs: u32,
    pub archive: bool,
    pub n_pub: u8,
    pub key_start: u16,
    pub ops: Vec<COp>,
}

type Objects = BTreeMap<String, Bytes>;

#[derive(Default)]
struct Client {
    /// session -> serial -> objects
    memory: BTreeMap<String, BTreeMap<u64, Objects>>,
    /// (session, serial) -> virtual time of first observation
    seen_at: BTreeMap<(String, u64), i64>,
    last: Option<(String, u64)>,
    /// a session reset was started but its write was interrupted: the new
    /// session may show up with any later write
    reset_pending: bool,
    /// (session, serial) -> virtual time at which the server reached it
    created_at: BTreeMap<(String, u64), i64>,
    truncations: usize,
    serials: usize,
}

/// RRDP elements with the URI in canonical form (scheme and host are
/// case-insensitive; rpki's own URI type compares them that way).
fn canon_els(els: Vec<rpki::rrdp::DeltaElement>) -> Vec<rpki::rrdp::DeltaElement> {
    use rpki::rrdp::{DeltaElement as D, PublishElement, UpdateElement, WithdrawElement};
    use std::str::FromStr;
    let c = |u: &rpki::uri::Rsync| rpki::uri::Rsync::from_str(&canon(u.as_str())).unwrap_or_else(|_| u.clone());
    els.into_iter()
        .map(|e| match e {
            D::Publish(p) => {
                let (u, d) = p.unpack();
                D::Publish(PublishElement::new(c(&u), d))
            }
            D::Update(p) => {
                let (u, h, d) = p.unpack();
                D::Update(UpdateElement::new(c(&u), h, d))
            }
            D::Withdraw(p) => {
                let (u, h) = p.unpack();
                D::Withdraw(WithdrawElement::new(c(&u), h))
            }
        })
        .collect()
}

fn bad(clause: &str, key: &str, msg: String) -> (String, String, String) {
    (clause.to_string(), key.to_string(), msg)
}

/// What any client must be able to rely on, given the files on disk now.
/// `expect`: what the snapshot has to contain (None when a write was
/// interrupted: then only self-consistency of what is offered is required).
fn observe(w: &PubWorld, client: &mut Client, case: &Case, expect: Option<&Objects>, after_reset: bool) -> Result<(), (String, String, String)> {
    observe2(w, client, case, expect, after_reset, expect.is_some())
}

fn observe2(w: &PubWorld, client: &mut Client, case: &Case, expect: Option<&Objects>, after_reset: bool, check_rsync: bool) -> Result<(), (String, String, String)> {
    if let Some(v) = w.sim.w().repo().repo_stats().ok().and_then(|s| serde_json::to_value(&s).ok()) {
        if let (Some(sess), Some(ser)) = (v["session"].as_str(), v["serial"].as_u64()) {
            client.created_at.entry((sess.to_string(), ser)).or_insert(clock::now_s());
        }
    }
    let repo_dir = w.sim.w().repo_dir();
    let n = rrdpc::read_notification(&repo_dir).map_err(|e| bad("c11-notification", "inconsistent", e))?;
    let (sess, serial, snap) = rrdpc::read_snapshot(&n.snapshot.0).map_err(|e| bad("c11-snapshot", "unreadable", e))?;
    if sess != n.session || serial != n.serial {
        return Err(bad("c11-snapshot", "session-serial", format!("snapshot is {sess}/{serial}, notification says {}/{}", n.session, n.serial)));
    }
    let raw_snap: Objects = snap.clone();
    let snap: Objects = snap.into_iter().map(|(u, b)| (canon(&u), b)).collect();
    if snap.len() != raw_snap.len() {
        return Err(bad("c11-snapshot", "same-uri-twice", format!("serial {serial}: the snapshot has two objects whose URIs differ only in scheme/host case")));
    }
    if let Some(exp) = expect {
        if let Some(d) = rrdpc::diff_maps("snapshot", &snap, "publication state", exp) {
            return Err(bad("c11-snapshot", "content", format!("serial {serial}: {d}")));
        }
        // session / serial as the server reports them
        let stats = w.sim.w().repo().repo_stats().map_err(|e| bad("stats", "error", e.to_string()))?;
        let sv = serde_json::to_value(&stats).unwrap_or_default();
        if sv["serial"].as_u64() != Some(n.serial) || sv["session"].as_str() != Some(n.session.as_str()) {
            return Err(bad("c11-stats", "session-serial", format!("notification {}/{} but repo_stats reports {}/{}", n.session, n.serial, sv["session"], sv["serial"])));
        }
    }
    // deltas: contiguous run ending at the current serial
    let serials: Vec<u64> = n.deltas.iter().map(|d| d.0).collect();
    for (i, s) in serials.iter().enumerate() {
        let want = n.serial + 1 - (serials.len() - i) as u64;
        if *s != want {
            return Err(bad("c11-deltas", "not-contiguous", format!("notification serial {} offers deltas {serials:?}: not a contiguous run ending at the current serial", n.serial)));
        }
    }
    // serial grows by one, session only changes by reset
    if let Some((ls, lser)) = &client.last {
        if *ls == n.session {
            if n.serial < *lser {
                return Err(bad("c11-serial", "decreased", format!("serial went from {lser} to {}", n.serial)));
            }
            if expect.is_some() && n.serial > *lser + 1 && !after_reset {
                // several updates may have happened between observations only
                // after an interrupted write; the delta chain check covers that
            }
        } else if !after_reset && !client.reset_pending {
            return Err(bad("c11-session", "changed-without-reset", format!("session changed from {ls} to {} without a reset", n.session)));
        } else if !after_reset && client.reset_pending {
            // the interrupted reset became visible with a later write
            client.reset_pending = false;
        } else if n.serial != 1 || !serials.is_empty() {
            return Err(bad("c11-session", "reset-not-at-serial-1", format!("after a reset the notification has serial {} and deltas {serials:?}", n.serial)));
        }
    }
    // a client that holds any earlier serial of the session and is offered a
    // contiguous chain reaches exactly the snapshot
    let mut deltas: BTreeMap<u64, Vec<rpki::rrdp::DeltaElement>> = BTreeMap::new();
    for (s, p) in &n.deltas {
        let (dsess, dser, els) = rrdpc::read_delta(p).map_err(|e| bad("c11-delta", "unreadable", e))?;
        if dsess != n.session || dser != *s {
            return Err(bad("c11-delta", "session-serial", format!("delta file for serial {s} says {dsess}/{dser}")));
        }
        deltas.insert(*s, els);
    }
    let lowest = serials.first().copied().unwrap_or(n.serial + 1);
    if let Some(mem) = client.memory.get(&n.session) {
        for (held, objects) in mem {
            if *held >= n.serial || *held + 1 < lowest {
                continue;
            }
            let mut state: Objects = objects.clone();
            for s in (*held + 1)..=n.serial {
                let els = canon_els(deltas.get(&s).cloned().unwrap_or_default());
                rrdpc::apply_delta(&mut state, els).map_err(|e| bad("c11-chain", "delta-does-not-apply", format!("client at serial {held}: delta {s}: {e}")))?;
            }
            if let Some(d) = rrdpc::diff_maps("client after deltas", &state, "snapshot", &snap) {
                return Err(bad("c11-chain", "does-not-reach-snapshot", format!("client at serial {held} applying deltas up to {}: {d}", n.serial)));
            }
        }
    }
    client.seen_at.entry((n.session.clone(), n.serial)).or_insert(clock::now_s());
    // retention
    let now = clock::now_s();
    // truncation happens when an update is made: ages count at that time
    let at_update = client.created_at.get(&(n.session.clone(), n.serial)).copied().unwrap_or(now);
    for (i, s) in serials.iter().rev().enumerate() {
        let pos = i + 1; // 1 = newest
        let age = client.created_at.get(&(n.session.clone(), *s)).map(|t| at_update - *t);
        if let Some(age) = age {
            // krill keeps min_nr earlier deltas plus the newest one
            if pos > case.max_nr.max(case.min_nr + 1) && age > case.min_secs as i64 + 3 {
                return Err(bad(
                    "c11-retention",
                    "more-than-max-nr",
                    format!("{} deltas are offered (max_nr {}); the delta at position {pos} (serial {s}) is {age}s old, older than min_seconds {}", serials.len(), case.max_nr, case.min_secs),
                ));
            }
            if pos > case.min_nr + 1 && age > case.max_secs as i64 + 3 && age > case.min_secs as i64 + 3 {
                return Err(bad(
                    "c11-retention",
                    "older-than-max-seconds",
                    format!("the delta at position {pos} (serial {s}) is {age}s old, older than max_seconds {} and beyond min_nr {}", case.max_secs, case.min_nr),
                ));
            }
        }
    }
    if let Some((ls, lser)) = &client.last {
        if *ls == n.session && n.serial > *lser {
            // was something truncated?
            let prev_lowest = client.memory.get(ls).and_then(|m| m.keys().next().copied()).unwrap_or(0);
            if lowest > prev_lowest + 1 && !serials.is_empty() {
                client.truncations += 1;
            }
        }
    }
    // rsync
    if check_rsync {
        let rsync = rrdpc::read_rsync_current(&repo_dir).map_err(|e| bad("c11-rsync", "unreadable", e))?;
        let rsync: Objects = rsync.into_iter().map(|(u, b)| (canon(&u), b)).collect();
        // rsync paths are derived from the URI path only: compare on the path
        let strip = |m: &Objects| -> BTreeMap<String, Bytes> { m.iter().map(|(u, b)| (u.trim_start_matches(rrdpc::RSYNC_BASE).to_string(), b.clone())).collect() };
        if let Some(d) = rrdpc::diff_maps("rsync/current", &strip(&rsync), "snapshot", &strip(&snap)) {
            return Err(bad("c11-rsync", "differs", d));
        }
    }
    // remember
    if client.last.as_ref() != Some(&(n.session.clone(), n.serial)) {
        client.serials += 1;
    }
    client.seen_at.entry((n.session.clone(), n.serial)).or_insert(now);
    client.memory.entry(n.session.clone()).or_default().insert(n.serial, snap.clone());
    client.last = Some((n.session, n.serial));
    Ok(())
}

impl Prop for C11 {
    type Case = Case;
    const ID: &'static str = "C11";

    fn strategy(tier: Tier) -> BoxedStrategy<Case> {
        let n_ops = match tier {
            Tier::Quick => 10..70,
            Tier::Thorough => 10..140,
        };
        ((1usize..4).prop_flat_map(|min| (Just(min), min..7)), (0u32..120).prop_flat_map(|min| (Just(min), min..600)), any::<bool>(), 2u8..4, any::<u16>())
            .prop_flat_map(move |((min_nr, max_nr), (min_secs, max_secs), archive, n_pub, key_start)| {
                let op = prop_oneof![
                    6 => (0..n_pub, vec(el(), 1..5)).prop_map(|(publisher, els)| COp::P(POp::Delta { publisher, els })),
                    14 => (0..n_pub, 0u8..6, prop_oneof![3 => 1u8..8, 2 => 8u8..12]).prop_map(|(publisher, name, content)| COp::Put { publisher, name, content }),
                    8 => Just(COp::P(POp::RrdpUpdate)),
                    4 => prop_oneof![1u16..20, 20u16..300, 300u16..900].prop_map(|secs| COp::P(POp::Advance { secs })),
                    1 => Just(COp::P(POp::SessionReset)),
                    1 => (0..n_pub).prop_map(|publisher| COp::P(POp::RemovePublisher { publisher })),
                    1 => (0..n_pub).prop_map(|publisher| COp::P(POp::AddPublisher { publisher })),
                    3 => (1u8..16, any::<bool>()).prop_map(|(k, crash)| COp::FaultyUpdate { k, crash }),
                    2 => (1u8..12, any::<bool>()).prop_map(|(k, crash)| COp::FaultyReset { k, crash }),
                    1 => Just(COp::WriteRepository),
                    1 => Just(COp::P(POp::Restart)),
                ];
                (Just((min_nr, max_nr, min_secs, max_secs, archive, n_pub, key_start)), vec(op, n_ops.clone()))
            })
            .prop_map(|((min_nr, max_nr, min_secs, max_secs, archive, n_pub, key_start), ops)| Case { min_nr, max_nr, min_secs, max_secs, archive, n_pub, key_start, ops })
            .boxed()
    }

    fn run(case: &Case, ctx: &Ctx) -> Outcome {
        let cfg = WorldCfg {
            disk: true,
            rrdp_min_nr: case.min_nr,
            rrdp_max_nr: case.max_nr,
            rrdp_min_secs: case.min_secs,
            rrdp_max_secs: case.max_secs,
            rrdp_archive: case.archive,
            rrdp_interval_secs: 0,
            ..WorldCfg::default()
        };
        let mut w = match PubWorld::new(cfg, case.n_pub as usize, case.key_start as usize) {
            Ok(w) => w,
            Err(f) => return super::c10::fail_outcome(f, "setup"),
        };
        let mut client = Client::default();
        let mut cut_points = 0usize;
        let mut cut_then_updates = 0usize;
        let mut updates_since_cut: Option<usize> = None;
        let mut dirty = false; // an interrupted write has not been repaired yet
        let step = |r: Result<(), (String, String, String)>, i: usize, op: &COp| -> Option<Outcome> {
            r.err().map(|(clause, key, msg)| Outcome::Violation { clause, key, msg: format!("op #{i} {op:?}: {msg}") })
        };
        // initial state: bring RRDP up to date with what the trust anchor published
        match w.apply(&POp::RrdpUpdate) {
            Err(f) => return super::c10::fail_outcome(f, "initial RRDP update"),
            Ok(Err((clause, key, msg))) => return Outcome::Violation { clause, key, msg },
            Ok(Ok(())) => {}
        }
        let union = w.model_union();
        if let Some(o) = step(observe(&w, &mut client, case, Some(&union), false), 0, &COp::WriteRepository) {
            return o;
        }
        let poll = |w: &PubWorld, client: &mut Client| {
            if let Some(v) = w.sim.w().repo().repo_stats().ok().and_then(|s| serde_json::to_value(&s).ok()) {
                if let (Some(sess), Some(ser)) = (v["session"].as_str(), v["serial"].as_u64()) {
                    client.created_at.entry((sess.to_string(), ser)).or_insert(clock::now_s());
                }
            }
        };
        poll(&w, &mut client);
        for (i, op) in case.ops.iter().enumerate() {
            poll(&w, &mut client);
            match op {
                COp::P(p) => {
                    let stat = |w: &PubWorld| w.sim.w().repo().repo_stats().ok().and_then(|s| serde_json::to_value(&s).ok()).map(|v| (v["session"].to_string(), v["serial"].as_u64().unwrap_or(0)));
                    let before_state = stat(&w);
                    match w.apply(p) {
                        Err(f) => return super::c10::fail_outcome(f, &format!("op #{i} {op:?}")),
                        Ok(Err((clause, key, msg))) => {
                            if dirty && clause == "c10-snapshot" {
                                // files lag behind after an interrupted write until a later write repairs them
                            } else {
                                return Outcome::Violation { clause, key, msg: format!("op #{i} {op:?}: {msg}") };
                            }
                        }
                        Ok(Ok(())) => {}
                    }
                    match p {
                        POp::RrdpUpdate | POp::SessionReset | POp::Restart => {
                            let staged_pending = false;
                            let _ = staged_pending;
                            // was this a real write? (an update with nothing staged writes nothing)
                            let wrote = w.stats.get("rrdp_update").copied().unwrap_or(0) + w.stats.get("session_reset").copied().unwrap_or(0);
                            let _ = wrote;
                            let reset = matches!(p, POp::SessionReset);
                            // after a successful write the files describe the publication state,
                            // unless an earlier interrupted write left them behind and nothing new was written
                            let stats = w.sim.w().repo().repo_stats().ok().and_then(|s| serde_json::to_value(&s).ok()).unwrap_or_default();
                            let on_disk = rrdpc::read_notification(&w.sim.w().repo_dir()).ok().map(|n| (n.session, n.serial));
                            let in_sync = on_disk.as_ref().map(|(s, n)| stats["session"].as_str() == Some(s.as_str()) && stats["serial"].as_u64() == Some(*n)).unwrap_or(false);
                            let wrote_now = stat(&w) != before_state;
                            if in_sync && wrote_now {
                                if dirty {
                                    if let Some(n) = updates_since_cut.as_mut() {
                                        *n += 1;
                                    }
                                }
                                dirty = false;
                            } else if in_sync {
                                // no write happened
                            } else if !dirty && !matches!(p, POp::Restart) {
                                return Outcome::Violation {
                                    clause: "c11-stats".into(),
                                    key: "files-behind-state".into(),
                                    msg: format!("op #{i} {op:?}: after a successful write the notification on disk is {on_disk:?} but the server is at {}/{}", stats["session"], stats["serial"]),
                                };
                            }
                            // did this operation make a write at all? (an update with nothing staged does not)
                            let wrote = stat(&w) != before_state;
                            if !wrote && dirty {
                                // still behind after the interrupted write; nothing to expect yet
                            }
                            let union = w.model_union();
                            let expect = if in_sync && wrote && matches!(p, POp::RrdpUpdate) { Some(&union) } else { None };
                            if !wrote && in_sync && !matches!(p, POp::Restart) && dirty_rsync_ok(&mut dirty) {}
                            if let Some(o) = step(observe(&w, &mut client, case, expect, reset), i, op) {
                                return o;
                            }
                        }
                        _ => {}
                    }
                }
                COp::Put { publisher, name, content } => {
                    use crate::enginep::{El, HashSel, UriSel};
                    let p = *publisher as usize % w.n_pub;
                    let uri = canon(&w.uri_for(p, &UriSel::Own(*name)));
                    let has = w.model.get(w.handle(p)).map(|m| m.contains_key(&uri)).unwrap_or(false);
                    let e = if has { El::Update(UriSel::Own(*name), *content, HashSel::Correct) } else { El::Publish(UriSel::Own(*name), *content) };
                    match w.apply(&POp::Delta { publisher: *publisher, els: vec![e] }) {
                        Err(f) => return super::c10::fail_outcome(f, &format!("op #{i} {op:?}")),
                        Ok(Err((clause, key, msg))) => return Outcome::Violation { clause, key, msg: format!("op #{i} {op:?}: {msg}") },
                        Ok(Ok(())) => {}
                    }
                }
                COp::WriteRepository => {
                    let r = {
                        let ww = w.sim.w();
                        guarded(|| ww.repo().write_repository())
                    };
                    match r {
                        Err(c) => return Outcome::Violation { clause: "crash".into(), key: super::crash_key(&c.what), msg: c.what },
                        Ok(Err(e)) => {
                            return Outcome::Violation {
                                clause: "c11-later-write-fails".into(),
                                key: if dirty { "after-interrupted-write".into() } else { "plain".into() },
                                msg: format!("op #{i}: writing the repository files failed: {e}"),
                            }
                        }
                        Ok(Ok(())) => {}
                    }
                    if dirty {
                        if let Some(n) = updates_since_cut.as_mut() {
                            *n += 1;
                        }
                    }
                    dirty = false;
                    if let Some(o) = step(observe2(&w, &mut client, case, None, false, true), i, op) {
                        return o;
                    }
                }
                COp::FaultyUpdate { k, crash } | COp::FaultyReset { k, crash } => {
                    let is_reset = matches!(op, COp::FaultyReset { .. });
                    let repo_dir = w.sim.w().repo_dir();
                    let mode = if *crash { FaultMode::CrashAt(*k as usize) } else { FaultMode::FailAt(*k as usize) };
                    hooks::h().set_fault(mode, Some(repo_dir.clone()));
                    let r = {
                        let ww = w.sim.w();
                        if is_reset {
                            guarded(|| ww.repo().rrdp_session_reset().map(|_| None))
                        } else {
                            guarded(|| ww.repo().update_rrdp_if_needed())
                        }
                    };
                    let (points, _log, fired) = hooks::h().fault_off();
                    if std::env::var("KVH_C11_DEBUG").is_ok() {
                        eprintln!("op #{i} {op:?}: points {points} fired {fired} result {:?} log {:?}", r.as_ref().map(|x| x.as_ref().map(|_| ()).map_err(|e| e.to_string())).map_err(|c| c.what.clone()), _log.iter().map(|p| format!("{}:{}", p.kind, p.op)).collect::<Vec<_>>());
                    }
                    match r {
                        Err(c) => return Outcome::Violation { clause: "crash".into(), key: super::crash_key(&c.what), msg: format!("op #{i} {op:?}: {}", c.what) },
                        Ok(res) => {
                            if fired {
                                cut_points += 1;
                                if let Some(n) = updates_since_cut.take() {
                                    if n >= 2 {
                                        cut_then_updates += 1;
                                    }
                                }
                                updates_since_cut = Some(0);
                                dirty = true;
                                *w.stats.entry(format!("cut_at_point_{}", (*k).min(12))).or_default() += 1;
                                // at this instant: whatever notification is on disk must be fully consistent
                                if is_reset {
                                    client.reset_pending = true;
                                }
                                if let Some(o) = step(observe2(&w, &mut client, case, None, false, false), i, op) {
                                    return o;
                                }
                                // That observation may have shown (and consumed the allowance for) an
                                // earlier interrupted reset. If the files are still not at the server's
                                // session, the reset interrupted just now is yet to show.
                                if is_reset {
                                    let stats = w.sim.w().repo().repo_stats().ok().and_then(|s| serde_json::to_value(&s).ok()).unwrap_or_default();
                                    let on_disk = rrdpc::read_notification(&w.sim.w().repo_dir()).ok().map(|n| n.session);
                                    if on_disk.as_deref() != stats["session"].as_str() {
                                        client.reset_pending = true;
                                    }
                                }
                                let _ = res;
                            } else {
                                // the write had fewer than k mutation points: an ordinary update
                                let _ = points;
                                if res.is_err() {
                                    return Outcome::Violation { clause: "c11-update-fails".into(), key: "error".into(), msg: format!("op #{i}: update failed without a fault: {:?}", res.err().map(|e| e.to_string())) };
                                }
                                if !dirty {
                                    let union = w.model_union();
                                    let expect = if is_reset { None } else { Some(&union) };
                                    if let Some(o) = step(observe2(&w, &mut client, case, expect, is_reset, true), i, op) {
                                        return o;
                                    }
                                } else if is_reset {
                                    // a reset is a complete re-write: it repairs an earlier interruption
                                    dirty = false;
                                    if let Some(o) = step(observe2(&w, &mut client, case, None, true, true), i, op) {
                                        return o;
                                    }
                                }
                            }
                        }
                    }
                }
            }
        }
        if let Some(n) = updates_since_cut {
            if n >= 2 {
                cut_then_updates += 1;
            }
        }
        let _ = ctx;
        let mut classes: Vec<String> = w.stats.keys().filter(|k| !k.starts_with("publisher_created")).cloned().collect();
        if client.truncations > 0 {
            classes.push("deltas_truncated".into());
        }
        if cut_points > 0 {
            classes.push("write_interrupted".into());
        }
        if cut_then_updates > 0 {
            classes.push("interrupted_then_two_more_writes".into());
        }
        if case.archive {
            classes.push("archive".into());
        }
        let nontrivial = (client.serials >= 6 && client.truncations > 0) || cut_then_updates > 0;
        Outcome::Pass { nontrivial, classes, size: client.serials }
    }
}
