//! C07 — Commands are atomic, serialised per entity and completely audited.
//!
//! Engine E: krill's real `AggregateStore` (memory and disk back-ends, with
//! and without history cache) driven with a small aggregate of our own from
//! several threads. The aggregate's state is the list of applied commands,
//! so every read-out names the exact order it is a result of.
use std::collections::{BTreeMap, BTreeSet};
use std::fmt;
use std::str::FromStr;
use std::sync::atomic::{AtomicBool, Ordering};
use std::sync::{Arc, Mutex};

use krill::api::history::{CommandHistoryCriteria, CommandHistoryResult, CommandSummary};
use krill::commons::actor::Actor;
use krill::commons::eventsourcing::{
    Aggregate, AggregateStore, AggregateStoreError, CommandDetails, Event, InitCommandDetails, InitEvent, SentCommand, SentInitCommand, WithStorableDetails,
};
use krill::commons::storage::{Ident, StorageSystem};
use proptest::collection::vec;
use proptest::prelude::*;
use proptest::strategy::BoxedStrategy;
use rpki::ca::idexchange::MyHandle;
use serde::{Deserialize, Serialize};

use crate::fw::{Ctx, Outcome, Prop, Tier};
use crate::hooks;
use crate::world::{guarded, scratch_root};

pub struct C07;

//------------ the aggregate ---------------------------------------------------

#[derive(Clone, Deserialize, Eq, PartialEq, Serialize)]
pub struct LInit;
impl InitEvent for LInit {}
impl fmt::Display for LInit {
    fn fmt(&self, f: &mut fmt::Formatter) -> fmt::Result {
        write!(f, "init")
    }
}

#[derive(Clone, Debug)]
pub struct LInitDetails;
impl fmt::Display for LInitDetails {
    fn fmt(&self, f: &mut fmt::Formatter) -> fmt::Result {
        write!(f, "init")
    }
}
impl InitCommandDetails for LInitDetails {
    type StorableDetails = LStored;
    fn store(&self) -> LStored {
        LStored::Init
    }
}

#[derive(Clone, Deserialize, Eq, PartialEq, Serialize)]
pub enum LEvent {
    Added { thread: u8, seq: u32 },
    Poison { thread: u8, seq: u32 },
}
impl Event for LEvent {}
impl fmt::Display for LEvent {
    fn fmt(&self, f: &mut fmt::Formatter) -> fmt::Result {
        match self {
            LEvent::Added { thread, seq } => write!(f, "added {thread}/{seq}"),
            LEvent::Poison { thread, seq } => write!(f, "poison {thread}/{seq}"),
        }
    }
}

#[derive(Clone, Debug, Deserialize, Eq, PartialEq, Serialize)]
pub enum Kind {
    Add,
    Add2,
    Reject,
    Noop,
    FailPreSave,
    /// create the volatile entity (only one creation may succeed while it exists)
    Create,
    /// drop the volatile entity
    Drop,
}

#[derive(Clone, Deserialize, Eq, PartialEq, Serialize)]
pub struct LCmd {
    kind: Kind,
    thread: u8,
    seq: u32,
}
impl fmt::Display for LCmd {
    fn fmt(&self, f: &mut fmt::Formatter) -> fmt::Result {
        write!(f, "{:?} {}/{}", self.kind, self.thread, self.seq)
    }
}
impl CommandDetails for LCmd {
    type Event = LEvent;
    type StorableDetails = LStored;
    fn store(&self) -> LStored {
        LStored::Cmd { kind: self.kind.clone(), thread: self.thread, seq: self.seq }
    }
}

#[derive(Clone, Deserialize, Eq, PartialEq, Serialize)]
pub enum LStored {
    Init,
    Cmd { kind: Kind, thread: u8, seq: u32 },
}
impl fmt::Display for LStored {
    fn fmt(&self, f: &mut fmt::Formatter) -> fmt::Result {
        match self {
            LStored::Init => write!(f, "init"),
            LStored::Cmd { kind, thread, seq } => write!(f, "{kind:?} {thread}/{seq}"),
        }
    }
}
impl WithStorableDetails for LStored {
    fn summary(&self) -> CommandSummary {
        match self {
            LStored::Init => CommandSummary::new("l-init", self),
            LStored::Cmd { kind, thread, seq } => CommandSummary::new("l-cmd", self).arg("kind", format!("{kind:?}")).arg("thread", thread).arg("seq", seq),
        }
    }
    fn make_init() -> Self {
        LStored::Init
    }
}

#[derive(Clone, Debug)]
pub enum LError {
    Rejected(u8, u32),
    PreSave(u8, u32),
    Store(String),
}
impl fmt::Display for LError {
    fn fmt(&self, f: &mut fmt::Formatter) -> fmt::Result {
        match self {
            LError::Rejected(t, s) => write!(f, "rejected {t}/{s}"),
            LError::PreSave(t, s) => write!(f, "pre-save failed {t}/{s}"),
            LError::Store(s) => write!(f, "store: {s}"),
        }
    }
}
impl std::error::Error for LError {}
impl From<AggregateStoreError> for LError {
    fn from(e: AggregateStoreError) -> Self {
        LError::Store(e.to_string())
    }
}

#[derive(Clone, Deserialize, Serialize)]
pub struct Ledger {
    id: MyHandle,
    version: u64,
    /// applied state changes in order
    log: Vec<(u8, u32)>,
}

#[derive(Default)]
pub struct LCtx {
    post_saved: Mutex<Vec<(u8, u32)>>,
}

impl Aggregate for Ledger {
    type InitCommand = SentInitCommand<LInitDetails>;
    type InitEvent = LInit;
    type Command = SentCommand<LCmd>;
    type Event = LEvent;
    type StorableCommandDetails = LStored;
    type Error = LError;
    type Context<'a> = &'a LCtx;

    fn init(id: &MyHandle, _event: LInit) -> Self {
        Ledger { id: id.clone(), version: 1, log: vec![] }
    }
    fn process_init_command(_command: Self::InitCommand, _context: &LCtx) -> Result<LInit, LError> {
        Ok(LInit)
    }
    fn version(&self) -> u64 {
        self.version
    }
    fn increment_version(&mut self) {
        self.version += 1;
    }
    fn apply(&mut self, event: LEvent) {
        match event {
            LEvent::Added { thread, seq } => self.log.push((thread, seq)),
            LEvent::Poison { thread, seq } => self.log.push((thread | 0x80, seq)),
        }
    }
    fn process_command(&self, command: Self::Command, _context: &LCtx) -> Result<Vec<LEvent>, LError> {
        let c = command.into_details();
        match c.kind {
            Kind::Add => Ok(vec![LEvent::Added { thread: c.thread, seq: c.seq }]),
            // two events in one command: both or none
            Kind::Add2 => Ok(vec![LEvent::Added { thread: c.thread, seq: c.seq }, LEvent::Added { thread: c.thread, seq: c.seq }]),
            Kind::Reject => Err(LError::Rejected(c.thread, c.seq)),
            Kind::Noop => Ok(vec![]),
            Kind::FailPreSave => Ok(vec![LEvent::Poison { thread: c.thread, seq: c.seq }]),
            Kind::Create | Kind::Drop => Ok(vec![]),
        }
    }
    fn pre_save_events(&self, events: &[LEvent], _context: &LCtx) -> Result<(), LError> {
        for e in events {
            if let LEvent::Poison { thread, seq } = e {
                return Err(LError::PreSave(*thread, *seq));
            }
        }
        Ok(())
    }
    fn post_save_events(&self, events: &[LEvent], context: &LCtx) {
        let mut g = context.post_saved.lock().unwrap_or_else(|e| e.into_inner());
        for e in events {
            if let LEvent::Added { thread, seq } = e {
                g.push((*thread, *seq));
            }
        }
    }
}

//------------ case -------------------------------------------------------------

#[derive(Clone, Debug, Serialize, Deserialize)]
pub struct Step {
    entity: u8,
    kind: Kind,
}

#[derive(Clone, Debug, Serialize, Deserialize)]
pub struct Case {
    disk: bool,
    history_cache: bool,
    entities: u8,
    /// one command list per writer thread
    writers: Vec<Vec<Step>>,
    readers: u8,
    yield_seed: u64,
    /// half of the readers use a second store object over the same storage (a cache of its own)
    second_store: bool,
    /// 0 = no volatile entity; 1 = an entity (index `entities`) that does not exist at the start and
    /// is created by the writers; 2 = it is also dropped by them
    #[serde(default)]
    volatile: u8,
}

fn step(entities: u8, volatile: u8) -> BoxedStrategy<Step> {
    let stable = (0..entities, prop_oneof![8 => Just(Kind::Add), 2 => Just(Kind::Add2), 3 => Just(Kind::Reject), 2 => Just(Kind::Noop), 2 => Just(Kind::FailPreSave)]).prop_map(|(entity, kind)| Step { entity, kind });
    if volatile == 0 {
        return stable.boxed();
    }
    let drop_w = if volatile == 2 { 2 } else { 0 };
    let vol = prop_oneof![6 => Just(Kind::Create), 4 => Just(Kind::Add), 1 => Just(Kind::Reject), 1 => Just(Kind::Noop), drop_w => Just(Kind::Drop)].prop_map(move |kind| Step { entity: entities, kind });
    prop_oneof![1 => stable, 2 => vol].boxed()
}

struct Observed {
    /// (entity, version, log) seen by readers and returned to writers
    states: Vec<(u8, u64, Vec<(u8, u32)>)>,
    /// per writer: (entity, kind, seq, result: Ok(version) | Err(text))
    results: Vec<Vec<(u8, Kind, u32, Result<u64, String>)>>,
}

fn handle(e: u8) -> MyHandle {
    MyHandle::from_str(&format!("e{e}")).unwrap()
}

static NR: std::sync::atomic::AtomicU64 = std::sync::atomic::AtomicU64::new(0);

fn run_case(case: &Case) -> Result<Result<Vec<String>, (String, String, String)>, String> {
    let nr = NR.fetch_add(1, Ordering::SeqCst);
    let dir = scratch_root().join(format!("agg{nr}"));
    let _ = std::fs::remove_dir_all(&dir);
    let uri = if case.disk {
        std::fs::create_dir_all(&dir).map_err(|e| e.to_string())?;
        format!("{}/", dir.display())
    } else {
        format!("memory:{}", ((std::process::id() as u64) << 24) | (1 << 23) | nr)
    };
    let uri = krill::commons::storage::StorageUri::from_str(&uri).map_err(|e| format!("storage uri: {e}"))?;
    let storage = StorageSystem::new(uri);
    let ns = const { Ident::make("ledger") };
    let store: Arc<AggregateStore<Ledger>> = Arc::new(AggregateStore::create(&storage, ns, case.history_cache).map_err(|e| e.to_string())?);
    let store2: Arc<AggregateStore<Ledger>> = if case.second_store { Arc::new(AggregateStore::create(&storage, ns, case.history_cache).map_err(|e| e.to_string())?) } else { store.clone() };
    let ctx = Arc::new(LCtx::default());
    let setup_actor = Actor::user("setup");
    for e in 0..case.entities {
        store.add_with_context(SentInitCommand::new(handle(e), LInitDetails, &setup_actor), &ctx).map_err(|e| format!("init: {e}"))?;
    }

    hooks::h().set_yield(Some(case.yield_seed));
    let stop = Arc::new(AtomicBool::new(false));
    let seen: Arc<Mutex<Vec<(u8, u64, Vec<(u8, u32)>)>>> = Arc::new(Mutex::new(Vec::new()));
    let mut reader_handles = Vec::new();
    for r in 0..case.readers {
        let store = if r % 2 == 1 { store2.clone() } else { store.clone() };
        let stop = stop.clone();
        let seen = seen.clone();
        let entities = case.entities;
        let all = case.entities + if case.volatile > 0 { 1 } else { 0 };
        reader_handles.push(std::thread::spawn(move || {
            let mut i = 0u64;
            let mut local = Vec::new();
            while !stop.load(Ordering::Relaxed) && local.len() < 400 {
                let e = (i % all as u64) as u8;
                if e >= entities {
                    // the volatile entity: may or may not exist
                    let _ = store.get_latest(&handle(e));
                } else if let Ok(a) = store.get_latest(&handle(e)) {
                    local.push((e, a.version, a.log.clone()));
                }
                i += 1;
                std::thread::yield_now();
            }
            seen.lock().unwrap_or_else(|e| e.into_inner()).extend(local);
        }));
    }
    let mut writer_handles = Vec::new();
    for (t, steps) in case.writers.iter().cloned().enumerate() {
        // all writers share the one store object, as in the daemon; a second
        // store object over the same storage is only read from
        let store = store.clone();
        let ctx = ctx.clone();
        let seen = seen.clone();
        writer_handles.push(std::thread::spawn(move || {
            let actor = Actor::user(format!("t{t}"));
            let mut res = Vec::new();
            let mut local = Vec::new();
            for (seq, s) in steps.iter().enumerate() {
                if matches!(s.kind, Kind::Create | Kind::Drop) {
                    let create = matches!(s.kind, Kind::Create);
                    let r = guarded(|| {
                        if create {
                            store.add_with_context(SentInitCommand::new(handle(s.entity), LInitDetails, &actor), &ctx).map(|a| a.version).map_err(|e| e.to_string())
                        } else {
                            store.drop_aggregate(&handle(s.entity)).map(|_| 0).map_err(|e| e.to_string())
                        }
                    });
                    match r {
                        Ok(r) => res.push((s.entity, s.kind.clone(), seq as u32, r)),
                        Err(c) => {
                            res.push((s.entity, s.kind.clone(), seq as u32, Err(format!("CRASH {}", c.what))));
                            break;
                        }
                    }
                    continue;
                }
                let cmd = SentCommand::new(handle(s.entity), None, LCmd { kind: s.kind.clone(), thread: t as u8, seq: seq as u32 }, &actor);
                let r = guarded(|| store.command_with_context(cmd, &ctx));
                match r {
                    Ok(Ok(a)) => {
                        local.push((s.entity, a.version, a.log.clone()));
                        res.push((s.entity, s.kind.clone(), seq as u32, Ok(a.version)));
                    }
                    Ok(Err(e)) => res.push((s.entity, s.kind.clone(), seq as u32, Err(e.to_string()))),
                    Err(c) => {
                        res.push((s.entity, s.kind.clone(), seq as u32, Err(format!("CRASH {}", c.what))));
                        break;
                    }
                }
            }
            seen.lock().unwrap_or_else(|e| e.into_inner()).extend(local);
            res
        }));
    }
    let mut results = Vec::new();
    for h in writer_handles {
        results.push(h.join().map_err(|_| "writer thread panicked outside the guarded call".to_string())?);
    }
    stop.store(true, Ordering::Relaxed);
    for h in reader_handles {
        let _ = h.join();
    }
    hooks::h().set_yield(None);
    let obs = Observed { states: seen.lock().unwrap_or_else(|e| e.into_inner()).clone(), results };
    let verdict = check(case, &store, &storage, &ctx, &obs);
    drop(store);
    drop(store2);
    let _ = std::fs::remove_dir_all(&dir);
    Ok(verdict)
}

type Bad = (String, String, String);
fn bad(c: &str, k: &str, m: String) -> Bad {
    (c.into(), k.into(), m)
}

fn check(case: &Case, store: &AggregateStore<Ledger>, storage: &StorageSystem, ctx: &LCtx, obs: &Observed) -> Result<Vec<String>, Bad> {
    let mut classes: BTreeSet<String> = BTreeSet::new();
    // crashes / exits first
    for (t, rs) in obs.results.iter().enumerate() {
        for (e, kind, seq, r) in rs {
            if let Err(m) = r {
                if m.starts_with("CRASH") {
                    let key = if m.contains("EXIT") { "exit" } else { "panic" };
                    return Err(bad("c07-crash", key, format!("thread {t} command {kind:?} #{seq} on e{e}: {m}")));
                }
            }
        }
    }
    for e in 0..case.entities {
        let h = handle(e);
        let fin = store.get_latest(&h).map_err(|x| bad("c07-load", "final", format!("e{e} does not load: {x}")))?;
        let hist = store
            .command_history(&h, CommandHistoryCriteria { rows_limit: Some(100000), ..Default::default() })
            .map_err(|x| bad("c07-history", "error", format!("history of e{e}: {x}")))?;
        // (1) contiguous versions 0..n, one per state-changing or rejected command
        let mut expected_records: BTreeMap<(u8, u32), &Kind> = BTreeMap::new();
        for (t, rs) in obs.results.iter().enumerate() {
            for (ent, kind, seq, _) in rs {
                if *ent == e && matches!(kind, Kind::Add | Kind::Add2 | Kind::Reject) {
                    expected_records.insert((t as u8, *seq), kind);
                }
            }
        }
        if hist.total != hist.commands.len() {
            return Err(bad("c07-history", "total", format!("e{e}: history says total {} but lists {}", hist.total, hist.commands.len())));
        }
        let mut model_log: Vec<(u8, u32)> = Vec::new();
        // state after each version: version -> log
        let mut by_version: BTreeMap<u64, Vec<(u8, u32)>> = BTreeMap::new();
        by_version.insert(1, vec![]);
        let mut seen_cmds: BTreeSet<(u8, u32)> = BTreeSet::new();
        let mut last_seq: BTreeMap<u8, u32> = BTreeMap::new();
        for (i, rec) in hist.commands.iter().enumerate() {
            // (the initialisation is not listed; the first command is applied to version 1)
            if rec.version != i as u64 + 1 {
                return Err(bad("c07-versions-not-contiguous", "history", format!("e{e}: record #{i} has version {} (versions: {:?})", rec.version, hist.commands.iter().map(|r| r.version).collect::<Vec<_>>())));
            }
            let args = &rec.summary.args;
            let thread: u8 = args.get("thread").and_then(|s| s.parse().ok()).unwrap_or(255);
            let seq: u32 = args.get("seq").and_then(|s| s.parse().ok()).unwrap_or(u32::MAX);
            let Some(kind) = expected_records.get(&(thread, seq)) else {
                return Err(bad("c07-history", "unexpected-record", format!("e{e}: record v{} for {thread}/{seq} ({:?}): no such state-changing or rejected command was sent (no-op and pre-save-failed commands leave no trace)", rec.version, args.get("kind"))));
            };
            if !seen_cmds.insert((thread, seq)) {
                return Err(bad("c07-applied-twice", "history", format!("e{e}: command {thread}/{seq} is recorded twice")));
            }
            if rec.actor != format!("user:t{thread}") && rec.actor != format!("t{thread}") {
                return Err(bad("c07-history", "actor", format!("e{e}: record v{} of thread {thread} carries actor {}", rec.version, rec.actor)));
            }
            // per thread the commands were sent one after the other
            if let Some(prev) = last_seq.get(&thread) {
                if seq <= *prev {
                    return Err(bad("c07-order", "per-thread", format!("e{e}: thread {thread}'s command {seq} is recorded after its command {prev}")));
                }
            }
            last_seq.insert(thread, seq);
            match (kind, &rec.effect) {
                (Kind::Add, CommandHistoryResult::Ok()) => model_log.push((thread, seq)),
                (Kind::Add2, CommandHistoryResult::Ok()) => {
                    model_log.push((thread, seq));
                    model_log.push((thread, seq));
                }
                (Kind::Reject, CommandHistoryResult::Error(m)) => {
                    if !m.contains(&format!("rejected {thread}/{seq}")) {
                        return Err(bad("c07-history", "error-text", format!("e{e}: rejected command {thread}/{seq} is recorded with error '{m}'")));
                    }
                    classes.insert("rejected_recorded".into());
                }
                (k, eff) => return Err(bad("c07-history", "effect", format!("e{e}: command {k:?} {thread}/{seq} is recorded with effect {eff:?}"))),
            }
            by_version.insert(rec.version + 1, model_log.clone());
        }
        // (2) none lost
        for ((t, s), k) in &expected_records {
            if !seen_cmds.contains(&(*t, *s)) {
                return Err(bad("c07-command-lost", if matches!(k, Kind::Reject) { "rejected" } else { "accepted" }, format!("e{e}: command {k:?} {t}/{s} returned to its caller but has no audit record")));
            }
        }
        // (3) final state = fold of the audit log
        if fin.log != model_log {
            return Err(bad("c07-state-vs-log", "final", format!("e{e}: final state {:?} but the audit log gives {:?}", fin.log, model_log)));
        }
        if fin.version != hist.commands.len() as u64 + 1 {
            return Err(bad("c07-state-vs-log", "version", format!("e{e}: final version {} with {} records", fin.version, hist.commands.len())));
        }
        // (4) every state seen by anyone is the state after some prefix
        for (ent, v, log) in &obs.states {
            if *ent != e {
                continue;
            }
            match by_version.get(v) {
                Some(m) if m == log => {}
                Some(m) => return Err(bad("c07-not-a-prefix", "state", format!("e{e}: a caller saw version {v} with state {log:?}; the state after {v} records is {m:?}"))),
                None => return Err(bad("c07-not-a-prefix", "version", format!("e{e}: a caller saw version {v}, which the audit log (len {}) does not have", hist.commands.len()))),
            }
        }
        // (5) versions returned to the callers of state-changing commands are their record's
        for (t, rs) in obs.results.iter().enumerate() {
            for (ent, kind, seq, r) in rs {
                if *ent != e {
                    continue;
                }
                match (kind, r) {
                    (Kind::Add | Kind::Add2, Ok(v)) => {
                        // the returned aggregate contains the command
                        let st = by_version.get(v);
                        if !st.map(|l| l.contains(&(t as u8, *seq))).unwrap_or(false) {
                            return Err(bad("c07-returned-state", "missing-own-command", format!("e{e}: {kind:?} {t}/{seq} returned version {v} whose state does not contain it")));
                        }
                    }
                    (Kind::Add | Kind::Add2, Err(m)) => return Err(bad("c07-accepted-command-failed", "error", format!("e{e}: {kind:?} {t}/{seq} failed: {m}"))),
                    (Kind::Reject, Ok(_)) => return Err(bad("c07-rejected-command-succeeded", "ok", format!("e{e}: Reject {t}/{seq} returned Ok"))),
                    (Kind::Reject, Err(m)) if !m.contains("rejected") => return Err(bad("c07-rejected-command", "error-text", format!("e{e}: Reject {t}/{seq} failed with '{m}'"))),
                    (Kind::Noop, Err(m)) => return Err(bad("c07-noop-failed", "error", format!("e{e}: Noop {t}/{seq} failed: {m}"))),
                    (Kind::FailPreSave, Ok(_)) => return Err(bad("c07-presave", "ok", format!("e{e}: a command whose pre-save step fails returned Ok"))),
                    (Kind::FailPreSave, Err(m)) if !m.contains("pre-save failed") => return Err(bad("c07-presave", "error-text", format!("e{e}: FailPreSave {t}/{seq} failed with '{m}'"))),
                    _ => {}
                }
                if matches!(kind, Kind::FailPreSave) {
                    classes.insert("presave_failure".into());
                }
                if matches!(kind, Kind::Noop) {
                    classes.insert("noop".into());
                }
            }
        }
        // poison never visible
        if fin.log.iter().any(|(t, _)| t & 0x80 != 0) || obs.states.iter().any(|(_, _, l)| l.iter().any(|(t, _)| t & 0x80 != 0)) {
            return Err(bad("c07-presave", "effect-visible", format!("e{e}: the effect of a command whose pre-save step failed became visible")));
        }
        // (6) a fresh store over the same storage (replay) agrees
        let fresh: AggregateStore<Ledger> = AggregateStore::create(storage, const { Ident::make("ledger") }, false).map_err(|x| bad("c07-load", "fresh-store", x.to_string()))?;
        let again = fresh.get_latest(&h).map_err(|x| bad("c07-load", "replay", format!("e{e} does not load in a fresh store: {x}")))?;
        if again.log != fin.log || again.version != fin.version {
            return Err(bad("c07-state-vs-log", "replay", format!("e{e}: cached state v{} {:?} but replay gives v{} {:?}", fin.version, fin.log, again.version, again.log)));
        }
        // who competed for this entity?
        let writers: BTreeSet<usize> = obs.results.iter().enumerate().filter(|(_, rs)| rs.iter().any(|(ent, k, _, _)| *ent == e && !matches!(k, Kind::Noop))).map(|(t, _)| t).collect();
        if writers.len() >= 2 {
            classes.insert("entity_with_2plus_writers".into());
            // interleaved in the log?
            let order: Vec<u8> = hist.commands.iter().filter_map(|r| r.summary.args.get("thread").and_then(|s| s.parse().ok())).collect();
            let switches = order.windows(2).filter(|w| w[0] != w[1]).count();
            if switches >= 2 {
                classes.insert("interleaved_order".into());
            }
        }
    }
    // the volatile entity: creation is serialised with everything else on that entity
    if case.volatile > 0 {
        let x = case.entities;
        let h = handle(x);
        let mut creates_ok = 0usize;
        let mut drops_ok = 0usize;
        let mut processed: BTreeMap<(u8, u32), Kind> = BTreeMap::new();
        for (t, rs) in obs.results.iter().enumerate() {
            for (ent, kind, seq, r) in rs {
                if *ent != x {
                    continue;
                }
                match (kind, r) {
                    (Kind::Create, Ok(_)) => creates_ok += 1,
                    (Kind::Drop, Ok(_)) => drops_ok += 1,
                    (Kind::Add | Kind::Add2, Ok(_)) => {
                        processed.insert((t as u8, *seq), kind.clone());
                    }
                    (Kind::Reject, Err(m)) if m.contains("rejected") => {
                        processed.insert((t as u8, *seq), kind.clone());
                    }
                    _ => {}
                }
            }
        }
        classes.insert("volatile_entity".into());
        if creates_ok > drops_ok + 1 {
            return Err(bad("c07-created-twice", "volatile", format!("the entity e{x} was created successfully {creates_ok} times with {drops_ok} successful drops: two creations of one entity both succeeded")));
        }
        let exists = store.has(&h).map_err(|e| bad("c07-load", "has", e.to_string()))?;
        if drops_ok == 0 {
            if exists != (creates_ok == 1) {
                return Err(bad("c07-created-twice", "existence", format!("e{x}: {creates_ok} successful creations, no drop, but exists = {exists}")));
            }
            if !exists && !processed.is_empty() {
                return Err(bad("c07-command-lost", "no-entity", format!("e{x}: commands {:?} were processed although the entity was never created", processed.keys().collect::<Vec<_>>())));
            }
            if exists {
                classes.insert("volatile_created".into());
                let fin = store.get_latest(&h).map_err(|e| bad("c07-load", "final", format!("e{x} does not load: {e}")))?;
                let hist = store
                    .command_history(&h, CommandHistoryCriteria { rows_limit: Some(100000), ..Default::default() })
                    .map_err(|e| bad("c07-history", "error", format!("history of e{x}: {e}")))?;
                let mut model_log: Vec<(u8, u32)> = Vec::new();
                let mut seen_cmds: BTreeSet<(u8, u32)> = BTreeSet::new();
                for (i, rec) in hist.commands.iter().enumerate() {
                    if rec.version != i as u64 + 1 {
                        return Err(bad("c07-versions-not-contiguous", "history", format!("e{x}: record #{i} has version {}", rec.version)));
                    }
                    let args = &rec.summary.args;
                    let thread: u8 = args.get("thread").and_then(|s| s.parse().ok()).unwrap_or(255);
                    let seq: u32 = args.get("seq").and_then(|s| s.parse().ok()).unwrap_or(u32::MAX);
                    let Some(kind) = processed.get(&(thread, seq)) else {
                        return Err(bad("c07-history", "unexpected-record", format!("e{x}: record v{} for {thread}/{seq}: its caller was not told that it was processed", rec.version)));
                    };
                    if !seen_cmds.insert((thread, seq)) {
                        return Err(bad("c07-applied-twice", "history", format!("e{x}: command {thread}/{seq} is recorded twice")));
                    }
                    match kind {
                        Kind::Add => model_log.push((thread, seq)),
                        Kind::Add2 => {
                            model_log.push((thread, seq));
                            model_log.push((thread, seq));
                        }
                        _ => {}
                    }
                }
                for (k, kind) in &processed {
                    if !seen_cmds.contains(k) {
                        return Err(bad("c07-command-lost", if matches!(kind, Kind::Reject) { "rejected" } else { "accepted" }, format!("e{x}: command {kind:?} {}/{} returned to its caller but has no audit record", k.0, k.1)));
                    }
                }
                if fin.log != model_log {
                    return Err(bad("c07-state-vs-log", "final", format!("e{x}: final state {:?} but the audit log gives {:?}", fin.log, model_log)));
                }
                let fresh: AggregateStore<Ledger> = AggregateStore::create(storage, const { Ident::make("ledger") }, false).map_err(|e| bad("c07-load", "fresh-store", e.to_string()))?;
                let again = fresh.get_latest(&h).map_err(|e| bad("c07-load", "replay", format!("e{x} does not load in a fresh store: {e}")))?;
                if again.log != fin.log || again.version != fin.version {
                    return Err(bad("c07-state-vs-log", "replay", format!("e{x}: cached state v{} {:?} but replay gives v{} {:?}", fin.version, fin.log, again.version, again.log)));
                }
            }
        } else {
            classes.insert("volatile_dropped".into());
        }
    }
    // post-save listener saw every accepted state change exactly once per event
    let mut ps = ctx.post_saved.lock().unwrap_or_else(|e| e.into_inner()).clone();
    ps.sort();
    let mut want: Vec<(u8, u32)> = Vec::new();
    for (t, rs) in obs.results.iter().enumerate() {
        for (_, kind, seq, r) in rs {
            if r.is_ok() {
                match kind {
                    Kind::Add => want.push((t as u8, *seq)),
                    Kind::Add2 => {
                        want.push((t as u8, *seq));
                        want.push((t as u8, *seq));
                    }
                    _ => {}
                }
            }
        }
    }
    want.sort();
    if ps != want {
        return Err(bad("c07-post-save", "events", format!("post-save listeners saw {} events, {} were accepted", ps.len(), want.len())));
    }
    if case.disk {
        classes.insert("disk".into());
    }
    if case.second_store {
        classes.insert("second_store_object".into());
    }
    Ok(classes.into_iter().collect())
}

impl Prop for C07 {
    type Case = Case;
    const ID: &'static str = "C07";

    fn strategy(tier: Tier) -> BoxedStrategy<Case> {
        let len = match tier {
            Tier::Quick => 3..25usize,
            Tier::Thorough => 5..60usize,
        };
        (prop_oneof![1 => Just(true), 1 => Just(false)], any::<bool>(), 1u8..4, 2usize..6, 0u8..3, any::<u64>(), prop_oneof![3 => Just(false), 1 => Just(true)], prop_oneof![4 => Just(0u8), 2 => Just(1u8), 1 => Just(2u8)])
            .prop_flat_map(move |(disk, history_cache, entities, n, readers, yield_seed, second_store, volatile)| {
                (Just(disk), Just(history_cache), Just(entities), vec(vec(step(entities, volatile), len.clone()), n), Just(readers), Just(yield_seed), Just(second_store), Just(volatile))
            })
            .prop_map(|(disk, history_cache, entities, writers, readers, yield_seed, second_store, volatile)| Case { disk, history_cache, entities, writers, readers, yield_seed, second_store, volatile })
            .boxed()
    }

    fn run(case: &Case, _ctx: &Ctx) -> Outcome {
        match run_case(case) {
            Err(e) => Outcome::Harness(e),
            Ok(Err((clause, key, msg))) => Outcome::Violation { clause, key, msg },
            Ok(Ok(classes)) => {
                let nontrivial = classes.iter().any(|c| c == "interleaved_order");
                let size = case.writers.iter().map(|w| w.len()).sum();
                Outcome::Pass { nontrivial, classes, size }
            }
        }
    }

    fn sample(case: &Case) -> serde_json::Value {
        serde_json::json!({"disk": case.disk, "history_cache": case.history_cache, "entities": case.entities, "writers": case.writers.iter().map(|w| w.len()).collect::<Vec<_>>(), "readers": case.readers, "second_store": case.second_store})
    }
}
