//! C03 — Whatever is revoked, removed or replaced is withdrawn and stays on
//! the CRL.
use std::cell::RefCell;
use std::collections::BTreeMap;

use proptest::prelude::*;
use proptest::strategy::BoxedStrategy;

use crate::clock;
use crate::fw::{Ctx, Outcome, Prop, Tier};
use crate::gens::{cfg_strategy, wcase_strategy, WCase, Weights};
use crate::ops::{Op, Sim};
use crate::oracle::{self, bad, Bad};
use crate::rp::{self, Kind, ObjInfo};

pub struct C03;

thread_local! {
    /// every object ever seen: (issuer key, serial) -> info
    static SEEN: RefCell<BTreeMap<(String, String), ObjInfo>> = RefCell::new(BTreeMap::new());
}

fn scan_into_seen(sim: &Sim) {
    if let Ok(served) = sim.w().served() {
        let objs = rp::scan(&served);
        SEEN.with(|s| {
            let mut s = s.borrow_mut();
            for o in objs {
                if matches!(o.kind, Kind::Mft | Kind::Crl) {
                    continue;
                }
                s.entry((o.issuer.clone(), o.serial.clone())).or_insert(o);
            }
        });
    }
}

fn task_hook(sim: &Sim, task: &str) -> Result<(), Bad> {
    if task.starts_with("sync_repo_") {
        scan_into_seen(sim);
    }
    Ok(())
}

fn check(sim: &Sim) -> Result<(usize, usize), Bad> {
    scan_into_seen(sim);
    let now = clock::now_s();
    let served = sim.w().served().map_err(|e| bad("served", "error", e))?;
    let crls = rp::crls_by_key(&served);
    let mut revoked_seen = 0;
    let mut still = 0;
    let seen: Vec<ObjInfo> = SEEN.with(|s| s.borrow().values().cloned().collect());
    for o in &seen {
        if o.not_after <= now {
            continue; // expired entries may leave the CRL
        }
        let Some(crl) = crls.get(&o.issuer) else { continue }; // key publishes no CRL any more
        let current = served.get(&o.uri).map(|b| rp::hash_hex(b) == o.hash).unwrap_or(false);
        if current {
            still += 1;
            continue;
        }
        let Some(serial) = rp::parse_serial(&o.serial) else { continue };
        if crl.contains(serial) {
            revoked_seen += 1;
        } else {
            return Err(bad(
                "c03-not-revoked",
                &format!("{:?}", o.kind),
                format!(
                    "{:?} {} (issuer key {}, serial {}, not after {}) is no longer published as it was, the issuing key still publishes a CRL, but the serial is not on it",
                    o.kind, o.uri, o.issuer, o.serial, o.not_after
                ),
            ));
        }
    }
    // model-driven absence
    // (ii) nothing under a publication point of a CA / class that no longer exists
    for uri in served.keys() {
        if let Some((ca, rcn)) = oracle::pp_of(uri) {
            if ca == "ta" {
                continue;
            }
            match sim.ca_info(&ca) {
                None => {
                    return Err(bad("c03-deleted-ca-objects", "served", format!("{uri} is still served although CA {ca} does not exist")));
                }
                Some(info) => {
                    if !info.resource_classes.keys().any(|k| k.to_string() == rcn) {
                        return Err(bad(
                            "c03-removed-class-objects",
                            "served",
                            format!("{uri} is still served although CA {ca} has no resource class {rcn}"),
                        ));
                    }
                }
            }
        }
    }
    // (i) no CA certificate for a key that is not a key of an active child
    for (parent, pm) in &sim.model.cas {
        let Ok(pserved) = sim.w().served_for(parent) else { continue };
        for (uri, ski, _aki, _rs) in rp::ca_certs_in(&pserved) {
            let mut owner: Option<(String, bool)> = None;
            for (child, cm) in &pm.children {
                if oracle::held_certs(sim, child).iter().any(|k| k.0 == ski) {
                    owner = Some((child.clone(), cm.suspended));
                }
            }
            match owner {
                Some((child, true)) => {
                    return Err(bad("c03-suspended-child-cert", "served", format!("{parent} still publishes {uri} for suspended child {child}")));
                }
                Some(_) => {}
                None => {
                    // which child was it? a removed child, a deleted CA or a dropped key
                    let deleted_with_pending = sim
                        .flags
                        .0
                        .keys()
                        .any(|k| k.starts_with("entitlement_emptied:") && !sim.model.cas.contains_key(&k["entitlement_emptied:".len()..]));
                    // a child that lost its whole entitlement here and then removed
                    // this parent before its "revoke keys of the removed class" task ran
                    let left_with_pending = pm.children.keys().any(|c| {
                        sim.flags.has(&format!("entitlement_emptied:{c}")) && sim.model.cas.get(c).map(|m| !m.parents.contains(parent)).unwrap_or(false)
                    });
                    let key = if deleted_with_pending {
                        "deleted-ca-with-pending-class-removal"
                    } else if left_with_pending {
                        "parent-removed-with-pending-class-removal"
                    } else {
                        "no-active-child-key"
                    };
                    return Err(bad(
                        "c03-stale-child-cert",
                        key,
                        format!("{parent} publishes {uri} whose subject key belongs to no current key of an active child"),
                    ));
                }
            }
        }
    }
    Ok((revoked_seen, still))
}

impl Prop for C03 {
    type Case = WCase;
    const ID: &'static str = "C03";

    fn strategy(tier: Tier) -> BoxedStrategy<WCase> {
        let ops = match tier {
            Tier::Quick => 8..40,
            Tier::Thorough => 10..80,
        };
        let w = Weights {
            roa: 16,
            aspa: 6,
            bgpsec: 5,
            child_res: 10,
            suspend: 5,
            child_remove: 3,
            heal: 3,
            // with the parent synchronisations held back a key roll stays in its intermediate
            // states (new key certified, old key not yet revoked) across checkpoints
            hold_parent_syncs: 4,
            parent_remove: 2,
            ca_delete: 2,
            mapping: 6,
            keyroll: 12,
            republish: 3,
            renew: 1,
            publisher: 0,
            restart: 0,
            max_advance: 5 * 86400,
            ..Weights::default()
        };
        wcase_strategy(cfg_strategy(Just(false).boxed(), false), w, 5, ops)
    }

    fn run(case: &WCase, _ctx: &Ctx) -> Outcome {
        SEEN.with(|s| s.borrow_mut().clear());
        let mut installed = false;
        let mut revoked_total = 0usize;
        let mut checks = 0usize;
        let res = super::run_wcase(case, |sim, op, _setup| {
            if !installed {
                sim.task_hook = Some(task_hook);
                installed = true;
            }
            if !matches!(op, Op::Check) {
                return Ok(());
            }
            checks += 1;
            let (revoked, _still) = check(sim)?;
            revoked_total = revoked_total.max(revoked);
            Ok(())
        });
        let seen_n = SEEN.with(|s| s.borrow().len());
        SEEN.with(|s| s.borrow_mut().clear());
        match res {
            Err(o) => o,
            Ok(sim) => {
                let f = &sim.flags;
                let mut ways = 0;
                let mut classes = Vec::new();
                for k in [
                    "roa_removed",
                    "aspa_removed",
                    "bgpsec_removed",
                    "child_removed",
                    "child_suspended",
                    "entitlement_shrunk",
                    "parent_removed",
                    "parent_removed_one_of_several",
                    "ca_deleted",
                    "ca_deleted_with_children",
                    "keyroll_activate",
                    "republish",
                    "class_mapped",
                ] {
                    if f.has(k) {
                        ways += 1;
                        classes.push(k.to_string());
                    }
                }
                if revoked_total > 0 {
                    classes.push("revoked_objects_checked".into());
                }
                classes.push(format!("checks:{}", checks.min(6)));
                let nontrivial = ways >= 2 && revoked_total > 0 && checks >= 1;
                Outcome::Pass { nontrivial, classes, size: seen_n }
            }
        }
    }

    fn sample(case: &WCase) -> serde_json::Value {
        serde_json::json!({
            "setup": case.setup.iter().map(|o| o.short()).collect::<Vec<_>>(),
            "ops": case.ops.iter().map(|o| o.short()).collect::<Vec<_>>(),
        })
    }
}
