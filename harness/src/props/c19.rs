//! C19 — Reported parent, repository and child status matches the last
//! exchange.
use std::collections::{BTreeMap, BTreeSet};
use std::str::FromStr;

use proptest::prelude::*;
use proptest::strategy::BoxedStrategy;
use rpki::ca::idexchange::{CaHandle, ChildHandle, ParentHandle};
use serde_json::Value;

use crate::clock;
use crate::fw::{Ctx, Outcome, Prop, Tier};
use crate::gens::{cfg_strategy, wcase_strategy, WCase, Weights};
use crate::ops::{Op, Sim};
use crate::oracle::{bad, Bad};
use crate::rp;
use crate::world::{guarded, TA};

pub struct C19;

fn strip_times(v: &mut Value) {
    match v {
        Value::Object(m) => {
            for k in ["timestamp", "last_success", "not_after", "suspended"] {
                if let Some(x) = m.get_mut(k) {
                    if !x.is_null() {
                        *x = Value::String("<time>".into());
                    }
                }
            }
            for (_, x) in m.iter_mut() {
                strip_times(x);
            }
        }
        Value::Array(a) => {
            for x in a.iter_mut() {
                strip_times(x);
            }
            a.sort_by_key(|x| x.to_string());
        }
        _ => {}
    }
}

fn status_digest(sim: &Sim) -> BTreeMap<String, Value> {
    let mut res = BTreeMap::new();
    for ca in sim.w().ca_handles() {
        if ca == TA {
            continue;
        }
        if let Ok(st) = sim.w().cam().get_ca_status(&CaHandle::from_str(&ca).unwrap()) {
            // round trip through serde: resource sets are only canonical
            // after deserialisation (as they are after a restart)
            let parents = serde_json::to_value(st.parents())
                .ok()
                .and_then(|v| serde_json::from_value::<krill::api::ca::ParentStatuses>(v).ok())
                .and_then(|p| serde_json::to_value(p).ok())
                .unwrap_or(Value::Null);
            let mut v = serde_json::json!({
                "repo": serde_json::to_value(st.repo()).unwrap_or(Value::Null),
                "parents": parents,
                "children": serde_json::to_value(st.children()).unwrap_or(Value::Null),
            });
            strip_times(&mut v);
            res.insert(ca, v);
        }
    }
    res
}

fn status_value(st: &krill::server::ca::CaStatus) -> Value {
    let parents = serde_json::to_value(st.parents())
        .ok()
        .and_then(|v| serde_json::from_value::<krill::api::ca::ParentStatuses>(v).ok())
        .and_then(|p| serde_json::to_value(p).ok())
        .unwrap_or(Value::Null);
    let mut v = serde_json::json!({
        "repo": serde_json::to_value(st.repo()).unwrap_or(Value::Null),
        "parents": parents,
        "children": serde_json::to_value(st.children()).unwrap_or(Value::Null),
    });
    sort_arrays(&mut v);
    v
}

fn sort_arrays(v: &mut Value) {
    match v {
        Value::Object(m) => m.values_mut().for_each(sort_arrays),
        Value::Array(a) => {
            a.iter_mut().for_each(sort_arrays);
            a.sort_by_key(|x| x.to_string());
        }
        _ => {}
    }
}

/// The status the running instance reports (its cache) against the status a
/// new status store reads from the same storage, for every CA: every status
/// update is written through, so with nothing in flight the two are equal,
/// times included.
pub fn status_cache_vs_storage(w: &crate::world::World) -> Result<usize, Bad> {
    let fresh = krill::server::ca::CaStatusStore::create(w.rt.storage(), krill::constants::STATUS_NS)
        .map_err(|e| bad("status-cache-vs-storage", "load", format!("a new status store does not load: {e}")))?;
    let mut n = 0;
    for ca in w.ca_handles() {
        if ca == TA {
            continue;
        }
        let h = CaHandle::from_str(&ca).unwrap();
        let Ok(live) = w.cam().get_ca_status(&h) else { continue };
        let a = status_value(&live);
        let b = status_value(&fresh.get_ca_status(&h));
        n += 1;
        if a != b {
            let part = ["repo", "parents", "children"].into_iter().find(|k| a.get(*k) != b.get(*k)).unwrap_or("?");
            return Err(bad(
                "status-cache-vs-storage",
                part,
                format!(
                    "{ca}: the {part} status reported by the running instance differs from what is stored: reported {} stored {}",
                    a.get(part).map(|v| v.to_string()).unwrap_or_default().chars().take(500).collect::<String>(),
                    b.get(part).map(|v| v.to_string()).unwrap_or_default().chars().take(500).collect::<String>()
                ),
            ));
        }
    }
    Ok(n)
}

#[derive(Default)]
struct Stats {
    probes: usize,
    failed_probes: usize,
    fail_then_success: usize,
    restart_after_failure: usize,
}

fn check(sim: &Sim, failed_before: &mut BTreeSet<String>, stats: &mut Stats, step_over: bool) -> Result<(), Bad> {
    clock::freeze();
    let r = check_frozen(sim, failed_before, stats, step_over);
    clock::unfreeze();
    r
}

fn check_frozen(sim: &Sim, failed_before: &mut BTreeSet<String>, stats: &mut Stats, step_over: bool) -> Result<(), Bad> {
    let w = sim.w();
    for ca in w.ca_handles() {
        if ca == TA {
            continue;
        }
        let h = CaHandle::from_str(&ca).unwrap();
        let Ok(cert_auth) = w.cam().get_ca(&h) else { continue };
        let parents: Vec<ParentHandle> = cert_auth.parents().cloned().collect();
        // probe exchanges: these are then the most recent exchanges
        let mut parent_results: BTreeMap<String, Result<(), String>> = BTreeMap::new();
        for p in &parents {
            let slow = &w.slow;
            let r = guarded(|| w.cam().ca_sync_parent(&h, 0, p, &w.actor, slow))
                .map_err(|c| bad("crash", &super::crash_key(&c.what), c.what))?;
            parent_results.insert(p.to_string(), r.map(|_| ()).map_err(|e| e.to_string()));
        }
        let has_repo = cert_auth.repository_contact().is_ok();
        let repo_result: Option<Result<(), String>> = if has_repo {
            let slow = &w.slow;
            let r = guarded(|| w.cam().cas_repo_sync_single(&h, 0, slow)).map_err(|c| bad("crash", &super::crash_key(&c.what), c.what))?;
            Some(r.map(|_| ()).map_err(|e| e.to_string()))
        } else {
            None
        };
        let status = w.cam().get_ca_status(&h).map_err(|e| bad("c19-status", "unavailable", format!("{ca}: {e}")))?;
        let issues = w.cam().get_ca_issues(&h).map_err(|e| bad("c19-status", "unavailable", format!("{ca}: {e}")))?;
        // parents
        for (p, res) in &parent_results {
            stats.probes += 1;
            let ph = ParentHandle::from_str(p).unwrap();
            let st = status.parents().get(&ph);
            let shown_failure = st.and_then(|s| s.opt_failure());
            let key = format!("{ca}->{p}");
            match res {
                Ok(()) => {
                    if failed_before.remove(&key) {
                        stats.fail_then_success += 1;
                    }
                    if let Some(f) = shown_failure {
                        return Err(bad("c19-parent-status", "failure-shown-after-success", format!("{ca}: last sync with parent {p} succeeded but the status shows failure: {}", f.msg)));
                    }
                    let Some(st) = st else {
                        return Err(bad("c19-parent-status", "missing", format!("{ca}: no status entry for parent {p} after a successful sync")));
                    };
                    if st.last_exchange.is_none() {
                        return Err(bad("c19-parent-status", "no-exchange", format!("{ca}: parent {p} has no last exchange after a successful sync")));
                    }
                    // entitlements shown = what the CA holds under that parent after the sync
                    if let Some(info) = sim.ca_info(&ca) {
                        let mut held = rpki::repository::resources::ResourceSet::empty();
                        let mut pending = false;
                        for rc in info.resource_classes.values() {
                            if rc.parent_handle.to_string() == *p {
                                match rc.keys.current_key() {
                                    Some(k) => held = held.union(&k.incoming_cert.resources),
                                    None => pending = true,
                                }
                            }
                        }
                        let mut shown = rpki::repository::resources::ResourceSet::empty();
                        for c in &st.classes {
                            shown = shown.union(c.resource_set());
                        }
                        if !pending && !cert_auth.has_pending_requests(&ph) && !crate::oracle::rs_eq(&shown, &held) && *p != TA {
                            return Err(bad(
                                "c19-parent-entitlements",
                                "differs",
                                format!("{ca}: status shows entitlements [{shown}] from parent {p} but after synchronisation the CA holds [{held}]"),
                            ));
                        }
                        if !crate::oracle::rs_eq(&st.all_resources, &shown) {
                            return Err(bad("c19-parent-entitlements", "all-resources", format!("{ca}/{p}: all_resources [{}] differs from the union of the classes [{shown}]", st.all_resources)));
                        }
                    }
                    if issues.parent_issues().iter().any(|i| i.parent == ph) {
                        return Err(bad("c19-issues", "parent-issue-after-success", format!("{ca}: issues view lists parent {p} although the last sync succeeded")));
                    }
                }
                Err(e) => {
                    stats.failed_probes += 1;
                    failed_before.insert(key);
                    match shown_failure {
                        None => {
                            return Err(bad("c19-parent-status", "failure-not-shown", format!("{ca}: last sync with parent {p} failed ({e}) but the status shows no failure")));
                        }
                        Some(f) => {
                            if !e.contains(&f.msg) && !f.msg.contains(e.as_str()) {
                                return Err(bad("c19-parent-status", "other-error", format!("{ca}/{p}: probe failed with '{e}', status shows '{}'", f.msg)));
                            }
                        }
                    }
                    if !issues.parent_issues().iter().any(|i| i.parent == ph) {
                        return Err(bad("c19-issues", "parent-issue-missing", format!("{ca}: issues view does not list failing parent {p}")));
                    }
                }
            }
        }
        // entries of removed parents are gone
        for (p, _) in status.parents().iter() {
            if !parents.contains(p) {
                return Err(bad("c19-stale-entry", "parent", format!("{ca}: status still has an entry for removed parent {p}")));
            }
        }
        // repository
        if let Some(res) = &repo_result {
            stats.probes += 1;
            let key = format!("{ca}->repo");
            let shown_failure = status.repo().opt_failure();
            // With the publisher removed at the server no exchange can
            // succeed; an Ok from the probe then means the CA had nothing to
            // send and no exchange took place. The status keeps describing
            // the last real exchange.
            let removed_at_server = sim.model.cas.get(&ca).map(|m| m.publisher_removed).unwrap_or(false);
            match res {
                Ok(()) if removed_at_server => {}
                Ok(()) => {
                    if failed_before.remove(&key) {
                        stats.fail_then_success += 1;
                    }
                    if let Some(f) = shown_failure {
                        return Err(bad("c19-repo-status", "failure-shown-after-success", format!("{ca}: last repository sync succeeded but the status shows: {}", f.msg)));
                    }
                    if issues.repo_issue().is_some() {
                        return Err(bad("c19-issues", "repo-issue-after-success", format!("{ca}: issues view shows a repository issue after a successful sync")));
                    }
                    // published list == what the server holds
                    let served = w.served_for(&ca).unwrap_or_default();
                    let mut shown: Vec<(String, String)> =
                        status.repo().published.iter().map(|f| (f.uri.to_string(), rp::hash_hex(&f.base64.to_bytes()))).collect();
                    let n = shown.len();
                    shown.sort();
                    shown.dedup();
                    if shown.len() != n {
                        return Err(bad("c19-published-list", "duplicates", format!("{ca}: the status lists {} published objects of which {} are duplicates", n, n - shown.len())));
                    }
                    let mut actual: Vec<(String, String)> = served.iter().map(|(u, b)| (u.clone(), rp::hash_hex(b))).collect();
                    actual.sort();
                    if shown != actual {
                        let a: BTreeSet<_> = shown.iter().collect();
                        let b: BTreeSet<_> = actual.iter().collect();
                        let key = if sim.flags.has("publisher_readded") { "differs-after-publisher-recreated" } else { "differs" };
                        if step_over && key == "differs-after-publisher-recreated" {
                            crate::fw::soft_known(&format!("c19-published-list:{key}"), &format!("{ca}: status lists {} objects, the server holds {}", shown.len(), actual.len()));
                            continue;
                        }
                        return Err(bad(
                            "c19-published-list",
                            key,
                            format!(
                                "{ca}: status lists {} objects, the server holds {}; only in status: {:?}; only at server: {:?}",
                                shown.len(), actual.len(),
                                a.difference(&b).take(2).collect::<Vec<_>>(), b.difference(&a).take(2).collect::<Vec<_>>()
                            ),
                        ));
                    }
                }
                Err(e) => {
                    stats.failed_probes += 1;
                    failed_before.insert(key);
                    if shown_failure.is_none() {
                        return Err(bad("c19-repo-status", "failure-not-shown", format!("{ca}: last repository sync failed ({e}) but the status shows no failure")));
                    }
                    if issues.repo_issue().is_none() {
                        return Err(bad("c19-issues", "repo-issue-missing", format!("{ca}: issues view does not show the failing repository")));
                    }
                }
            }
        }
        // children entries
        let children: BTreeSet<String> = cert_auth.children().map(|c| c.to_string()).collect();
        for c in status.children().keys() {
            if !children.contains(&c.to_string()) {
                return Err(bad("c19-stale-entry", "child", format!("{ca}: status still has an entry for removed child {c}")));
            }
        }
    }
    // the parent side: a local child whose probe succeeded is shown as success
    for ca in w.ca_handles() {
        if ca == TA {
            continue;
        }
        let h = CaHandle::from_str(&ca).unwrap();
        let Ok(cert_auth) = w.cam().get_ca(&h) else { continue };
        for p in cert_auth.parents() {
            if p.as_str() == TA {
                continue;
            }
            let key = format!("{ca}->{p}");
            if failed_before.contains(&key) {
                continue;
            }
            let ph = CaHandle::from_str(p.as_str()).unwrap();
            let Ok(pst) = w.cam().get_ca_status(&ph) else { continue };
            let ch = ChildHandle::from_str(&ca).unwrap();
            match pst.children().get(&ch) {
                None => {
                    return Err(bad("c19-child-status", "missing", format!("{p}: no status entry for child {ca} whose last request succeeded")));
                }
                Some(cs) => match &cs.last_exchange {
                    Some(ex) if ex.result.was_success() => {}
                    Some(ex) => {
                        return Err(bad("c19-child-status", "failure-shown-after-success", format!("{p}: child {ca}'s last request succeeded but the status shows {}", ex.result)));
                    }
                    None => {
                        return Err(bad("c19-child-status", "no-exchange", format!("{p}: child {ca} has no recorded exchange after a successful request")));
                    }
                },
            }
        }
    }
    // what is reported is what is stored
    status_cache_vs_storage(w)?;
    // deleted CAs have no status
    for ca in sim.cas_ever.iter() {
        if !sim.model.cas.contains_key(ca) {
            if w.cam().get_ca_status(&CaHandle::from_str(ca).unwrap()).is_ok() {
                return Err(bad("c19-stale-entry", "ca", format!("status of deleted CA {ca} is still available")));
            }
        }
    }
    Ok(())
}

impl Prop for C19 {
    type Case = WCase;
    const ID: &'static str = "C19";

    fn strategy(tier: Tier) -> BoxedStrategy<WCase> {
        let ops = match tier {
            Tier::Quick => 8..36,
            Tier::Thorough => 10..70,
        };
        let w = Weights {
            roa: 10,
            publisher: 8,
            child_remove: 4,
            parent_remove: 3,
            update_id: 3,
            suspend: 4,
            keyroll: 4,
            child_res: 8,
            ca_delete: 2,
            restart: 5,
            check: 8,
            hold_parent_syncs: 3,
            heal: 9,
            max_advance: 3 * 86400,
            ..Weights::default()
        };
        // half of the instances suspend children that have been silent for (a little over) two days
        let cfg = (cfg_strategy(any::<bool>().boxed(), false), prop_oneof![1 => Just(None), 1 => (48u32..60).prop_map(Some)]).prop_map(|(mut c, s)| {
            c.suspend_hours = s;
            c
        });
        // episodes: an exchange partner is broken on purpose, the failure is looked at, the operator
        // repairs it, and the status is looked at again (kind, edge or CA selector, position, gaps)
        let episodes = proptest::collection::vec((0u8..4, any::<u16>(), any::<u16>(), any::<u16>()), 0..3);
        (wcase_strategy(cfg.boxed(), w, 5, ops), episodes)
            .prop_map(|(mut case, episodes)| {
                let edges: Vec<(u8, u8)> = case
                    .setup
                    .iter()
                    .filter_map(|o| match o {
                        Op::Attach { ca, parent, .. } if *parent != 0 => Some((*parent, *ca)),
                        _ => None,
                    })
                    .collect();
                let n_cas = case.setup.iter().filter(|o| matches!(o, Op::CaAdd { .. })).count().max(1);
                for (kind, sel, pos, gaps) in episodes {
                    let ca = (sel as usize * n_cas >> 16) as u8;
                    let something_to_publish = Op::Roa { ca, add: vec![crate::ops::RoaSpec { asn_i: (sel % 8) as u8, pfx_i: (sel % 20) as u8, ml: 0, comment: 0 }], remove: vec![] };
                    let seq: Vec<Op> = if edges.is_empty() || kind == 0 {
                        vec![Op::PublisherRemove { ca }, something_to_publish, Op::Check, Op::PublisherReadd { ca }, Op::Check]
                    } else {
                        let (parent, child) = edges[sel as usize * edges.len() >> 16];
                        match kind {
                            1 => vec![Op::ChildRemove { parent, child }, Op::Check, Op::ChildReadd { parent, child, res: sel & 0x7fff | 1 }, Op::Check],
                            2 => vec![Op::UpdateId { ca: child }, Op::Check, Op::ChildIdSync { parent, child }, Op::Check],
                            _ => vec![
                                Op::UpdateId { ca: child },
                                Op::Check,
                                Op::PublisherRemove { ca: child },
                                Op::ChildIdSync { parent, child },
                                Op::PublisherReadd { ca: child },
                                Op::Check,
                            ],
                        }
                    };
                    let mut at = pos as usize * (case.ops.len() + 1) >> 16;
                    for (k, op) in seq.into_iter().enumerate() {
                        if k > 0 {
                            at += 1 + ((gaps >> (2 * k.min(7))) & 3) as usize * (k % 2);
                        }
                        at = at.min(case.ops.len());
                        case.ops.insert(at, op);
                    }
                }
                case
            })
            .prop_map(|mut case| {
                // where children can be suspended for inactivity, a silent period followed by a restart
                // is part of most histories (placed by the generated key-pool offset, which is arbitrary)
                if let Some(h) = case.cfg.suspend_hours {
                    if case.key_start % 4 != 0 {
                        case.cfg.disk = true;
                        let at = (case.key_start as usize / 4) % (case.ops.len().max(1));
                        let seq = [Op::HoldParentSyncs { on: true }, Op::Advance { secs: h * 3600 + 900 }, Op::Quiesce, Op::Restart, Op::Pump { n: 3 }];
                        for (k, op) in seq.into_iter().enumerate() {
                            case.ops.insert(at + k, op);
                        }
                    }
                }
                case
            })
            .boxed()
    }

    fn run(case: &WCase, ctx: &Ctx) -> Outcome {
        let step_over = !ctx.strict && ctx.is_known(Self::ID, "c19-published-list:differs-after-publisher-recreated");
        let mut failed_before: BTreeSet<String> = BTreeSet::new();
        let mut stats = Stats::default();
        let before_restart: std::cell::RefCell<Option<BTreeMap<String, Value>>> = std::cell::RefCell::new(None);
        let res = super::run_wcase2(
            case,
            |sim, op| {
                // the status is judged after the CAs could talk to their parents
                if matches!(op, Op::Check) && sim.w().hold_types.iter().any(|h| h == "_with_parent_") {
                    let _ = sim.apply(&Op::HoldParentSyncs { on: false });
                }
                if matches!(op, Op::Restart) && sim.w().cfg.disk {
                    let d = status_digest(sim);
                    if d.values().any(|v| v.get("children").and_then(|c| c.as_object()).map(|m| m.values().any(|c| c.get("suspended").map(|s| !s.is_null()).unwrap_or(false))).unwrap_or(false)) {
                        sim.flags.hit("restart_with_child_suspended_for_inactivity");
                    }
                    *before_restart.borrow_mut() = Some(d);
                }
                Ok(())
            },
            |sim, op, setup| {
                if setup {
                    return Ok(());
                }
                if matches!(op, Op::Restart) {
                    if let Some(b) = before_restart.borrow_mut().take() {
                        let a = status_digest(sim);
                        if a != b {
                            let diff = b.iter().find(|(k, v)| a.get(*k) != Some(*v)).map(|(k, _)| k.clone()).unwrap_or_default();
                            return Err(bad("c19-restart", "status-differs", format!("status of {diff} differs before and after a restart: before {} after {}", b.get(&diff).map(|v| v.to_string()).unwrap_or_default().chars().take(400).collect::<String>(), a.get(&diff).map(|v| v.to_string()).unwrap_or_default().chars().take(400).collect::<String>())));
                        }
                        if !failed_before.is_empty() {
                            stats.restart_after_failure += 1;
                        }
                    }
                }
                if matches!(op, Op::Check) {
                    check(sim, &mut failed_before, &mut stats, step_over)?;
                }
                Ok(())
            },
        );
        match res {
            Err(o) => o,
            Ok(sim) => {
                let mut classes = Vec::new();
                if stats.failed_probes > 0 {
                    classes.push("failed_exchange".to_string());
                }
                if stats.fail_then_success > 0 {
                    classes.push("failure_then_success".into());
                }
                if stats.restart_after_failure > 0 {
                    classes.push("restart_after_failure".into());
                }
                for k in ["publisher_removed", "publisher_readded", "child_removed", "parent_removed", "ca_deleted", "restart", "child_suspended", "restart_with_child_suspended_for_inactivity", "child_readded", "child_id_synced"] {
                    if sim.flags.has(k) {
                        classes.push(k.to_string());
                    }
                }
                let nontrivial = stats.fail_then_success > 0 || stats.restart_after_failure > 0;
                Outcome::Pass { nontrivial, classes, size: stats.probes }
            }
        }
    }

    fn sample(case: &WCase) -> serde_json::Value {
        serde_json::json!({
            "disk": case.cfg.disk,
            "ops": case.ops.iter().map(|o| o.short()).collect::<Vec<_>>(),
        })
    }
}
