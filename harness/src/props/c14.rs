//! C14 — Manifests, CRLs and signed objects are refreshed in time with
//! rising numbers.
use std::collections::BTreeMap;
use std::str::FromStr;

use proptest::prelude::*;
use proptest::strategy::BoxedStrategy;
use rpki::ca::idexchange::CaHandle;

use crate::clock;
use crate::fw::{Ctx, Outcome, Prop, Tier};
use crate::gens::{cfg_strategy, wcase_strategy, WCase, Weights};
use crate::ops::{Fail, Op, Sim};
use crate::oracle::{self, bad, Bad, Snap};
use crate::rp::Kind;

pub struct C14;

const WEEK: i64 = 7 * 86400;

fn versions(sim: &Sim) -> BTreeMap<String, u64> {
    use krill::commons::eventsourcing::Aggregate;
    let mut res = BTreeMap::new();
    for ca in sim.model.cas.keys() {
        if let Ok(c) = sim.w().cam().get_ca(&CaHandle::from_str(ca).unwrap()) {
            res.insert(ca.clone(), c.version());
        }
    }
    res
}

fn num(s: &str) -> u128 {
    s.parse::<u128>().unwrap_or(0)
}

struct Before {
    snap: Snap,
    versions: BTreeMap<String, u64>,
    t0: i64,
}

fn fail_to_bad(f: Fail) -> Bad {
    match f {
        Fail::Crash(e) => bad("crash", &super::crash_key(&e), e),
        Fail::Violation(e) => bad("no-quiescence", "maintenance", e),
        Fail::Harness(e) => bad("harness", "maintenance", e),
    }
}

/// The experiment: state settled at T0, clock advanced to T, maintenance run.
fn after_advance(sim: &mut Sim, before: &Before, numbers: &mut BTreeMap<String, u128>, stats: &mut Stats) -> Result<(), Bad> {
    let cfg = sim.w().cfg.clone();
    let t = clock::now_s();
    let before_secs = cfg.publish_before_hours as i64 * 3600;
    // what is due at T, from the decoded objects
    let mut due_keys: BTreeMap<String, bool> = BTreeMap::new();
    let mut boundary: std::collections::BTreeSet<String> = Default::default();
    for pp in &before.snap.rp.pps {
        if pp.ca_uri == "ta.cer" {
            continue;
        }
        due_keys.insert(pp.key.clone(), t > pp.mft_next - before_secs);
        // krill reads the clock a little later than we did: at the exact
        // boundary either verdict is right
        if (t - (pp.mft_next - before_secs)).abs() <= 5 {
            boundary.insert(pp.key.clone());
        }
    }
    let margin = |k: &Kind| -> Option<(i64, i64)> {
        match k {
            Kind::Roa => Some((cfg.roa_reissue_weeks as i64 * WEEK, cfg.roa_valid_weeks as i64 * WEEK)),
            Kind::Aspa => Some((cfg.aspa_reissue_weeks as i64 * WEEK, cfg.aspa_valid_weeks as i64 * WEEK)),
            Kind::RouterCert => Some((cfg.bgpsec_reissue_weeks as i64 * WEEK, cfg.bgpsec_valid_weeks as i64 * WEEK)),
            _ => None,
        }
    };
    let mut due_objects = 0;
    for o in &before.snap.rp.objects {
        if let Some((m, valid)) = margin(&o.kind) {
            if o.not_after < t + m {
                due_objects += 1;
                if m < valid {
                    // an object that the clock carried into its re-issue margin
                    *stats.due_by_kind.entry(format!("{:?}", o.kind)).or_insert(0) += 1;
                }
            }
        }
    }
    let any_due = due_keys.values().any(|d| *d) || due_objects > 0;
    // krill re-issues per resource class: if one key set of a class (current,
    // staging or old) is due, all sets of that class are re-issued
    let mut due_classes: std::collections::BTreeSet<(String, String)> = Default::default();
    for pp in &before.snap.rp.pps {
        if due_keys.get(&pp.key).copied().unwrap_or(false) {
            if let Some(c) = oracle::pp_of(&pp.mft_uri) {
                due_classes.insert(c);
            }
        }
    }

    // the maintenance run
    sim.w().republish(false).map_err(|e| bad("republish", "error", e))?;
    sim.w().renew().map_err(|e| bad("renew", "error", e))?;
    sim.quiesce().map_err(fail_to_bad)?;
    let t1 = clock::now_s();

    let after = oracle::snapshot(sim)?;
    let v1 = versions(sim);
    let changed: Vec<&String> = v1.iter().filter(|(k, v)| before.versions.get(*k) != Some(v)).map(|(k, _)| k).collect();

    // (4) validity windows contain the present
    oracle::check_rp_valid(sim, &after)?;

    // (3) numbers
    for pp in &after.rp.pps {
        if num(&pp.mft_number) != num(&pp.crl_number) {
            return Err(bad("c14-numbers-disagree", "mft-vs-crl", format!("key {} ({}): manifest number {} but CRL number {}", pp.key, pp.mft_uri, pp.mft_number, pp.crl_number)));
        }
        let n1 = num(&pp.mft_number);
        if let Some(prev) = numbers.get(&pp.key) {
            if n1 < *prev {
                return Err(bad("c14-number-decreased", "mft", format!("key {} ({}): manifest number went from {prev} to {n1}", pp.key, pp.mft_uri)));
            }
        }
        numbers.insert(pp.key.clone(), n1);
        if pp.ca_uri == "ta.cer" {
            continue;
        }
        let Some(b) = before.snap.rp.pps.iter().find(|b| b.key == pp.key) else { continue };
        let n0 = num(&b.mft_number);
        let ca = oracle::pp_of(&pp.mft_uri).map(|x| x.0).unwrap_or_default();
        let due = due_keys.get(&pp.key).copied().unwrap_or(false);
        let pure = !changed.iter().any(|c| **c == ca);
        let class_boundary = before
            .snap
            .rp
            .pps
            .iter()
            .any(|o| boundary.contains(&o.key) && oracle::pp_of(&o.mft_uri) == oracle::pp_of(&pp.mft_uri));
        if class_boundary {
            // no strict verdict at the boundary
        } else if pure {
            stats.pure_keys += 1;
            let delta = n1 - n0;
            if due && delta != 1 {
                return Err(bad(
                    "c14-not-reissued-once",
                    if delta == 0 { "due-but-not-reissued" } else { "reissued-more-than-once" },
                    format!(
                        "key {} ({}) was due at T (next update {} - {}h margin < {}), maintenance changed the manifest number by {delta} (from {n0} to {n1})",
                        pp.key, pp.mft_uri, b.mft_next, cfg.publish_before_hours, t
                    ),
                ));
            }
            let sibling_due = oracle::pp_of(&pp.mft_uri).map(|c| due_classes.contains(&c)).unwrap_or(false);
            if !due && sibling_due && delta <= 1 {
                // re-issued together with the due set of the same class: allowed
            } else if !due && delta != 0 {
                return Err(bad(
                    "c14-reissued-without-need",
                    "not-due",
                    format!("key {} ({}) was not due (next update {}, margin {}h, T {}) but its manifest number changed from {n0} to {n1}", pp.key, pp.mft_uri, b.mft_next, cfg.publish_before_hours, t),
                ));
            }
            if due {
                stats.due_reissued += 1;
            } else {
                stats.not_due_untouched += 1;
            }
        } else {
            let vd = v1.get(&ca).copied().unwrap_or(0).saturating_sub(before.versions.get(&ca).copied().unwrap_or(0)) as u128;
            if n1 - n0 > vd + 1 {
                return Err(bad("c14-number-jump", "mft", format!("key {}: manifest number rose by {} during a step with {vd} commands", pp.key, n1 - n0)));
            }
            if due && n1 == n0 {
                return Err(bad("c14-not-reissued-once", "due-but-not-reissued", format!("key {} ({}) was due but was not re-issued", pp.key, pp.mft_uri)));
            }
        }
        // (1) no longer due
        if t1 > pp.mft_next - before_secs {
            return Err(bad("c14-still-due", "mft", format!("key {} ({}): after maintenance at {t1} the manifest (next update {}) is still within the {}h margin", pp.key, pp.mft_uri, pp.mft_next, cfg.publish_before_hours)));
        }
    }
    // (1) objects outside their re-issue margin after the run
    for o in &after.rp.objects {
        if let Some((m, valid)) = margin(&o.kind) {
            if m >= valid {
                stats.margin_ge_validity += 1;
                continue; // always due by configuration; only validity is required
            }
            if o.not_after < t1 + m - 120 {
                return Err(bad(
                    "c14-object-not-renewed",
                    &format!("{:?}", o.kind),
                    format!("{:?} {} expires at {} which is within the re-issue margin ({}s) after the maintenance run at {t1}", o.kind, o.uri, o.not_after, m),
                ));
            }
        }
    }
    // (5) payloads unchanged by re-issuing
    if before.snap.rp.vrps != after.rp.vrps || before.snap.rp.aspas != after.rp.aspas || before.snap.rp.router_keys != after.rp.router_keys {
        return Err(bad(
            "c14-payloads-changed",
            "reissue",
            format!(
                "a maintenance run changed the validated payloads: VRPs {} -> {}, ASPAs {} -> {}, router keys {} -> {}",
                before.snap.rp.vrps.len(), after.rp.vrps.len(), before.snap.rp.aspas.len(), after.rp.aspas.len(), before.snap.rp.router_keys.len(), after.rp.router_keys.len()
            ),
        ));
    }
    // (2) nothing due => nothing changes
    if !any_due && changed.is_empty() && boundary.is_empty() {
        stats.nothing_due += 1;
        // "nothing due" was decided from the sets a relying party reaches;
        // the comparison is over the same part of the repository (a CA whose
        // certificate was suspended by its parent keeps re-issuing its own)
        let dirs: std::collections::BTreeSet<String> = before
            .snap
            .rp
            .pps
            .iter()
            .chain(after.rp.pps.iter())
            .filter_map(|pp| pp.mft_uri.rfind('/').map(|i| pp.mft_uri[..=i].to_string()))
            .collect();
        let reach = |m: &crate::rp::Served| -> crate::rp::Served {
            m.iter().filter(|(u, _)| u.rfind('/').map(|i| dirs.contains(&u[..=i])).unwrap_or(false)).map(|(k, v)| (k.clone(), v.clone())).collect()
        };
        if let Some(d) = crate::rrdpc::diff_maps("before", &reach(&before.snap.served), "after", &reach(&after.served)) {
            return Err(bad("c14-changed-without-need", "repository", format!("a maintenance run that found nothing due changed the repository: {d}")));
        }
    }
    if any_due {
        stats.runs_with_due += 1;
        if due_keys.values().any(|d| !*d) {
            stats.mixed += 1;
        }
    }
    let _ = before.t0;
    Ok(())
}

#[derive(Default)]
struct Stats {
    runs: usize,
    runs_with_due: usize,
    mixed: usize,
    nothing_due: usize,
    pure_keys: usize,
    due_reissued: usize,
    not_due_untouched: usize,
    margin_ge_validity: usize,
    during_roll: usize,
    due_by_kind: BTreeMap<String, usize>,
}

impl Prop for C14 {
    type Case = WCase;
    const ID: &'static str = "C14";

    fn strategy(tier: Tier) -> BoxedStrategy<WCase> {
        let ops = match tier {
            Tier::Quick => 8..32,
            Tier::Thorough => 10..60,
        };
        let w = Weights {
            roa: 10,
            aspa: 5,
            bgpsec: 5,
            keyroll: 12,
            hold_signer: 2,
            hold_parent_syncs: 5,
            child_res: 3,
            suspend: 1,
            attach: 1,
            mapping: 0,
            child_remove: 0,
            parent_remove: 0,
            ca_delete: 0,
            ca_add: 0,
            advance: 22,
            republish: 2,
            renew: 2,
            pump: 5,
            quiesce: 3,
            publisher: 0,
            restart: 0,
            session_reset: 0,
            max_advance: 21 * 86400,
            ..Weights::default()
        };
        wcase_strategy(cfg_strategy(Just(false).boxed(), true), w, 4, ops)
    }

    fn run(case: &WCase, _ctx: &Ctx) -> Outcome {
        let before: std::cell::RefCell<Option<Before>> = std::cell::RefCell::new(None);
        let mut numbers: BTreeMap<String, u128> = BTreeMap::new();
        let mut stats = Stats::default();
        let res = super::run_wcase2(
            case,
            |sim, op| {
                *before.borrow_mut() = None;
                if let Op::Advance { secs } = op {
                    if sim.advance_budget < 86400 {
                        return Ok(());
                    }
                    sim.release_parent_syncs_before_advance(*secs as i64).map_err(fail_to_bad)?;
                    // settle at T0
                    sim.converge().map_err(fail_to_bad)?;
                    let snap = oracle::snapshot(sim)?;
                    if oracle::check_rp_valid(sim, &snap).is_err() {
                        // an invalid tree at T0 is C01's business (known findings); no experiment
                        return Ok(());
                    }
                    *before.borrow_mut() = Some(Before { snap, versions: versions(sim), t0: clock::now_s() });
                }
                Ok(())
            },
            |sim, op, setup| {
                if setup {
                    return Ok(());
                }
                let guard = before.borrow();
                if let (Op::Advance { .. }, Some(b)) = (op, guard.as_ref()) {
                    stats.runs += 1;
                    let cas: Vec<String> = sim.model.cas.keys().cloned().collect();
                    if cas.iter().any(|ca| sim.roll_state(ca).iter().any(|s| s.starts_with("roll"))) {
                        stats.during_roll += 1;
                    }
                    after_advance(sim, b, &mut numbers, &mut stats)?;
                }
                Ok(())
            },
        );
        match res {
            Err(o) => o,
            Ok(_sim) => {
                let mut classes = Vec::new();
                if stats.runs > 0 {
                    classes.push("maintenance_run".to_string());
                }
                if stats.runs_with_due > 0 {
                    classes.push("run_with_due_set".into());
                }
                if stats.mixed > 0 {
                    classes.push("run_with_due_and_not_due_sets".into());
                }
                if stats.nothing_due > 0 {
                    classes.push("run_with_nothing_due".into());
                }
                if stats.during_roll > 0 {
                    classes.push("run_during_roll".into());
                }
                if stats.margin_ge_validity > 0 {
                    classes.push("margin_ge_validity".into());
                }
                for k in stats.due_by_kind.keys() {
                    classes.push(format!("object_entered_margin:{k}"));
                }
                if stats.due_reissued > 0 {
                    classes.push("due_key_reissued_exactly_once".into());
                }
                let nontrivial = stats.mixed > 0 || stats.during_roll > 0;
                Outcome::Pass { nontrivial, classes, size: stats.runs }
            }
        }
    }

    fn sample(case: &WCase) -> serde_json::Value {
        serde_json::json!({
            "cfg": {"publish_next_hours": case.cfg.publish_next_hours, "publish_jitter_hours": case.cfg.publish_jitter_hours, "publish_before_hours": case.cfg.publish_before_hours,
                    "roa": [case.cfg.roa_valid_weeks, case.cfg.roa_reissue_weeks], "aspa": [case.cfg.aspa_valid_weeks, case.cfg.aspa_reissue_weeks], "bgpsec": [case.cfg.bgpsec_valid_weeks, case.cfg.bgpsec_reissue_weeks]},
            "ops": case.ops.iter().map(|o| o.short()).collect::<Vec<_>>(),
        })
    }
}
