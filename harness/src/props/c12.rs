//! C12 — Up-down and publication requests act only for the registered
//! identity key.
use std::str::FromStr;
use std::collections::{BTreeMap, BTreeSet};

use bytes::Bytes;
use proptest::collection::vec;
use proptest::prelude::*;
use proptest::strategy::BoxedStrategy;
use rpki::ca::provisioning::{self, Payload, ProvisioningCms};
use rpki::ca::publication::{self, PublicationCms};
use rpki::repository::resources::ResourceSet;
use serde::{Deserialize, Serialize};

use crate::fw::{Ctx, Outcome, Prop, Tier};
use crate::ops::Fail;
use crate::oracle::{bad, Bad};
use crate::sigw::{self, Pay6492, Pay8181, PubEl, SigWorld, CHILDREN, PARENT, PUBLISHERS};
use crate::world::WorldCfg;

pub struct C12;

#[derive(Clone, Debug, Serialize, Deserialize)]
pub enum SOp {
    Req6492 { signer: u8, sender: u8, recipient: u8, pay: Pay6492, flip: Option<u32> },
    Req8181 { signer: u8, to: u8, pay: Pay8181, flip: Option<u32> },
    ChildId { child: u8, id: u8 },
    ParentId,
    /// the administrator suspends a child (its next authentic request wakes it up again)
    Suspend { child: u8 },
}

#[derive(Clone, Debug, Serialize, Deserialize)]
pub struct Case {
    pub disk: bool,
    pub key_start: u16,
    pub ops: Vec<SOp>,
}

fn pay6492() -> impl Strategy<Value = Pay6492> {
    prop_oneof![
        2 => Just(Pay6492::List),
        5 => (0u8..4, prop_oneof![6 => Just(0u8), 1 => 1u8..3], 0u8..4).prop_map(|(key, class, limit)| Pay6492::Issue { key, class, limit }),
        3 => (0u8..4, prop_oneof![6 => Just(0u8), 1 => 1u8..3]).prop_map(|(key, class)| Pay6492::Revoke { key, class }),
    ]
}

fn pubel() -> impl Strategy<Value = PubEl> {
    let owner = prop_oneof![6 => 0u8..2, 1 => 2u8..4];
    prop_oneof![
        4 => (owner.clone(), 0u8..4, 0u8..6).prop_map(|(owner, name, content)| PubEl::Publish { owner, name, content }),
        2 => (owner.clone(), 0u8..4, 0u8..6, prop_oneof![5 => Just(true), 1 => Just(false)]).prop_map(|(owner, name, content, right_hash)| PubEl::Update { owner, name, content, right_hash }),
        2 => (owner, 0u8..4, prop_oneof![5 => Just(true), 1 => Just(false)]).prop_map(|(owner, name, right_hash)| PubEl::Withdraw { owner, name, right_hash }),
    ]
}

fn sop() -> impl Strategy<Value = SOp> {
    // signer: 0,1 child identities, 2,3 publisher identities, 4 unregistered, 5,6 the identities of the same-named children of the other CA
    let flip = prop_oneof![3 => Just(None), 1 => any::<u32>().prop_map(Some)];
    prop_oneof![
        10 => (0u8..7, prop_oneof![8 => 0u8..2, 1 => Just(2u8)], prop_oneof![8 => Just(0u8), 2 => Just(1u8), 1 => Just(2u8)], pay6492(), flip.clone())
            .prop_map(|(signer, sender, recipient, pay, flip)| SOp::Req6492 { signer, sender, recipient, pay, flip }),
        // the right signer for the sender, so that accepted requests are frequent
        8 => (0u8..2, pay6492(), flip.clone(), prop_oneof![6 => Just(0u8), 1 => Just(1u8)]).prop_map(|(s, pay, flip, recipient)| SOp::Req6492 { signer: 100 + s, sender: s, recipient, pay, flip }),
        8 => (0u8..5, prop_oneof![8 => 0u8..2, 1 => Just(2u8)], prop_oneof![1 => Just(Pay8181::List), 4 => vec(pubel(), 1..4).prop_map(Pay8181::Delta)], flip.clone())
            .prop_map(|(signer, to, pay, flip)| SOp::Req8181 { signer, to, pay, flip }),
        8 => (0u8..2, prop_oneof![1 => Just(Pay8181::List), 4 => vec(pubel(), 1..4).prop_map(Pay8181::Delta)], flip).prop_map(|(p, pay, flip)| {
            // mostly the publisher's own files
            let pay = match pay {
                Pay8181::Delta(els) => Pay8181::Delta(
                    els.into_iter()
                        .map(|el| match el {
                            PubEl::Publish { owner, name, content } => PubEl::Publish { owner: if owner < 2 { p } else { owner }, name, content },
                            PubEl::Update { owner, name, content, right_hash } => PubEl::Update { owner: if owner < 2 { p } else { owner }, name, content, right_hash },
                            PubEl::Withdraw { owner, name, right_hash } => PubEl::Withdraw { owner: if owner < 2 { p } else { owner }, name, right_hash },
                        })
                        .collect(),
                ),
                x => x,
            };
            SOp::Req8181 { signer: 100 + p, to: p, pay, flip }
        }),
        2 => (0u8..2, 0u8..5).prop_map(|(child, id)| SOp::ChildId { child, id }),
        1 => Just(SOp::ParentId),
        2 => (0u8..2).prop_map(|child| SOp::Suspend { child }),
    ]
}

fn fail_outcome(f: Fail, what: &str) -> Outcome {
    match f {
        Fail::Crash(e) => Outcome::Violation { clause: "crash".into(), key: super::crash_key(&e), msg: format!("{what}: {e}") },
        Fail::Violation(e) => Outcome::Violation { clause: "c12".into(), key: "op".into(), msg: format!("{what}: {e}") },
        Fail::Harness(e) => Outcome::Harness(format!("{what}: {e}")),
    }
}

fn flip_bit(b: &Bytes, sel: u32) -> Bytes {
    let mut v = b.to_vec();
    let nbits = v.len() * 8;
    let i = ((sel as u64 * nbits as u64) >> 32) as usize;
    v[i / 8] ^= 1 << (i % 8);
    Bytes::from(v)
}

fn is_err6492(m: &provisioning::Message) -> bool {
    matches!(m.payload(), Payload::ErrorResponse(_))
}

struct Run {
    sw: SigWorld,
    /// keys certified per child according to accepted requests
    issued: BTreeMap<String, BTreeSet<String>>,
    /// children the administrator suspended and that have not sent an authentic request since
    suspended: BTreeSet<String>,
}

impl Run {
    fn is_suspended(&self, child: &str) -> bool {
        let ch = rpki::ca::idexchange::ChildHandle::from_str(child).unwrap();
        self.sw.w.cam().ca_show_child(&rpki::ca::idexchange::CaHandle::from_str(PARENT).unwrap(), &ch).ok().and_then(|d| serde_json::to_value(&d).ok()).and_then(|v| v.get("state").and_then(|s| s.as_str()).map(|s| s == "suspended")).unwrap_or(false)
    }

    fn step(&mut self, op: &SOp) -> Result<Result<(), Bad>, Fail> {
        match op {
            SOp::ChildId { child, id } => {
                let c = CHILDREN[*child as usize % 2];
                let id = *id as usize % sigw::N_IDS;
                self.sw.update_child_id(c, id)?;
                Ok(Ok(()))
            }
            SOp::ParentId => {
                self.sw.update_parent_id()?;
                Ok(Ok(()))
            }
            SOp::Suspend { child } => {
                let c = CHILDREN[*child as usize % 2];
                if self.sw.w.child_update(PARENT, c, krill::api::admin::UpdateChildRequest::suspend()).is_ok() {
                    self.suspended.insert(c.to_string());
                    self.sw.hit("child_suspended");
                }
                Ok(Ok(()))
            }
            SOp::Req6492 { signer, sender, recipient, pay, flip } => self.req6492(*signer, *sender, *recipient, pay, *flip),
            SOp::Req8181 { signer, to, pay, flip } => self.req8181(*signer, *to, pay, *flip),
        }
    }

    fn req6492(&mut self, signer: u8, sender: u8, recipient: u8, pay: &Pay6492, flip: Option<u32>) -> Result<Result<(), Bad>, Fail> {
        let sender_name = match sender {
            0 | 1 => CHILDREN[sender as usize],
            _ => "stranger",
        };
        let registered = self.sw.child_id.get(sender_name).copied();
        let signer_id = if signer >= 100 { registered.unwrap_or(4) } else { signer as usize % sigw::N_IDS };
        // 1: another CA of this instance that has a child of the same name (with another identity key)
        let recipient_name = match recipient {
            0 => PARENT,
            1 => sigw::OTHER_PARENT,
            _ => "someone-else",
        };
        if recipient == 1 {
            self.sw.hit("addressed_to_another_ca_with_a_child_of_that_name");
        }
        let msg = self.sw.msg6492(sender_name, recipient_name, pay)?;
        let valid = self.sw.sign6492(msg.clone(), signer_id)?;
        let authorised = registered == Some(signer_id);
        let (bytes, flipped) = match flip {
            Some(sel) => (flip_bit(&valid, sel), true),
            None => (valid.clone(), false),
        };
        let before = self.sw.observe()?;
        let res = self.sw.send6492(PARENT, bytes.clone())?;
        let after = self.sw.observe()?;
        let parent_key = self.sw.parent_id_key()?;

        // what the (possibly damaged) bytes say
        let same_content = match ProvisioningCms::decode(bytes.as_ref()) {
            Ok(cms) => cms.message() == &msg,
            Err(_) => false,
        };
        let reply = match &res {
            Ok(b) => match sigw::reply6492(b, &parent_key) {
                Ok(m) => Some(m),
                Err(b) => return Ok(Err(b)),
            },
            Err(_) => None,
        };
        let acted = reply.as_ref().map(|m| !is_err6492(m)).unwrap_or(false);

        if !authorised || (flipped && !same_content) {
            if acted {
                let why = if !authorised {
                    if registered.is_none() {
                        "unknown-sender"
                    } else if self.sw.child_id.values().any(|v| *v == signer_id) || self.sw.pub_id.values().any(|v| *v == signer_id) {
                        "key-of-another-party"
                    } else {
                        "unregistered-or-replaced-key"
                    }
                } else {
                    "content-differs-from-signed"
                };
                return Ok(Err(bad("c12-acted-on-unauthorised-request", why, format!("request {pay:?} from '{sender_name}' signed with identity #{signer_id} (registered: {registered:?}, flipped: {flipped}) was answered with {:?}", reply.as_ref().map(|m| m.payload().payload_type().to_string())))));
            }
            if before != after {
                return Ok(Err(bad("c12-refused-request-changed-state", "rfc6492", format!("refused request {pay:?} from '{sender_name}' (signer #{signer_id}, flipped {flipped}) changed state: {before:?} -> {after:?}"))));
            }
            self.sw.hit(if flipped { "flip_refused" } else if registered.is_some() { "wrong_key_refused" } else { "unknown_sender_refused" });
            if self.suspended.contains(sender_name) {
                self.sw.hit("refused_request_in_the_name_of_a_suspended_child");
            }
            return Ok(Ok(()));
        }
        if flipped {
            // accepted or not, the damaged bytes still carry the identical message
            self.sw.hit("flip_with_identical_content");
        }
        // authorised request with intact content: a suspended child that calls in is woken
        // up (one more command of the parent, its certificates come back)
        let woke_up = self.suspended.contains(sender_name) && !self.is_suspended(sender_name);
        if woke_up {
            self.suspended.remove(sender_name);
            self.sw.hit("suspended_child_woken_by_authentic_request");
        }
        let mut before = before;
        if woke_up {
            before.parent_version = after.parent_version;
            if let Some(a) = after.children.get(sender_name) {
                before.children.insert(sender_name.to_string(), a.clone());
            }
        }
        let Some(reply) = reply else {
            // refused: nothing may have changed
            // refused for a reason of its own (unknown class, limit beyond the
            // entitlement, unknown key, ...): nothing may have changed
            // (a command of an authenticated child that fails is audited: the version may rise)
            let mut b2 = before.clone();
            b2.parent_version = after.parent_version;
            if b2 != after {
                return Ok(Err(bad("c12-refused-request-changed-state", "rfc6492", format!("request {pay:?} from '{sender_name}' was refused ({}) but changed state", res.err().unwrap_or_default()))));
            }
            self.sw.hit("authorised_error_reply");
            return Ok(Ok(()));
        };
        if reply.sender().as_str() != PARENT || reply.recipient().as_str() != sender_name {
            return Ok(Err(bad("c12-reply", "addressing", format!("reply is from {} to {}", reply.sender(), reply.recipient()))));
        }
        let ent = self.sw.child_res.get(sender_name).cloned().unwrap_or_default();
        let other = CHILDREN.iter().find(|c| **c != sender_name).unwrap().to_string();
        if before.children.get(&other) != after.children.get(&other) {
            return Ok(Err(bad("c12-other-child-affected", "rfc6492", format!("request {pay:?} by {sender_name} changed child {other}: {:?} -> {:?}", before.children.get(&other), after.children.get(&other)))));
        }
        if before.publishers != after.publishers {
            return Ok(Err(bad("c12-other-party-affected", "rfc6492", "a provisioning request changed publisher state".into())));
        }
        // the request was delivered to `p` and authenticated with the key `p` has on record for the sender:
        // whatever the message names as recipient, no other CA acts on it
        if before.other_ca != after.other_ca {
            return Ok(Err(bad("c12-other-ca-affected", "rfc6492", format!("request {pay:?} by {sender_name} of {PARENT} (recipient in the message: {recipient_name}) changed CA {}: {:?} -> {:?}", sigw::OTHER_PARENT, before.other_ca, after.other_ca))));
        }
        match (pay, reply.payload()) {
            (_, Payload::ErrorResponse(_)) => {
                if before.children != after.children {
                    return Ok(Err(bad("c12-error-reply-changed-state", "rfc6492", format!("request {pay:?} answered with an error changed the children"))));
                }
                self.sw.hit("authorised_error_reply");
            }
            (Pay6492::List, Payload::ListResponse(list)) => {
                for class in list.classes() {
                    if !ent.contains(class.resource_set()) {
                        return Ok(Err(bad("c12-beyond-entitlement", "list", format!("list reply for {sender_name} offers {} beyond {}", class.resource_set(), ent))));
                    }
                    for c in class.issued_certs() {
                        let k = c.cert().subject_key_identifier().to_string();
                        if !self.issued.get(sender_name).map(|s| s.contains(&k)).unwrap_or(false) {
                            return Ok(Err(bad("c12-foreign-certificate-listed", "list", format!("list reply for {sender_name} contains a certificate for key {k} that it never obtained"))));
                        }
                    }
                }
                // and everything the child obtained and did not give back is still there
                let listed: BTreeSet<String> = list.classes().iter().flat_map(|c| c.issued_certs().iter().map(|c| c.cert().subject_key_identifier().to_string())).collect();
                for k in self.issued.get(sender_name).cloned().unwrap_or_default() {
                    if !listed.contains(&k) {
                        return Ok(Err(bad("c12-certificate-lost", "list", format!("the certificate {sender_name} obtained for key {k} is no longer listed although {sender_name} never asked to revoke it"))));
                    }
                }
                if before != after {
                    return Ok(Err(bad("c12-list-changed-state", "rfc6492", "a list request changed state".into())));
                }
                self.sw.hit("accepted_list");
            }
            (Pay6492::Issue { key, limit, .. }, Payload::IssueResponse(resp)) => {
                let cert = resp.clone().into_issued();
                let cert = cert.cert();
                let want = self.sw.ca_keys[sigw::own_key(sender_name, *key)];
                if cert.subject_key_identifier() != want {
                    return Ok(Err(bad("c12-issued-for-other-key", "issue", format!("certificate issued for {} but the request asked for {want}", cert.subject_key_identifier()))));
                }
                let res = match ResourceSet::try_from(cert) {
                    Ok(r) => r,
                    Err(_) => return Ok(Err(bad("c12-beyond-entitlement", "inherit", "issued certificate uses inherited resources".into()))),
                };
                if !ent.contains(&res) {
                    return Ok(Err(bad("c12-beyond-entitlement", "issue", format!("certificate issued to {sender_name} has {res}, entitlement is {ent}"))));
                }
                if *limit % 4 == 1 || *limit % 4 == 2 {
                    let lim = ResourceSet::from_strs("AS0-AS4294967295", if *limit % 4 == 1 { "10.0.0.0/16" } else { "10.64.0.0/16, 10.200.0.0/16" }, "::/0").unwrap();
                    if !lim.contains(&res) {
                        return Ok(Err(bad("c12-beyond-limit", "issue", format!("certificate issued to {sender_name} has {res}, beyond the requested limit"))));
                    }
                }
                self.issued.entry(sender_name.to_string()).or_default().insert(want.to_string());
                self.sw.hit("accepted_issue");
            }
            (Pay6492::Revoke { key, class }, Payload::RevokeResponse(_)) => {
                let k = self.sw.ca_keys[*key as usize % self.sw.ca_keys.len()].to_string();
                // (a request naming a class the parent does not have is confirmed without effect)
                if sigw::CLASSES[*class as usize % 3] == "0" {
                    self.issued.entry(sender_name.to_string()).or_default().remove(&k);
                }
                self.sw.hit("accepted_revoke");
            }
            (p, r) => {
                return Ok(Err(bad("c12-reply", "kind", format!("request {p:?} answered with {}", r.payload_type()))));
            }
        }
        Ok(Ok(()))
    }

    fn req8181(&mut self, signer: u8, to: u8, pay: &Pay8181, flip: Option<u32>) -> Result<Result<(), Bad>, Fail> {
        let to_name = match to {
            0 | 1 => PUBLISHERS[to as usize],
            _ => "stranger",
        };
        let registered = self.sw.pub_id.get(to_name).copied();
        let signer_id = if signer >= 100 { registered.unwrap_or(4) } else { signer as usize % sigw::N_IDS };
        let msg = self.sw.msg8181(pay)?;
        let valid = self.sw.sign8181(msg.clone(), signer_id)?;
        let authorised = registered == Some(signer_id);
        let (bytes, flipped) = match flip {
            Some(sel) => (flip_bit(&valid, sel), true),
            None => (valid.clone(), false),
        };
        let before = self.sw.observe()?;
        let res = self.sw.send8181(to_name, bytes.clone())?;
        let after = self.sw.observe()?;
        let repo_key = self.sw.repo_id_key()?;
        let same_content = match PublicationCms::decode(bytes.as_ref()) {
            Ok(cms) => cms.into_message().to_xml_bytes() == msg.to_xml_bytes(),
            Err(_) => false,
        };
        let reply = match &res {
            Ok(b) => match sigw::reply8181(b, &repo_key) {
                Ok(m) => Some(m),
                Err(b) => return Ok(Err(b)),
            },
            Err(_) => None,
        };
        let is_error = |m: &publication::Message| matches!(m, publication::Message::Reply(publication::Reply::ErrorReply(_)));
        let acted = reply.as_ref().map(|m| !is_error(m)).unwrap_or(false);
        if !authorised || (flipped && !same_content) {
            if acted {
                let why = if !authorised {
                    if registered.is_none() { "unknown-publisher" } else { "wrong-key" }
                } else {
                    "content-differs-from-signed"
                };
                return Ok(Err(bad("c12-acted-on-unauthorised-request", why, format!("publication request {pay:?} to '{to_name}' signed with identity #{signer_id} (registered: {registered:?}, flipped: {flipped}) was acted upon"))));
            }
            if before != after {
                return Ok(Err(bad("c12-refused-request-changed-state", "rfc8181", format!("refused publication request {pay:?} to '{to_name}' changed state"))));
            }
            self.sw.hit(if flipped { "flip_refused" } else if registered.is_some() { "wrong_key_refused" } else { "unknown_sender_refused" });
            return Ok(Ok(()));
        }
        if flipped {
            self.sw.hit("flip_with_identical_content");
        }
        let Some(reply) = reply else {
            if flipped {
                if before != after {
                    return Ok(Err(bad("c12-refused-request-changed-state", "rfc8181", "refused damaged request changed state".into())));
                }
                return Ok(Ok(()));
            }
            // krill answers refused deltas with an error (HTTP level); nothing may change
            if before != after {
                return Ok(Err(bad("c12-refused-request-changed-state", "rfc8181", format!("publication request {pay:?} failed ({}) but changed state", res.err().unwrap_or_default()))));
            }
            self.sw.hit("authorised_error_reply");
            return Ok(Ok(()));
        };
        // others untouched, always
        for (p, v) in &before.publishers {
            if p != to_name && after.publishers.get(p) != Some(v) {
                return Ok(Err(bad("c12-other-party-affected", "rfc8181", format!("request {pay:?} to {to_name} changed publisher {p}"))));
            }
        }
        if before.children != after.children || before.parent_version != after.parent_version {
            return Ok(Err(bad("c12-other-party-affected", "rfc8181", "a publication request changed the parent CA".into())));
        }
        let own_before = before.publishers.get(to_name).map(|x| x.1.clone()).unwrap_or_default();
        let own_after = after.publishers.get(to_name).map(|x| x.1.clone()).unwrap_or_default();
        let base = self.sw.base_of(to_name);
        match (pay, &reply) {
            (_, m) if is_error(m) => {
                if before != after {
                    return Ok(Err(bad("c12-error-reply-changed-state", "rfc8181", format!("request {pay:?} answered with an error changed state"))));
                }
                self.sw.hit("authorised_error_reply");
            }
            (Pay8181::List, publication::Message::Reply(publication::Reply::List(list))) => {
                let got: BTreeMap<String, String> = list.elements().iter().map(|e| (e.uri().to_string(), sigw::hex(e.hash().as_ref()))).collect();
                if got != own_before {
                    return Ok(Err(bad("c12-list", "differs", format!("list reply for {to_name}: {got:?}, its files: {own_before:?}"))));
                }
                if before != after {
                    return Ok(Err(bad("c12-list-changed-state", "rfc8181", "a list query changed state".into())));
                }
                self.sw.hit("accepted_list");
            }
            (Pay8181::Delta(els), publication::Message::Reply(publication::Reply::Success)) => {
                let mut outside = false;
                for el in els {
                    let (o, n) = match el {
                        PubEl::Publish { owner, name, .. } | PubEl::Update { owner, name, .. } | PubEl::Withdraw { owner, name, .. } => (*owner, *name),
                    };
                    if !sigw::el_uri(o, n).to_string().starts_with(&base) {
                        outside = true;
                    }
                }
                if outside {
                    return Ok(Err(bad("c12-outside-base-uri", "accepted", format!("delta {els:?} for {to_name} (base {base}) with an element outside its base was accepted"))));
                }
                if own_after.keys().any(|u| !u.starts_with(&base)) {
                    return Ok(Err(bad("c12-outside-base-uri", "stored", format!("{to_name} now has files outside {base}: {own_after:?}"))));
                }
                self.sw.hit("accepted_delta");
            }
            (p, r) => {
                return Ok(Err(bad("c12-reply", "kind", format!("request {p:?} answered with {r:?}"))));
            }
        }
        Ok(Ok(()))
    }
}

impl Prop for C12 {
    type Case = Case;
    const ID: &'static str = "C12";

    fn strategy(tier: Tier) -> BoxedStrategy<Case> {
        let n = match tier {
            Tier::Quick => 6..30,
            Tier::Thorough => 10..60,
        };
        (prop_oneof![5 => Just(false), 1 => Just(true)], any::<u16>(), vec(sop(), n)).prop_map(|(disk, key_start, ops)| Case { disk, key_start, ops }).boxed()
    }

    fn run(case: &Case, _ctx: &Ctx) -> Outcome {
        let cfg = WorldCfg { disk: case.disk, ..WorldCfg::default() };
        let sw = match SigWorld::new(cfg, case.key_start as usize) {
            Ok(w) => w,
            Err(f) => return fail_outcome(f, "setup"),
        };
        let mut run = Run { sw, issued: Default::default(), suspended: Default::default() };
        for (i, op) in case.ops.iter().enumerate() {
            match run.step(op) {
                Err(f) => return fail_outcome(f, &format!("op #{i} {op:?}")),
                Ok(Err((clause, key, msg))) => return Outcome::Violation { clause, key, msg: format!("op #{i} {op:?}: {msg}") },
                Ok(Ok(())) => {}
            }
        }
        let st = &run.sw.stats;
        let accepted = ["accepted_list", "accepted_issue", "accepted_revoke", "accepted_delta"].iter().any(|k| st.contains_key(*k));
        let refused = ["wrong_key_refused", "flip_refused", "unknown_sender_refused"].iter().any(|k| st.contains_key(*k));
        let classes: Vec<String> = st.keys().cloned().collect();
        Outcome::Pass { nontrivial: accepted && refused, classes, size: case.ops.len() }
    }
}
