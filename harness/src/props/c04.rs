//! C04 — Key rollover is safe in every interleaving and always completes.
use std::collections::{BTreeMap, BTreeSet};

use proptest::prelude::*;
use proptest::strategy::BoxedStrategy;

use crate::fw::{Ctx, Outcome, Prop, Tier};
use crate::gens::{cfg_strategy, wcase_strategy, WCase, Weights};
use crate::ops::{Op, Sim};
use crate::oracle::{self, bad, Bad};
use crate::rp::{self, Kind};

pub struct C04;

/// One key signs the products of a class: in every class directory all
/// product objects (everything but manifests and CRLs) carry the same
/// authority key identifier.
fn one_signing_key(sim: &Sim) -> Result<usize, Bad> {
    let served = sim.w().served().map_err(|e| bad("served", "error", e))?;
    let mut by_dir: BTreeMap<(String, String), BTreeSet<String>> = BTreeMap::new();
    let mut mft_keys: BTreeMap<(String, String), BTreeSet<String>> = BTreeMap::new();
    for o in rp::scan(&served) {
        let Some(pp) = oracle::pp_of(&o.uri) else { continue };
        match o.kind {
            Kind::Mft => {
                mft_keys.entry(pp).or_default().insert(o.issuer);
            }
            Kind::Crl => {}
            _ => {
                by_dir.entry(pp).or_default().insert(o.issuer);
            }
        }
    }
    for (pp, keys) in &by_dir {
        if keys.len() > 1 {
            return Err(bad(
                "c04-two-signing-keys",
                "products",
                format!("products of {}/{} are signed by {} different keys at the same time: {:?}", pp.0, pp.1, keys.len(), keys),
            ));
        }
        let k = keys.iter().next().unwrap();
        if !mft_keys.get(pp).map(|m| m.contains(k)).unwrap_or(false) {
            return Err(bad(
                "c04-products-without-manifest",
                "products",
                format!("products of {}/{} are signed by key {k} which publishes no manifest there", pp.0, pp.1),
            ));
        }
    }
    // at most two keys publish a manifest in a class directory (old/new + current)
    for (pp, keys) in &mft_keys {
        if keys.len() > 2 {
            return Err(bad("c04-too-many-keys", "manifests", format!("{}/{} has manifests of {} keys", pp.0, pp.1, keys.len())));
        }
    }
    Ok(by_dir.len())
}

fn task_hook(sim: &Sim, task: &str) -> Result<(), Bad> {
    if task.starts_with("sync_repo_") {
        one_signing_key(sim)?;
    }
    Ok(())
}

/// At quiescence the key that signs products is the CA's current key, the
/// payloads are exactly the configured ones and the tree is RP-valid.
fn check(sim: &Sim) -> Result<(), Bad> {
    one_signing_key(sim)?;
    let snap = oracle::snapshot(sim)?;
    oracle::check_rp_valid(sim, &snap)?;
    oracle::check_payloads(sim, &snap)?;
    // products are under the current key
    for o in rp::scan(&snap.served) {
        if matches!(o.kind, Kind::Mft | Kind::Crl) {
            continue;
        }
        let Some((ca, _rcn)) = oracle::pp_of(&o.uri) else { continue };
        if !sim.model.cas.contains_key(&ca) {
            continue;
        }
        let cur = sim.current_keys(&ca);
        if !cur.contains(&o.issuer) {
            return Err(bad(
                "c04-product-under-non-current-key",
                &format!("{:?}", o.kind),
                format!("{} is signed by key {} which is not a current key of {ca} ({cur:?})", o.uri, o.issuer),
            ));
        }
    }
    Ok(())
}

/// From any reached state the roll can be completed: activate where a new
/// key is staged, synchronise, and every class ends with a single active key.
fn complete_rolls(sim: &mut Sim) -> Result<usize, Bad> {
    let fail = |f: crate::ops::Fail| -> Bad {
        match f {
            crate::ops::Fail::Crash(e) => bad("crash", &super::crash_key(&e), e),
            crate::ops::Fail::Violation(e) => bad("no-quiescence", "completion", e),
            crate::ops::Fail::Harness(e) => bad("harness", "completion", e),
        }
    };
    sim.apply(&Op::HoldSigner { on: false }).map_err(fail)?;
    sim.apply(&Op::HoldParentSyncs { on: false }).map_err(fail)?;
    let mut rolling = 0;
    for round in 0..4 {
        sim.converge().map_err(fail)?;
        let cas: Vec<String> = sim.model.cas.keys().cloned().collect();
        let mut open = Vec::new();
        for ca in &cas {
            for st in sim.roll_state(ca) {
                if st.starts_with("roll") {
                    open.push((ca.clone(), st));
                }
            }
        }
        if open.is_empty() {
            return Ok(rolling);
        }
        if round == 0 {
            rolling = open.len();
        }
        for (ca, st) in &open {
            if *st == "rollnew" {
                let _ = sim.w().keyroll_activate(ca);
            }
        }
        if round == 3 {
            // a CA whose parent relation is broken on purpose cannot finish
            let stuck: Vec<_> = open
                .iter()
                .filter(|(ca, _)| {
                    let m = &sim.model.cas[ca];
                    !m.publisher_removed
                        && m.parents.iter().all(|p| {
                            sim.model.children_of(p).map(|c| c.get(ca).map(|cm| !cm.entitlement.is_empty()).unwrap_or(false)).unwrap_or(false)
                        })
                })
                .collect();
            if let Some((ca, st)) = stuck.first() {
                return Err(bad(
                    "c04-roll-does-not-finish",
                    st,
                    format!("key roll of {ca} is stuck in state {st} after activation and four rounds of synchronisation"),
                ));
            }
        }
    }
    Ok(rolling)
}

impl Prop for C04 {
    type Case = WCase;
    const ID: &'static str = "C04";

    fn strategy(tier: Tier) -> BoxedStrategy<WCase> {
        let ops = match tier {
            Tier::Quick => 8..40,
            Tier::Thorough => 10..80,
        };
        let w = Weights {
            roa: 10,
            aspa: 4,
            bgpsec: 4,
            keyroll: 24,
            child_res: 8,
            suspend: 3,
            attach: 3,
            mapping: 1,
            child_remove: 2,
            heal: 2,
            parent_remove: 0,
            ca_delete: 0,
            pump: 14,
            quiesce: 5,
            hold_signer: 3,
            publisher: 0,
            restart: 0,
            overlap: 5,
            max_advance: 2 * 86400,
            ..Weights::default()
        };
        crate::gens::with_roll_episodes(wcase_strategy(cfg_strategy(Just(false).boxed(), false), w, 5, ops))
    }

    fn run(case: &WCase, _ctx: &Ctx) -> Outcome {
        let mut installed = false;
        let mut foreign_during_roll = 0usize;
        let mut rollnew_seen = false;
        let mut rolled_under_ta = false;
        let mut two_classes_roll = false;
        let mut entitlement_during_roll = false;
        let n = case.ops.len();
        let mut idx = 0usize;
        let mut completed = 0usize;
        let res = super::run_wcase(case, |sim, op, setup| {
            if !installed {
                sim.task_hook = Some(task_hook);
                installed = true;
            }
            if setup {
                return Ok(());
            }
            idx += 1;
            // classification: what happens while a roll is in progress
            let cas: Vec<String> = sim.model.cas.keys().cloned().collect();
            let mut any_roll = false;
            for ca in &cas {
                let st = sim.roll_state(ca);
                let rolling = st.iter().filter(|s| s.starts_with("roll")).count();
                if rolling > 0 {
                    any_roll = true;
                    if st.iter().any(|s| *s == "rollnew") {
                        rollnew_seen = true;
                    }
                    if rolling > 1 {
                        two_classes_roll = true;
                    }
                    if sim.model.cas[ca].parents.contains("ta") {
                        rolled_under_ta = true;
                    }
                }
            }
            if any_roll && !matches!(op, Op::KeyrollInit { .. } | Op::KeyrollActivate { .. } | Op::Pump { .. } | Op::Quiesce | Op::Check) {
                foreign_during_roll += 1;
                if matches!(op, Op::ChildResources { .. }) {
                    entitlement_during_roll = true;
                }
            }
            one_signing_key(sim)?;
            if matches!(op, Op::Check) {
                check(sim)?;
            }
            if idx == n {
                completed = complete_rolls(sim)?;
                check(sim)?;
            }
            Ok(())
        });
        match res {
            Err(o) => o,
            Ok(sim) => {
                let f = &sim.flags;
                let mut classes = Vec::new();
                if rollnew_seen {
                    classes.push("reached_rollnew".to_string());
                }
                if foreign_during_roll > 0 {
                    classes.push("foreign_op_during_roll".into());
                }
                if rolled_under_ta {
                    classes.push("roll_under_ta".into());
                }
                if two_classes_roll {
                    classes.push("two_classes_rolling".into());
                }
                if entitlement_during_roll {
                    classes.push("entitlement_change_during_roll".into());
                }
                if completed > 0 {
                    classes.push("open_roll_completed_at_end".into());
                }
                if f.has("keyroll_activate") {
                    classes.push("activated".into());
                }
                let nontrivial = rollnew_seen && foreign_during_roll > 0;
                Outcome::Pass { nontrivial, classes, size: case.n_ops() }
            }
        }
    }

    fn sample(case: &WCase) -> serde_json::Value {
        serde_json::json!({
            "setup": case.setup.iter().map(|o| o.short()).collect::<Vec<_>>(),
            "ops": case.ops.iter().map(|o| o.short()).collect::<Vec<_>>(),
        })
    }
}
