pub mod c01;
pub mod c02;
pub mod c03;
pub mod c04;
pub mod c05;
pub mod c06;
pub mod c07;
pub mod c08;
pub mod c09;
pub mod c09d;
pub mod c10;
pub mod c11;
pub mod c12;
pub mod c13;
pub mod c14;
pub mod c15;
pub mod c16;
pub mod c16h;
pub mod c17;
pub mod c18;
pub mod c18d;
pub mod c19;
pub mod c20;

use crate::fw::Outcome;
use crate::gens::WCase;
use crate::ops::{Fail, Op, Sim};
use crate::oracle::Bad;

/// Runs a world case: set-up, then the history; `hook` is called after every
/// operation (with the op) and may report a violation.
pub fn run_wcase(
    case: &WCase,
    hook: impl FnMut(&mut Sim, &Op, bool) -> Result<(), Bad>,
) -> Result<Sim, Outcome> {
    run_wcase2(case, |_, _| Ok(()), hook)
}

/// Like `run_wcase` with an additional hook that runs before each operation
/// of the history (not of the set-up).
pub fn run_wcase2(
    case: &WCase,
    mut pre: impl FnMut(&mut Sim, &Op) -> Result<(), Bad>,
    mut hook: impl FnMut(&mut Sim, &Op, bool) -> Result<(), Bad>,
) -> Result<Sim, Outcome> {
    let mut sim = match Sim::new(case.cfg.clone(), case.key_start as usize) {
        Ok(s) => s,
        Err(Fail::Harness(e)) => {
            if e.starts_with("toml") || e.starts_with("process") {
                return Err(Outcome::Discard("config-rejected".into()));
            }
            return Err(Outcome::Harness(e));
        }
        Err(Fail::Crash(e)) => return Err(Outcome::Violation { clause: "crash".into(), key: "setup".into(), msg: e }),
        Err(Fail::Violation(e)) => return Err(Outcome::Violation { clause: "setup".into(), key: "setup".into(), msg: e }),
    };
    for (phase, ops) in [(true, &case.setup), (false, &case.ops)] {
        for (i, op) in ops.iter().enumerate() {
            if !phase {
                if let Err((clause, key, msg)) = pre(&mut sim, op) {
                    return Err(Outcome::Violation {
                        clause,
                        key,
                        msg: format!("before history op #{i} {}: {msg}\nlog tail: {:?}", op.short(), tail(&sim.log, 10)),
                    });
                }
            }
            match sim.apply(op) {
                Ok(()) => {}
                Err(Fail::Crash(e)) => {
                    return Err(Outcome::Violation {
                        clause: "crash".into(),
                        key: crash_key(&e),
                        msg: format!("{} op #{i} {}: {e}\nlog tail: {:?}", if phase { "setup" } else { "history" }, op.short(), tail(&sim.log, 8)),
                    })
                }
                Err(Fail::Violation(e)) => {
                    return Err(Outcome::Violation {
                        clause: "no-quiescence".into(),
                        key: op.kind().into(),
                        msg: format!("op #{i} {}: {e}", op.short()),
                    })
                }
                Err(Fail::Harness(e)) => return Err(Outcome::Harness(e)),
            }
            let hooked = match sim.task_bad.take() {
                Some(b) => Err(b),
                None => hook(&mut sim, op, phase),
            };
            if let Err((clause, key, msg)) = hooked {
                return Err(Outcome::Violation {
                    clause,
                    key,
                    msg: format!("after {} op #{i} {}: {msg}\nlog tail: {:?}", if phase { "setup" } else { "history" }, op.short(), tail(&sim.log, 10)),
                });
            }
        }
    }
    Ok(sim)
}

pub fn tail(log: &[String], n: usize) -> Vec<String> {
    log.iter().rev().take(n).rev().cloned().collect()
}

/// A stable key for a crash: the panic location / exit site without values.
pub fn crash_key(e: &str) -> String {
    let first = e.lines().next().unwrap_or("");
    let mut s: String = first.chars().filter(|c| !c.is_ascii_digit()).collect();
    s.truncate(80);
    s
}
