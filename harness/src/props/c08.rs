//! C08 — A crash or failed write at any instant is recoverable without loss
//! or divergence.
//!
//! A generated history brings a disk-backed world to some state. The data
//! directory is then copied: the copy is the fault-free twin, in which the
//! target operation (and optionally the background tasks it queues) simply
//! runs. In the original the same operation runs with the n-th storage or
//! file-system mutation failing once, or with every mutation from the n-th
//! on failing followed by a restart (a dead process writes nothing).
use std::collections::BTreeMap;
use std::path::Path;
use std::str::FromStr;

use proptest::prelude::*;
use proptest::strategy::BoxedStrategy;
use rpki::ca::idexchange::CaHandle;
use serde::{Deserialize, Serialize};
use serde_json::Value;

use crate::fw::{Ctx, Outcome, Prop, Tier};
use crate::gens::{cfg_strategy, wcase_strategy, WCase, Weights};
use crate::hooks::{self, FaultMode};
use crate::ops::{Fail, Op, Sim};
use crate::oracle::{self, bad, Bad};
use crate::world::World;

pub struct C08;

#[derive(Clone, Debug, Serialize, Deserialize)]
pub struct Case {
    pub base: WCase,
    /// fault the n-th mutation (1-based); scaled to the number the twin counted
    pub at: u16,
    pub crash: bool,
    /// the background tasks that the operation queues run under the fault too
    pub with_tasks: bool,
}

fn copy_dir(from: &Path, to: &Path) -> Result<(), String> {
    std::fs::create_dir_all(to).map_err(|e| e.to_string())?;
    for e in std::fs::read_dir(from).map_err(|e| e.to_string())? {
        let e = e.map_err(|e| e.to_string())?;
        let ft = e.file_type().map_err(|e| e.to_string())?;
        let dst = to.join(e.file_name());
        if ft.is_dir() {
            copy_dir(&e.path(), &dst)?;
        } else if ft.is_file() {
            std::fs::copy(e.path(), &dst).map_err(|e| e.to_string())?;
        }
    }
    Ok(())
}

fn rewrite_paths(dir: &Path, from: &str, to: &str) -> Result<(), String> {
    for e in std::fs::read_dir(dir).map_err(|e| e.to_string())? {
        let e = e.map_err(|e| e.to_string())?;
        let ft = e.file_type().map_err(|e| e.to_string())?;
        if ft.is_dir() {
            rewrite_paths(&e.path(), from, to)?;
        } else if ft.is_file() {
            let bytes = std::fs::read(e.path()).map_err(|e| e.to_string())?;
            if let Ok(text) = String::from_utf8(bytes) {
                // (a path followed by a separator or the closing quote, not a longer name)
                if text.contains(from) {
                    let out = text.replace(&format!("{from}/"), &format!("{to}/")).replace(&format!("{from}\""), &format!("{to}\""));
                    std::fs::write(e.path(), out).map_err(|e| e.to_string())?;
                }
            }
        }
    }
    Ok(())
}

fn canon_rs(v: &Value) -> String {
    // resource sets are only canonical after a round trip
    match serde_json::from_value::<rpki::repository::resources::ResourceSet>(v.clone()) {
        Ok(rs) => {
            let again = serde_json::to_value(&rs).ok().and_then(|v| serde_json::from_value::<rpki::repository::resources::ResourceSet>(v).ok()).unwrap_or(rs);
            again.to_string()
        }
        Err(_) => v.to_string(),
    }
}

/// The configuration as the API shows it: what a user entered, not the keys
/// and serial numbers that came out.
fn config_digest(w: &World) -> Result<BTreeMap<String, Value>, Bad> {
    let mut out = BTreeMap::new();
    for name in w.ca_handles() {
        if name == "ta" {
            continue;
        }
        let h = CaHandle::from_str(&name).unwrap();
        // (a directory without an initialisation command is not a CA: creating it failed)
        if !w.cam().has_ca(&h).unwrap_or(true) {
            continue;
        }
        let ca = w.cam().get_ca(&h).map_err(|e| bad("c08-entity-does-not-load", "ca", format!("{name}: {e}")))?;
        let mut roas: Vec<String> = ca.configured_roas().iter().map(|r| serde_json::to_value(&r.roa_configuration).map(|v| v.to_string()).unwrap_or_default()).collect();
        roas.sort();
        let mut aspas: Vec<String> = serde_json::to_value(ca.aspas_definitions_show()).ok().and_then(|v| v.as_array().map(|a| a.iter().map(|x| x.to_string()).collect())).unwrap_or_default();
        aspas.sort();
        let mut bgpsec: Vec<String> = serde_json::to_value(ca.bgpsec_definitions_show())
            .ok()
            .and_then(|v| v.get("definitions").cloned().or(Some(v)))
            .and_then(|v| v.as_array().map(|a| a.iter().map(|x| format!("{}-{}", x.get("asn").cloned().unwrap_or(Value::Null), x.get("key_identifier").cloned().unwrap_or(Value::Null))).collect()))
            .unwrap_or_default();
        bgpsec.sort();
        let info = serde_json::to_value(ca.as_ca_info()).unwrap_or(Value::Null);
        let mut parents: Vec<String> = info.get("parents").and_then(|p| p.as_array()).map(|a| a.iter().map(|x| x.get("handle").map(|h| h.to_string()).unwrap_or_default()).collect()).unwrap_or_default();
        parents.sort();
        let mut children: Vec<String> = Vec::new();
        if let Some(cs) = info.get("children").and_then(|c| c.as_array()) {
            for c in cs {
                let cn = c.as_str().unwrap_or_default().to_string();
                if let Ok(ch) = rpki::ca::idexchange::ChildHandle::from_str(&cn) {
                    if let Ok(d) = w.cam().ca_show_child(&h, &ch) {
                        let v = serde_json::to_value(&d).unwrap_or(Value::Null);
                        children.push(format!("{cn}:{}:{}", v.get("entitled_resources").map(canon_rs).unwrap_or_default(), v.get("state").cloned().unwrap_or(Value::Null)));
                    }
                }
            }
        }
        children.sort();
        out.insert(name, serde_json::json!({"roas": roas, "aspas": aspas, "bgpsec": bgpsec, "parents": parents, "children": children}));
    }
    // who may publish at the repository
    let mut pubs = w.publishers();
    pubs.sort();
    out.insert("(publishers)".into(), serde_json::json!(pubs));
    Ok(out)
}

fn fail_to_bad(f: Fail, what: &str) -> Bad {
    match f {
        Fail::Crash(e) => bad("crash", &super::crash_key(&e), format!("{what}: {e}")),
        Fail::Violation(e) => {
            // which task does not come to rest?
            let kind = if e.contains("\"sync_repo_") {
                "sync-repo-task"
            } else if e.contains("_with_parent_") {
                "sync-parent-task"
            } else if e.contains("never taken from the queue") {
                "task-never-taken"
            } else {
                "other-task"
            };
            bad("c08-background-does-not-settle", kind, format!("{what}: {e}"))
        }
        Fail::Harness(e) => bad("harness", what, e),
    }
}

/// Payloads a relying party derives, plus validity.
fn payloads(sim: &Sim) -> Result<(String, Vec<String>), Bad> {
    let snap = oracle::snapshot(sim)?;
    let p = format!("{:?}|{:?}|{:?}", snap.rp.vrps, snap.rp.aspas, snap.rp.router_keys);
    Ok((p, snap.rp.issues.clone()))
}

fn last_result_ok(sim: &Sim) -> bool {
    sim.log.last().map(|l| l.ends_with("-> ok")).unwrap_or(false)
}

/// Background work has caught up, including tasks that were rescheduled to
/// a later time after an error (the clock is moved to the next pending task
/// as long as that is due within two hours).
fn settle(sim: &mut Sim) -> Result<(), Fail> {
    for _ in 0..6 {
        sim.converge()?;
        let now_ms = (crate::clock::now_s() as u128) * 1000;
        let next = sim.w().pending_tasks().into_iter().map(|(ts, _)| ts).filter(|ts| *ts > now_ms).min();
        match next {
            Some(ts) if ts - now_ms <= 2 * 3600 * 1000 && sim.advance_budget > 3 * 3600 => {
                let secs = ((ts - now_ms) / 1000) as i64 + 1;
                sim.advance_budget -= secs;
                crate::clock::advance(secs);
            }
            _ => break,
        }
    }
    sim.converge()
}

/// Submits the steps of an operation that is several commands in a row;
/// steps that were done before the cut are refused as duplicates.
fn resubmit_composite(sim: &mut Sim, op: &Op) -> Result<(), Fail> {
    use crate::ops::{ca_name, parent_name, resources_of, MAX_CAS};
    let w = sim.w.as_ref().unwrap();
    match op {
        Op::Attach { ca, parent, res } => {
            let name = ca_name(*ca as usize % MAX_CAS);
            let parent = parent_name(*parent);
            let rs = resources_of(*res);
            let _ = crate::world::guarded(|| w.parent_add_child(&name, &parent, &rs))?;
            let _ = crate::world::guarded(|| w.child_add_parent(&name, &parent))?;
        }
        Op::CaAdd { ca } => {
            let name = ca_name(*ca as usize % MAX_CAS);
            let _ = crate::world::guarded(|| w.add_ca(&name))?;
            let _ = crate::world::guarded(|| w.connect_repo(&name))?;
        }
        Op::CaDelete { ca } => {
            let name = ca_name(*ca as usize % MAX_CAS);
            let _ = crate::world::guarded(|| w.ca_delete(&name))?;
        }
        Op::ParentRemove { ca, parent } => {
            let name = ca_name(*ca as usize % MAX_CAS);
            let _ = crate::world::guarded(|| w.parent_remove(&name, &parent_name(*parent)))?;
        }
        _ => {}
    }
    Ok(())
}

#[derive(Default)]
struct Stats {
    classes: Vec<String>,
    points: usize,
}

fn run_case(case: &Case, ctx: &Ctx) -> Result<Stats, Outcome> {
    let mut stats = Stats::default();
    let n = case.base.ops.len();
    if n == 0 {
        return Ok(stats);
    }
    let mut prefix = case.base.clone();
    // (generated histories end with a checkpoint)
    // ... and operations that do not write anything themselves, or are
    // best-effort by design (see below), stay in the history: the target is
    // the last operation before them
    let mut tail: Vec<Op> = Vec::new();
    while let Some(op) = prefix.ops.last() {
        if matches!(op, Op::Check | Op::Quiesce | Op::Pump { .. } | Op::Advance { .. } | Op::Snapshot | Op::HoldSigner { .. } | Op::HoldParentSyncs { .. } | Op::Restart | Op::CaDelete { .. } | Op::ParentRemove { .. }) && prefix.ops.len() > 1 {
            let op = prefix.ops.pop().unwrap();
            if !matches!(op, Op::Check) {
                tail.push(op);
            }
        } else {
            break;
        }
    }
    let _ = tail;
    let Some(target) = prefix.ops.pop() else { return Ok(stats) };
    // Deleting a CA and removing a parent are documented best-effort
    // operations: failures of the revocation request and of the clean-up are
    // logged and ignored. A fault inside them leaves what a failed
    // best-effort step leaves, by design. They are part of histories, not targets.
    if matches!(target, Op::CaDelete { .. } | Op::ParentRemove { .. }) {
        stats.classes.push("best_effort_operation_not_a_target".into());
        return Ok(stats);
    }
    // the history before the target, fault-free
    let mut a = super::run_wcase(&prefix, |_, _, _| Ok(()))?;
    let to_out = |b: Bad| Outcome::Violation { clause: b.0, key: b.1, msg: b.2 };
    a.converge().map_err(|f| to_out(fail_to_bad(f, "before the target")))?;
    // an invalid tree before the fault is not this property's business
    if let Ok(snap) = oracle::snapshot(&a) {
        if oracle::check_rp_valid(&a, &snap).is_err() {
            stats.classes.push("invalid_before_fault".into());
            return Ok(stats);
        }
    }
    let d0 = config_digest(a.w()).map_err(to_out)?;
    let (p0, _) = payloads(&a).map_err(to_out)?;

    // the twin
    let dir_a = a.w().dir.clone();
    let dir_b = dir_a.with_extension("twin");
    let _ = std::fs::remove_dir_all(&dir_b);
    copy_dir(&dir_a, &dir_b).map_err(Outcome::Harness)?;
    // the repository content remembers the absolute path of its output
    // directory: point the copy at its own
    rewrite_paths(&dir_b.join("data"), &dir_a.to_string_lossy(), &dir_b.to_string_lossy()).map_err(Outcome::Harness)?;
    let wb = World::open(a.w().cfg.clone(), dir_b.clone(), a.w().mem_seed).map_err(|e| Outcome::Harness(format!("twin: {e}")))?;
    wb.rt.tasks().reschedule_tasks_at_startup().map_err(|e| Outcome::Harness(format!("twin: {e}")))?;
    let mut b = Sim {
        w: Some(wb),
        model: a.model.clone(),
        flags: a.flags.clone(),
        log: Vec::new(),
        csrs: a.csrs.clone(),
        max_quiesce_steps: a.max_quiesce_steps,
        cas_ever: a.cas_ever.clone(),
        task_hook: None,
        task_bad: None,
        advance_budget: a.advance_budget,
        held_advance: a.held_advance,
        abort_check: None,
        foreign_publisher_base: None,
        prev_child_certs: Default::default(),
    };
    b.wm().hold_types = a.w().hold_types.clone();
    let mut target = target;
    let (rb_ok, count, twin_points) = {
        let mut tries = 0;
        loop {
            hooks::h().set_fault(FaultMode::Count, Some(dir_b.clone()));
            let rb = b.apply(&target);
            let rb_ok = last_result_ok(&b);
            let rq = if case.with_tasks { b.quiesce() } else { Ok(()) };
            let (count, twin_points, _) = hooks::h().fault_off();
            rb.map_err(|f| to_out(fail_to_bad(f, "twin: target operation")))?;
            rq.map_err(|f| to_out(fail_to_bad(f, "twin: tasks")))?;
            if count > 0 || tries > 0 {
                break (rb_ok, count, twin_points);
            }
            // The generated target was refused before it wrote anything (its
            // precondition does not hold in this state). It stays in the history;
            // a plain operation on an existing CA is the target instead.
            tries += 1;
            stats.classes.push("fallback_target".into());
            a.apply(&target).map_err(|f| to_out(fail_to_bad(f, "target without mutations")))?;
            let Some(ca) = a.model.cas.keys().next().cloned() else { break (rb_ok, count, twin_points) };
            let ca: u8 = ca.trim_start_matches("ca").parse().unwrap_or(0);
            let sel = case.at as usize;
            target = match sel % 6 {
                0 => Op::Roa { ca, add: vec![crate::ops::RoaSpec { asn_i: (sel >> 3) as u8 % 8, pfx_i: (sel >> 6) as u8 % 19, ml: (sel >> 11) as u8 % 5, comment: 0 }], remove: vec![] },
                1 => Op::Aspa { ca, customer: (sel >> 3) as u8 % 8, providers: vec![(sel >> 6) as u8 % 8] },
                2 => Op::Bgpsec { ca, asn: (sel >> 3) as u8 % 8, csr: (sel >> 6) as u8 % 8 },
                3 => Op::KeyrollInit { ca },
                4 => Op::Republish { force: true },
                _ => Op::Roa { ca, add: vec![crate::ops::RoaSpec { asn_i: 1, pfx_i: (sel >> 4) as u8 % 19, ml: 0, comment: 1 }], remove: vec![(sel >> 2) as u16] },
            };
        }
    };
    settle(&mut b).map_err(|f| to_out(fail_to_bad(f, "twin: converge")))?;
    let db = config_digest(b.w()).map_err(to_out)?;
    let (pb, issues_b) = payloads(&b).map_err(to_out)?;
    stats.points = count;
    let twin_clean = {
        let snap = oracle::snapshot(&b).map_err(to_out)?;
        oracle::check_rp_valid(&b, &snap).is_ok()
    };
    let _ = issues_b;
    if count == 0 {
        stats.classes.push("target_without_mutations".into());
        let mut wb = b.w.take().unwrap();
        wb.keep_dir();
        drop(wb);
        let _ = std::fs::remove_dir_all(&dir_b);
        return Ok(stats);
    }
    // the cut
    // Half of the cases cut uniformly over the mutations the twin counted. The other half first
    // picks one of the stores the operation touched (key-value name space or directory of the
    // repository) and then a mutation of that store, so that stores with few writes among many
    // (write-ahead log, status, task queue, signer keys) are cut as often as the busy ones.
    let k = if case.at & 2 == 0 {
        1 + (case.at as usize * count >> 16)
    } else {
        let mut groups: BTreeMap<String, Vec<usize>> = BTreeMap::new();
        for (i, p) in twin_points.iter().enumerate().take(count) {
            let rel = p.path.strip_prefix(&dir_b).unwrap_or(&p.path);
            let store: Vec<String> = rel.components().take(2).map(|c| c.as_os_str().to_string_lossy().to_string()).collect();
            groups.entry(format!("{}:{}", p.kind, store.join("/"))).or_default().push(i);
        }
        let groups: Vec<Vec<usize>> = groups.into_values().collect();
        if groups.is_empty() {
            1 + (case.at as usize * count >> 16)
        } else {
            stats.classes.push("cut_chosen_per_store".into());
            let g = &groups[(case.at as usize >> 2) % groups.len()];
            1 + g[((case.at as usize >> 4) * g.len()) >> 12]
        }
    };
    let mode = if case.crash { FaultMode::CrashAt(k) } else { FaultMode::FailAt(k) };
    hooks::h().set_fault(mode, Some(dir_a.clone()));
    let ra = a.apply(&target);
    let ra_ok = last_result_ok(&a);
    if case.crash {
        // a dead process runs nothing further
        a.abort_check = Some(|| hooks::h().fault_fired());
    }
    let rqa = if case.with_tasks && !(case.crash && hooks::h().fault_fired()) { a.quiesce() } else { Ok(()) };
    a.abort_check = None;
    let (_, points, fired) = hooks::h().fault_off();
    let site = points.get(k - 1).map(|p| format!("{}:{} {}", p.kind, p.op, p.path.strip_prefix(&dir_a).unwrap_or(&p.path).display())).unwrap_or_default();
    let what = format!("target {} with {} at mutation {k} of {count} ({site})", target.short(), if case.crash { "crash" } else { "failed write" });
    // where the cut fell, for the identity of a finding
    let site_class = {
        let s = site.split_whitespace().last().unwrap_or("");
        let c = if s.contains("ca_objects") {
            "published-object-set"
        } else if s.contains("data/tasks") {
            "task-queue"
        } else if s.contains("data/cas/") {
            "command-log"
        } else if s.contains("pubd_objects") {
            "repository-log"
        } else if s.contains("data/pubd/") {
            "publisher-log"
        } else if s.contains("data/status") {
            "status"
        } else if s.contains("repo/rrdp") {
            "rrdp-files"
        } else if s.contains("repo/rsync") {
            "rsync-files"
        } else if s.contains("data/ta_") || s.contains("data/signer") || s.contains("data/keys") {
            "ta-or-keys"
        } else {
            "other"
        };
        format!("{}@{c}", if case.crash { "crash" } else { "failed-write" })
    };
    // Is the cut between the first write of a pre-save listener (published-object
    // set, task queue) and the write of the command it belongs to? The fault-free
    // twin made the same writes in the same order.
    // (the RRDP update task is queued by the repository manager after it stored a
    // publication, never by a pre-save listener: losing it is the lost-task finding)
    let rrdp_task_cut = site.contains("update_rrdp_if_needed");
    let in_presave_window = points.get(k - 1).map(|p| p.in_cmd).unwrap_or(false) && !rrdp_task_cut;
    if std::env::var("KVH_C08_DEBUG").is_ok() {
        for (i, p) in points.iter().enumerate().take(k + 2) {
            eprintln!("point {} {}:{} {} in_cmd={}", i + 1, p.kind, p.op, p.path.strip_prefix(&dir_a).unwrap_or(&p.path).display(), p.in_cmd);
        }
    }
    let _ = &twin_points;
    let to_out = |b: Bad| {
        // a panic, an entity that does not load, a start-up that fails: never excused by where the cut fell
        let hard = matches!(b.0.as_str(), "crash" | "c08-panic" | "c08-entity-does-not-load" | "c08-restart-fails");
        if in_presave_window && !hard {
            Outcome::Violation { clause: "c08-presave-window".into(), key: format!("{}--{}", b.0, if case.crash { "crash" } else { "failed-write" }), msg: b.2 }
        } else if !case.crash && site_class.ends_with("@task-queue") {
            // the one failing write was the queueing of a task
            Outcome::Violation { clause: "c08-lost-task".into(), key: b.0, msg: b.2 }
        } else {
            Outcome::Violation { clause: b.0, key: format!("{}--{site_class}", b.1), msg: b.2 }
        }
    };
    if in_presave_window {
        stats.classes.push("cut_in_presave_window".into());
    }
    // a would-be exit or a failing task is a legitimate reaction to a failing write;
    // a panic is not
    for r in [&ra, &rqa] {
        if let Err(Fail::Crash(e)) = r {
            if e.contains("PANIC") {
                return Err(to_out(bad("c08-panic", &super::crash_key(e), format!("{what}: {e}"))));
            }
        }
    }
    if fired {
        stats.classes.push(if case.crash { "crash_fired".into() } else { "failed_write_fired".into() });
        let in_op = points.len() >= k && ra.is_err() || !ra_ok;
        if in_op {
            stats.classes.push("fault_inside_the_operation".into());
        }
        if case.with_tasks {
            stats.classes.push("tasks_under_fault".into());
        }
        let s = site.split_whitespace().last().unwrap_or("");
        for (needle, label) in [("ca_objects", "cut_at_published_object_set"), ("tasks", "cut_at_task_queue"), ("cas/", "cut_at_command_log"), ("pubd_objects", "cut_at_repository_log"), ("status", "cut_at_status"), ("rrdp", "cut_at_rrdp_files"), ("rsync", "cut_at_rsync_files")] {
            if s.contains(needle) {
                stats.classes.push(label.into());
            }
        }
    } else {
        stats.classes.push("fault_not_reached".into());
    }
    // a failed write that makes the scheduler give up ends the daemon: it is restarted
    let exited = [&ra, &rqa].iter().any(|r| matches!(r, Err(Fail::Crash(e)) if e.contains("EXIT")));
    if exited && !case.crash {
        stats.classes.push("daemon_exit_after_failed_write".into());
    }
    if case.crash || exited {
        a.apply(&Op::Restart).map_err(|f| match f {
            Fail::Violation(e) => to_out(bad("c08-restart-fails", "open", format!("{what}: {e}"))),
            f => to_out(fail_to_bad(f, "restart")),
        })?;
    }
    // every entity loads
    config_digest(a.w()).map_err(|b| to_out((b.0, b.1, format!("{what}: {}", b.2))))?;
    a.w().repo().publishers().map_err(|e| to_out(bad("c08-entity-does-not-load", "repository", format!("{what}: {e}"))))?;
    // background work settles
    a.flags.merge(&b.flags);
    let mut stuck = false;
    match settle(&mut a) {
        Ok(()) => {}
        Err(Fail::Violation(m)) if m.contains("sync_repo_") && site.contains("/cas/") && site.contains("command-") => {
            // known finding: see below; the re-submission unblocks the task
            let sig = format!("c08-presave-window:c08-background-does-not-settle--{}", if case.crash { "crash" } else { "failed-write" });
            if ctx.strict || !ctx.is_known("C08", &sig) {
                return Err(to_out(bad("c08-background-does-not-settle", "sync-repo-task", format!("{what}: {m}"))));
            }
            crate::fw::soft_known(&sig, &format!("{what}: {m}"));
            stats.classes.push("known_finding_stepped_over".into());
            stuck = true;
        }
        Err(f) => return Err(to_out(fail_to_bad(f, &format!("{what}: background tasks after recovery")))),
    }
    let mut d_after = config_digest(a.w()).map_err(to_out)?;
    // "in the audit log, the in-memory state and the published-object set alike": what the still-running
    // instance holds in memory after a failed write is what a fresh instance reads from storage (every
    // second case; the others go on with the running instance)
    if !case.crash && !exited && fired && case.at % 2 == 0 {
        a.apply(&Op::Restart).map_err(|f| match f {
            Fail::Violation(e) => to_out(bad("c08-restart-fails", "open", format!("{what}: {e}"))),
            f => to_out(fail_to_bad(f, "restart")),
        })?;
        let d_stored = config_digest(a.w()).map_err(|b| to_out((b.0, b.1, format!("{what}: after a restart: {}", b.2))))?;
        if d_stored != d_after {
            let keys: std::collections::BTreeSet<&String> = d_after.keys().chain(d_stored.keys()).collect();
            let diff: Vec<String> = keys
                .into_iter()
                .filter(|k| d_after.get(*k) != d_stored.get(*k))
                .map(|k| format!("{k}: in memory {} / from storage {}", d_after.get(k).cloned().unwrap_or(Value::Null), d_stored.get(k).cloned().unwrap_or(Value::Null)))
                .collect();
            return Err(Outcome::Violation {
                clause: "c08-memory-differs-from-storage".into(),
                key: format!("{}--{site_class}", target.kind()),
                msg: format!("{what}: after the failed write the running instance shows a configuration that a fresh instance on the same storage does not: {diff:?}"),
            });
        }
        stats.classes.push("memory_vs_storage_compared".into());
        match settle(&mut a) {
            Ok(()) => {}
            Err(Fail::Violation(m)) if m.contains("sync_repo_") && site.contains("/cas/") && site.contains("command-") => {
                let sig = format!("c08-presave-window:c08-background-does-not-settle--{}", if case.crash { "crash" } else { "failed-write" });
                if ctx.strict || !ctx.is_known("C08", &sig) {
                    return Err(to_out(bad("c08-background-does-not-settle", "sync-repo-task", format!("{what}: {m}"))));
                }
                crate::fw::soft_known(&sig, &format!("{what}: {m}"));
                stats.classes.push("known_finding_stepped_over".into());
                stuck = true;
            }
            Err(f) => return Err(to_out(fail_to_bad(f, &format!("{what}: background tasks after the restart")))),
        }
        d_after = config_digest(a.w()).map_err(to_out)?;
    }
    // several commands in a row: a cut between them is a legitimate intermediate state
    let composite = matches!(target, Op::Attach { .. } | Op::CaAdd { .. } | Op::CaDelete { .. } | Op::ParentRemove { .. });
    // acknowledged => present; otherwise all or nothing
    let acked = ra_ok && ra.is_ok();
    if d_after != d0 && d_after != db && !composite {
        let keys: std::collections::BTreeSet<&String> = d_after.keys().chain(d0.keys()).chain(db.keys()).collect();
        let diff: Vec<String> = keys
            .into_iter()
            .filter(|k| d_after.get(*k) != d0.get(*k) && d_after.get(*k) != db.get(*k))
            .map(|k| format!("{k}: {} (before: {}, fault-free: {})", d_after.get(k).cloned().unwrap_or(Value::Null), d0.get(k).cloned().unwrap_or(Value::Null), db.get(k).cloned().unwrap_or(Value::Null)))
            .collect();
        return Err(to_out(bad("c08-partial-effect", target.kind(), format!("{what}: the configuration is neither the one before nor the one of the fault-free run: {diff:?}"))));
    }
    if acked && rb_ok && d_after != db && !composite {
        return Err(to_out(bad("c08-acknowledged-command-lost", target.kind(), format!("{what}: the operation was acknowledged but its effect is not there"))));
    }
    if d_after == db && db != d0 {
        stats.classes.push("effect_present_after_fault".into());
    } else if db != d0 {
        stats.classes.push("effect_absent_after_fault".into());
    }
    // the tree is valid and the published set matches the state
    if d_after == db {
        a.model = b.model.clone();
    }
    if !stuck && !composite && (d_after == db || d_after == d0) {
        let snap = oracle::snapshot(&a).map_err(to_out)?;
        if twin_clean {
            if let Err((c, k2, m)) = oracle::check_rp_valid(&a, &snap) {
                if ctx.strict || !ctx.is_known("C08", &format!("{c}:{k2}")) {
                    return Err(to_out((c, k2, format!("{what}: after recovery: {m}"))));
                }
            }
            let (p1, _) = payloads(&a).map_err(to_out)?;
            let expect_p = if d_after == db { &pb } else { &p0 };
            if &p1 != expect_p {
                return Err(to_out(bad("c08-published-set-diverges", target.kind(), format!("{what}: the configuration is that {} the operation, but the validated payloads are not: {p1} vs {expect_p}", if d_after == db { "after" } else { "before" }))));
            }
        }
    }
    // submit again what did not happen (an operation without effect on the
    // configuration - session reset, re-publication, bulk syncs - is submitted
    // again if it reported an error)
    let failed_without_config_effect = d0 == db && !(ra_ok && ra.is_ok()) && rb_ok;
    if d_after != db || failed_without_config_effect {
        match &target {
            Op::Attach { .. } | Op::CaAdd { .. } | Op::CaDelete { .. } | Op::ParentRemove { .. } => {
                // step by step; a step that was done already is refused and that is fine
                resubmit_composite(&mut a, &target).map_err(|f| to_out(fail_to_bad(f, &format!("{what}: re-submission"))))?;
            }
            _ => {
                a.apply(&target).map_err(|f| to_out(fail_to_bad(f, &format!("{what}: re-submission"))))?;
                if last_result_ok(&a) != rb_ok {
                    return Err(to_out(bad("c08-resubmission", target.kind(), format!("{what}: the re-submitted operation {} although it {} in the fault-free run: {:?}", if rb_ok { "failed" } else { "succeeded" }, if rb_ok { "succeeded" } else { "failed" }, a.log.last()))));
                }
            }
        }
        stats.classes.push("resubmitted".into());
    }
    a.model = b.model.clone();
    a.cas_ever = b.cas_ever.clone();
    settle(&mut a).map_err(|f| to_out(fail_to_bad(f, &format!("{what}: after re-submission"))))?;
    let d2 = config_digest(a.w()).map_err(to_out)?;
    if d2 != db {
        let keys: std::collections::BTreeSet<&String> = d2.keys().chain(db.keys()).collect();
        let diff: Vec<String> = keys.into_iter().filter(|k| d2.get(*k) != db.get(*k)).map(|k| format!("{k}: {} vs fault-free {}", d2.get(k).cloned().unwrap_or(Value::Null), db.get(k).cloned().unwrap_or(Value::Null))).collect();
        return Err(to_out(bad("c08-diverges-from-fault-free-run", "configuration", format!("{what}: {diff:?}"))));
    }
    if twin_clean {
        let final_check = |a: &Sim| -> Result<(), Bad> {
            let (p2, _) = payloads(a)?;
            if p2 != pb {
                return Err(bad("c08-diverges-from-fault-free-run", "payloads", format!("{p2} vs fault-free {pb}")));
            }
            oracle::check_c01(a).map(|_| ())
        };
        if let Err(first) = final_check(&a) {
            // the periodic re-publication is background work, too: one cycle of it
            // (the next manifest re-issue makes every CA publish again)
            let hours = (a.w().cfg.publish_next_hours + a.w().cfg.publish_jitter_hours) as i64;
            let secs = (hours * 3600).min(a.advance_budget.max(0));
            a.advance_budget -= secs;
            crate::clock::advance(secs);
            a.w().republish(false).map_err(Outcome::Harness)?;
            a.w().renew().map_err(Outcome::Harness)?;
            settle(&mut a).map_err(|f| to_out(fail_to_bad(f, &format!("{what}: maintenance cycle"))))?;
            // Does it at least heal when every CA publishes again? (Reported either way:
            // that can be a day later.) A validity window that the moved clock has left
            // is the harness' doing and healed by the cycle.
            let healed = final_check(&a).is_ok();
            let clock_artifact = first.0 == "rp-issue" && first.1.contains("expired");
            if healed && clock_artifact {
                stats.classes.push("expired_by_clock_move_then_reissued".into());
            } else {
                let (c, k2, m) = first;
                let note = if healed { "it heals at the next periodic re-publication" } else { "it does not heal at the next periodic re-publication either" };
                let sig = if in_presave_window {
                    format!("c08-presave-window:{c}--{}", if case.crash { "crash" } else { "failed-write" })
                } else if !case.crash && site_class.ends_with("@task-queue") {
                    format!("c08-lost-task:{c}")
                } else {
                    format!("{c}:{k2}--{site_class}")
                };
                if ctx.strict || !ctx.is_known("C08", &sig) {
                    return Err(to_out((c, k2, format!("{what}: after re-submission and background tasks: {m} ({note})"))));
                }
                crate::fw::soft_known(&sig, &format!("{what}: {m} ({note})"));
                stats.classes.push("known_finding_stepped_over".into());
            }
        }
    }
    let mut wb = b.w.take().unwrap();
    wb.keep_dir();
    drop(wb);
    let _ = std::fs::remove_dir_all(&dir_b);
    Ok(stats)
}

impl Prop for C08 {
    type Case = Case;
    const ID: &'static str = "C08";

    fn strategy(tier: Tier) -> BoxedStrategy<Case> {
        let ops = match tier {
            Tier::Quick => 1..14,
            Tier::Thorough => 1..30,
        };
        let w = Weights {
            roa: 14,
            aspa: 6,
            bgpsec: 5,
            keyroll: 8,
            child_res: 8,
            suspend: 3,
            attach: 3,
            mapping: 1,
            child_remove: 3,
            parent_remove: 2,
            ca_delete: 2,
            ca_add: 2,
            advance: 2,
            republish: 3,
            renew: 2,
            pump: 3,
            quiesce: 2,
            publisher: 2,
            restart: 0,
            session_reset: 1,
            // the snapshot task (stores snapshots and truncates the write-ahead log of the repository content)
            snapshot: 7,
            hold_signer: 0,
            check: 0,
            max_advance: 2 * 86400,
            ..Weights::default()
        };
        (wcase_strategy(cfg_strategy(Just(true).boxed(), false), w, 3, ops), any::<u16>(), any::<bool>(), prop_oneof![2 => Just(true), 1 => Just(false)])
            .prop_map(|(base, at, crash, with_tasks)| Case { base, at, crash, with_tasks })
            .boxed()
    }

    fn run(case: &Case, ctx: &Ctx) -> Outcome {
        let r = run_case(case, ctx);
        hooks::h().fault_off();
        match r {
            Err(o) => o,
            Ok(stats) => {
                let nontrivial = stats.classes.iter().any(|c| c == "crash_fired" || c == "failed_write_fired");
                Outcome::Pass { nontrivial, classes: stats.classes, size: stats.points }
            }
        }
    }

    fn sample(case: &Case) -> Value {
        serde_json::json!({"target": case.base.ops.iter().rev().find(|o| !matches!(o, Op::Check)).map(|o| o.short()), "prefix_ops": case.base.ops.len().saturating_sub(2), "at": case.at, "crash": case.crash, "with_tasks": case.with_tasks})
    }

    fn shrink_budget() -> usize {
        40
    }
}
