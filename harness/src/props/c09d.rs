//! C09, daemon part — the real daemon (`start_krill_daemon`: its start-up
//! procedure, its scheduler thread) is stopped while follow-up tasks of
//! committed changes are pending, optionally with some of them marked as
//! running (what a crash in the middle of a task leaves behind), and started
//! again on the same storage.
//!
//! Oracle: after the restart the queue drains, nothing stays marked as
//! running, every change that was acknowledged before the stop is in the
//! repository (relying-party walk from the trust anchor, payloads = what was
//! configured), the recurring tasks (re-publication, renewal, snapshot
//! update, parent refresh) are scheduled again, and the daemon neither
//! panicked nor wanted to exit.
use std::collections::{BTreeMap, BTreeSet};
use std::path::Path;
use std::sync::atomic::Ordering;
use std::time::Duration;

use serde::{Deserialize, Serialize};
use serde_json::json;

use super::c18d::{admin, create_ca, ok, queue_state, wait_quiet, ADMIN};
use crate::fw::Outcome;
use crate::hooks;
use crate::httpd::{Daemon, DaemonCfg, Transport};
use crate::ops::{payload_json, RoaSpec, ASNS};
use crate::rp::{self, Vrp};
use crate::rrdpc;

#[derive(Clone, Debug, Serialize, Deserialize, PartialEq)]
pub enum DOp {
    RoaAdd { slot: u8 },
    RoaRemove { slot: u8 },
    Aspa { providers: Vec<u8> },
    KeyrollInit,
    /// let the scheduler catch up before going on
    Settle,
}

#[derive(Clone, Debug, Serialize, Deserialize)]
pub struct DCase {
    pub key_start: u16,
    /// requests before the stop; the daemon stops right after the last one
    pub before: Vec<DOp>,
    /// how many of the tasks that are pending at the stop are left marked as running
    pub running: u8,
    /// requests after the restart
    pub after: Vec<DOp>,
}

fn spec(slot: u8) -> RoaSpec {
    RoaSpec { asn_i: 1, pfx_i: slot, ml: slot % 3, comment: 0 }
}

struct Model {
    roas: BTreeSet<u8>,
    aspa: Option<Vec<u32>>,
}

fn apply(d: &Daemon, dir: &Path, op: &DOp, m: &mut Model) -> Result<(), String> {
    match op {
        DOp::RoaAdd { slot } => {
            if m.roas.contains(slot) {
                return Ok(());
            }
            ok(admin(d, "POST", "/api/v1/cas/ca0/routes", Some(&json!({"added": [spec(*slot).config_json()], "removed": []}).to_string()))?, "roa add")?;
            m.roas.insert(*slot);
        }
        DOp::RoaRemove { slot } => {
            if !m.roas.contains(slot) {
                return Ok(());
            }
            ok(admin(d, "POST", "/api/v1/cas/ca0/routes", Some(&json!({"added": [], "removed": [payload_json(&spec(*slot).payload())]}).to_string()))?, "roa remove")?;
            m.roas.remove(slot);
        }
        DOp::Aspa { providers } => {
            let cust = ASNS[2];
            let set: BTreeSet<u32> = providers.iter().map(|p| ASNS[*p as usize % ASNS.len()]).filter(|p| *p != cust && *p != 0).collect();
            if set.is_empty() {
                return Ok(());
            }
            use std::str::FromStr;
            let provs: Vec<String> = set.iter().map(|p| format!("AS{p}")).collect();
            let def = krill::api::aspa::AspaDefinition::from_str(&format!("AS{cust} => {}", provs.join(", "))).map_err(|e| e.to_string())?;
            let upd = krill::api::aspa::AspaDefinitionUpdates { add_or_replace: vec![def], remove: vec![] };
            ok(admin(d, "POST", "/api/v1/cas/ca0/aspas", Some(&serde_json::to_string(&upd).map_err(|e| e.to_string())?))?, "aspa")?;
            m.aspa = Some(set.into_iter().collect());
        }
        DOp::KeyrollInit => {
            // refused while a roll is in progress: either answer is fine
            let _ = admin(d, "POST", "/api/v1/cas/ca0/keys/roll_init", None)?;
        }
        DOp::Settle => wait_quiet(dir, Duration::from_secs(45)).map_err(|e| format!("does not settle: {e}"))?,
    }
    Ok(())
}

/// Marks up to `n` pending tasks as running, the way a claim does (what a crash during those tasks leaves).
fn leave_running(dir: &Path, n: usize) -> Result<Vec<String>, String> {
    let pending = dir.join("data").join("tasks").join("pending");
    let running = dir.join("data").join("tasks").join("running");
    let mut names: Vec<String> = std::fs::read_dir(&pending).map(|rd| rd.flatten().map(|e| e.file_name().to_string_lossy().to_string()).collect()).unwrap_or_default();
    names.sort();
    let now = chrono::Utc::now().timestamp_millis();
    let mut moved = Vec::new();
    for (i, f) in names.into_iter().take(n).enumerate() {
        let Some((_, rest)) = f.split_once('-') else { continue };
        std::fs::create_dir_all(&running).map_err(|e| e.to_string())?;
        std::fs::rename(pending.join(&f), running.join(format!("{}-{rest}", now - 1000 + i as i64))).map_err(|e| e.to_string())?;
        moved.push(rest.to_string());
    }
    Ok(moved)
}

type Bad = (String, String, String);
fn bad(c: &str, k: &str, m: String) -> Bad {
    (c.into(), k.into(), m)
}

fn run(case: &DCase) -> Result<Result<Vec<String>, Bad>, String> {
    let mut classes: BTreeSet<String> = BTreeSet::new();
    classes.insert("daemon_restart".into());
    hooks::h().new_world_keys(case.key_start as usize);
    let _ = hooks::h().take_exits();
    let panics0 = crate::world::PANIC_COUNT.load(Ordering::SeqCst);
    let cfg = DaemonCfg { admin_token: ADMIN.into(), testbed: true, tcp: true, disk: true, ..Default::default() };
    let d = Daemon::start(&cfg, &BTreeMap::new()).map_err(|e| format!("daemon: {e}"))?;
    let dir = d.dir.clone();
    create_ca(&d, "ca0", "testbed")?;
    wait_quiet(&dir, Duration::from_secs(45)).map_err(|e| format!("set-up does not settle: {e}"))?;
    let mut m = Model { roas: BTreeSet::new(), aspa: None };
    for op in &case.before {
        apply(&d, &dir, op, &mut m)?;
    }
    // the daemon stops; what is queued stays on disk
    let mut at_stop: (Vec<String>, Vec<String>) = (vec![], vec![]);
    let mut left_running: Vec<String> = vec![];
    let running_n = case.running as usize;
    let d = d.restart(|dir| {
        at_stop = queue_state(dir, i128::MAX / 4);
        left_running = leave_running(dir, running_n)?;
        Ok(())
    })
    .map_err(|e| format!("restart: {e}"))?;
    if std::env::var("KVH_C09_DEBUG").is_ok() {
        eprintln!("at the stop: running {:?} pending {:?}; left marked as running: {left_running:?}", at_stop.0, at_stop.1);
    }
    if !at_stop.1.is_empty() {
        classes.insert("stopped_with_pending_tasks".into());
    }
    if !left_running.is_empty() {
        classes.insert(format!("daemon_stopped_with_running:{}", left_running.len().min(3)));
    }
    if left_running.iter().any(|t| t.starts_with("sync_repo") || t.starts_with("sync_ca0")) {
        classes.insert("follow_up_task_was_running_at_the_stop".into());
    }
    let finish = |mut d: Daemon, b: Bad| -> Result<Result<Vec<String>, Bad>, String> {
        let _ = d.stop();
        Ok(Err(b))
    };
    for op in &case.after {
        apply(&d, &dir, op, &mut m)?;
    }
    let quiet = wait_quiet(&dir, Duration::from_secs(45));
    let exits = hooks::h().take_exits();
    if !exits.is_empty() {
        return finish(d, bad("crash", "daemon-exit", format!("after the restart the daemon would have exited at {exits:?}")));
    }
    if crate::world::PANIC_COUNT.load(Ordering::SeqCst) != panics0 {
        let loc = crate::world::last_panic_location().unwrap_or_else(|| "unknown".into());
        return finish(d, bad("crash", &format!("daemon-panic:{loc}"), format!("a thread of the daemon panicked at {loc}")));
    }
    if let Err(e) = quiet {
        let (running, _) = queue_state(&dir, 0);
        let key = if running.iter().any(|r| left_running.contains(r)) { "running-task-not-requeued" } else { "queue-does-not-drain" };
        return finish(d, bad("c09-restart", &format!("daemon-{key}"), format!("after the restart the task queue does not drain: {e} (marked as running at the stop: {left_running:?})")));
    }
    // nothing stays marked as running; the recurring tasks are scheduled again
    let (running, all_pending) = queue_state(&dir, i128::MAX / 4);
    if !running.is_empty() {
        return finish(d, bad("c09-restart", "daemon-running-task-not-requeued", format!("tasks still marked as running after the restart and a drained queue: {running:?}")));
    }
    for r in ["all_cas_republish_if_needed", "all_cas_renew_objects_if_needed", "update_stored_snapshots", "sync_ca0_with_parent_testbed"] {
        if !all_pending.iter().any(|t| t.starts_with(r)) {
            return finish(d, bad("c09-recurring", "daemon-missing", format!("recurring task {r} is not scheduled after the start (pending: {all_pending:?}; marked as running at the stop: {left_running:?})")));
        }
    }
    // every acknowledged change is in the repository
    let repo_dir = dir.join("repo");
    let notif = match rrdpc::read_notification(&repo_dir) {
        Ok(n) => n,
        Err(e) => return finish(d, bad("rrdp-notification", "daemon-read", e)),
    };
    let (_, _, snapshot) = match rrdpc::read_snapshot(&notif.snapshot.0) {
        Ok(s) => s,
        Err(e) => return finish(d, bad("rrdp-snapshot", "daemon-read", e)),
    };
    let rsync = rrdpc::read_rsync_current(&repo_dir)?;
    if let Some(diff) = rrdpc::diff_maps("rsync/current", &rsync, "rrdp snapshot", &snapshot) {
        return finish(d, bad("rsync-vs-served", "daemon-diff", diff));
    }
    let ta_cer = ok(d.request(Transport::Tcp, "GET", "/ta/ta.cer", &[], None)?, "ta.cer")?;
    let tal = ok(d.request(Transport::Tcp, "GET", "/ta/ta.tal", &[], None)?, "ta.tal")?.text();
    let rep = rp::validate(&bytes::Bytes::from(ta_cer.body.clone()), &tal, &snapshot, chrono::Utc::now().timestamp());
    if let Some(issue) = rep.issues.first() {
        let key: String = issue.split([' ', ':']).next().unwrap_or("issue").to_string();
        return finish(d, bad("c09-followup", &format!("daemon-rp-{key}"), format!("after the restart and catching up the relying-party walk reports: {:?}", rep.issues.iter().take(3).collect::<Vec<_>>())));
    }
    let want: BTreeSet<Vrp> = m
        .roas
        .iter()
        .map(|s| {
            let p = spec(*s).payload();
            Vrp { asn: p.asn, prefix: crate::oracle::canon_prefix(&p.prefix), maxlen: p.maxlen }
        })
        .collect();
    if want != rep.vrps {
        let missing: Vec<_> = want.difference(&rep.vrps).take(3).collect();
        let extra: Vec<_> = rep.vrps.difference(&want).take(3).collect();
        return finish(d, bad("c09-followup", if !missing.is_empty() { "daemon-change-not-published" } else { "daemon-removal-not-published" }, format!("acknowledged ROA changes are not in the repository after the restart: missing {missing:?} extra {extra:?} (marked as running at the stop: {left_running:?}, pending at the stop: {:?})", at_stop.1)));
    }
    let want_aspas: BTreeSet<(u32, Vec<u32>)> = m.aspa.iter().map(|p| (ASNS[2], p.clone())).collect();
    if want_aspas != rep.aspas {
        return finish(d, bad("c09-followup", "daemon-aspa-not-published", format!("acknowledged ASPA change is not in the repository after the restart: want {want_aspas:?}, validated {:?}", rep.aspas)));
    }
    if std::env::var("KVH_C09_DEBUG").is_ok() {
        eprintln!("after the restart: pending {all_pending:?}; vrps {:?}; aspas {:?}", rep.vrps, rep.aspas);
    }
    let mut d = d;
    d.stop().map_err(|e| format!("stopping the daemon: {e}"))?;
    Ok(Ok(classes.into_iter().collect()))
}

pub fn run_daemon_restart(case: &DCase) -> Outcome {
    match run(case) {
        Err(e) => Outcome::Harness(e),
        Ok(Err((clause, key, msg))) => Outcome::Violation { clause, key, msg },
        Ok(Ok(classes)) => {
            let nontrivial = classes.iter().any(|c| c == "stopped_with_pending_tasks" || c.starts_with("daemon_stopped_with_running"));
            Outcome::Pass { nontrivial, classes, size: case.before.len() + case.after.len() }
        }
    }
}
