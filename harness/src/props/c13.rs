//! C13 — Every API route enforces the permission its operation requires.
//!
//! Table-driven: /verif/routes.json lists every route of the daemon with the
//! permission of its operation (method, path template, permission, resource).
//! The table is linted against semantic rules at start-up (a state-changing
//! method never rides on a read permission, CA routes are checked against
//! the addressed CA, ...) and then used as the oracle for requests sent to
//! the running daemon by callers with generated roles.
use std::collections::{BTreeMap, BTreeSet};
use std::sync::OnceLock;

use proptest::collection::vec;
use proptest::prelude::*;
use proptest::strategy::BoxedStrategy;
use serde::{Deserialize, Serialize};
use serde_json::Value;

use crate::fw::{Ctx, Outcome, Prop, Tier};
use crate::httpd::{Daemon, DaemonCfg, Reply, RoleDef, Transport, UserDef};

pub struct C13;

const ADMIN: &str = "Adm1n-T0ken/verif+x9";
const PERMS: [&str; 22] = [
    "login", "pub-admin", "pub-list", "pub-read", "pub-create", "pub-delete", "ca-list", "ca-read", "ca-create", "ca-update", "ca-admin", "ca-delete", "routes-read", "routes-update", "routes-analysis",
    "aspas-read", "aspas-update", "bgpsec-read", "bgpsec-update", "rta-list", "rta-read", "rta-update",
];

#[derive(Clone, Debug, Deserialize)]
pub struct Route {
    pub method: String,
    pub path: String,
    pub permission: Option<String>,
    pub resource: Option<String>,
    pub body: String,
    pub body_type: Option<String>,
    pub testbed_only: bool,
}

pub struct Table {
    pub routes: Vec<Route>,
    /// enum variant name -> config name
    pub names: BTreeMap<String, String>,
}

pub fn table() -> &'static Table {
    static T: OnceLock<Table> = OnceLock::new();
    T.get_or_init(|| {
        let v: Value = serde_json::from_str(include_str!("../../../routes.json")).expect("routes.json parses");
        let routes: Vec<Route> = serde_json::from_value(v["routes"].clone()).expect("routes decode");
        let names: BTreeMap<String, String> = serde_json::from_value(v["permissions"]["names"].clone()).expect("names decode");
        let t = Table { routes, names };
        if let Err(e) = lint(&t) {
            panic!("routes.json fails its lint: {e}");
        }
        t
    })
}

/// Semantic sanity rules for the table, independent of krill's code.
fn lint(t: &Table) -> Result<(), String> {
    let read_like = ["CaRead", "CaList", "PubRead", "PubList", "RoutesRead", "AspasRead", "BgpsecRead", "RtaRead", "RtaList", "Login"];
    for r in &t.routes {
        let api = r.path.starts_with("/api/v1/");
        if let Some(p) = &r.permission {
            if !t.names.contains_key(p) {
                return Err(format!("{} {}: unknown permission {p}", r.method, r.path));
            }
        }
        if !api {
            if r.permission.is_some() {
                return Err(format!("{} {}: a public route with a permission", r.method, r.path));
            }
            continue;
        }
        let listing = r.method == "GET" && (r.path == "/api/v1/cas" || r.path == "/api/v1/bulk/cas/issues");
        if r.permission.is_none() && !listing {
            return Err(format!("{} {}: API route without permission", r.method, r.path));
        }
        let Some(p) = &r.permission else { continue };
        // a method that changes state never rides on a read permission
        // (the two analysis POSTs only compute a report)
        let analysis = r.path.contains("/routes/analysis/");
        if r.method != "GET" && read_like.contains(&p.as_str()) && !analysis {
            return Err(format!("{} {}: state-changing method guarded by read permission {p}", r.method, r.path));
        }
        // CA routes are checked against the addressed CA
        if r.path.starts_with("/api/v1/cas/{ca}") && r.resource.as_deref() != Some("ca") {
            return Err(format!("{} {}: CA route not checked against the CA", r.method, r.path));
        }
        if !r.path.contains("{ca}") && r.resource.is_some() {
            return Err(format!("{} {}: resource without {{ca}}", r.method, r.path));
        }
        // families
        let fam_ok = if r.path.starts_with("/api/v1/pubd") {
            p.starts_with("Pub")
        } else if r.path.starts_with("/api/v1/ta") || r.path.starts_with("/api/v1/bulk") {
            p == "CaAdmin"
        } else if r.path.contains("/routes") {
            p.starts_with("Routes")
        } else if r.path.contains("/aspas") {
            p.starts_with("Aspas")
        } else if r.path.contains("/bgpsec") {
            p.starts_with("Bgpsec")
        } else if r.path.starts_with("/api/v1/cas") {
            p.starts_with("Ca")
        } else {
            p == "Login"
        };
        if !fam_ok {
            return Err(format!("{} {}: permission {p} is of another family", r.method, r.path));
        }
        // deleting / creating
        if r.method == "DELETE" && r.path == "/api/v1/cas/{ca}" && p != "CaDelete" {
            return Err("deleting a CA must need CaDelete".into());
        }
        if r.method == "POST" && r.path == "/api/v1/cas" && p != "CaCreate" {
            return Err("creating a CA must need CaCreate".into());
        }
    }
    Ok(())
}

#[derive(Clone, Debug, Serialize, Deserialize, PartialEq)]
pub enum Cred {
    None,
    Garbage,
    Admin,
    /// bearer token of the configured user (needs the login right)
    Session,
    /// no token, over the Unix socket: the mapped role of the peer
    SocketPeer,
}

#[derive(Clone, Debug, Serialize, Deserialize)]
pub struct Step {
    pub route: u16,
    pub cred: Cred,
    /// which CA a {ca} segment names: 0 ca1, 1 ca2, 2 unknown
    pub ca: u8,
    pub valid_body: bool,
}

#[derive(Clone, Debug, Serialize, Deserialize)]
pub struct Case {
    /// bit i: permission PERMS[i]
    pub perms: u32,
    /// None: all CAs; Some(bits): bit 0 ca1, bit 1 ca2
    pub cas: Option<u8>,
    pub testbed: bool,
    pub steps: Vec<Step>,
}

fn role_of(case: &Case) -> RoleDef {
    let permissions: Vec<String> = PERMS.iter().enumerate().filter(|(i, _)| case.perms & (1 << i) != 0).map(|(_, p)| p.to_string()).collect();
    let cas = case.cas.map(|b| ["ca1", "ca2"].iter().enumerate().filter(|(i, _)| b & (1 << i) != 0).map(|(_, c)| c.to_string()).collect());
    RoleDef { name: "r".into(), permissions, cas }
}

fn allowed(role: &RoleDef, perm: &str, ca: Option<&str>) -> bool {
    let has = role.permissions.iter().any(|p| p == perm);
    match (ca, &role.cas) {
        (Some(ca), Some(cas)) => has && cas.iter().any(|c| c == ca),
        _ => has,
    }
}

fn fill(path: &str, ca: &str) -> String {
    path.replace("{ca}", ca).replace("{child}", "c1").replace("{parent}", "p1").replace("{publisher}", "pub1").replace("{key}", "1").replace("{other}", "1")
}

fn body_for(r: &Route, valid: bool) -> Option<(String, &'static str)> {
    match r.body.as_str() {
        "none" => None,
        "bytes" => Some(("x".into(), "application/octet-stream")),
        _ => {
            if !valid {
                return Some(("{\"verif\": true}".into(), "application/json"));
            }
            let b = match r.body_type.as_deref() {
                Some("RoaConfigurationUpdates") => "{\"added\": [], \"removed\": []}".to_string(),
                Some("AspaDefinitionUpdates") => "{\"add_or_replace\": [], \"remove\": []}".to_string(),
                Some("BgpSecDefinitionUpdates") => "{\"add\": [], \"remove\": []}".to_string(),
                Some("ResourceSet") => "{\"asn\": \"\", \"ipv4\": \"10.0.0.0/8\", \"ipv6\": \"\"}".to_string(),
                Some("CertAuthInit") => "{\"handle\": \"ca3\"}".to_string(),
                Some("RepoFileDeleteCriteria") => "{\"base_uri\": \"rsync://krill.example.org/repo/none/\"}".to_string(),
                _ => "{\"verif\": true}".to_string(),
            };
            Some((b, "application/json"))
        }
    }
}

type Bad = (String, String, String);
fn bad(c: &str, k: &str, m: String) -> Bad {
    (c.into(), k.into(), m)
}

struct Run {
    testbed: bool,
    d: Daemon,
    role: RoleDef,
    session: Option<String>,
    stats: BTreeMap<String, usize>,
}

impl Run {
    fn hit(&mut self, k: &str) {
        *self.stats.entry(k.to_string()).or_default() += 1;
    }

    fn admin(&self, method: &str, path: &str, body: Option<&str>) -> Result<Reply, String> {
        let mut hs = vec![("Authorization".to_string(), format!("Bearer {ADMIN}"))];
        if body.is_some() {
            hs.push(("Content-Type".into(), "application/json".into()));
        }
        self.d.request(Transport::Tcp, method, path, &hs, body.map(|b| b.as_bytes()))
    }

    fn ensure_baseline(&self) -> Result<(), String> {
        let r = self.admin("GET", "/api/v1/cas", None)?;
        let list = r.json().unwrap_or_default();
        let have: BTreeSet<String> = list.get("cas").and_then(|c| c.as_array()).map(|a| a.iter().filter_map(|x| x.get("handle").and_then(|h| h.as_str()).map(|s| s.to_string())).collect()).unwrap_or_default();
        for ca in ["ca1", "ca2"] {
            if !have.contains(ca) {
                let r = self.admin("POST", "/api/v1/cas", Some(&format!("{{\"handle\": \"{ca}\"}}")))?;
                if r.status != 200 {
                    return Err(format!("re-creating {ca}: {} {}", r.status, r.text()));
                }
            }
        }
        for ca in have {
            if ca != "ca1" && ca != "ca2" && ca != "ta" && ca != "testbed" {
                let _ = self.admin("DELETE", &format!("/api/v1/cas/{ca}"), None)?;
            }
        }
        // ca2 gets something to report: it is made a child of the testbed CA, which then forgets it
        let parents = self.admin("GET", "/api/v1/cas/ca2/parents", None)?;
        if self.testbed && !parents.text().contains("\"p1\"") {
            let step = |r: Reply, what: &str| -> Result<Reply, String> { if r.status == 200 { Ok(r) } else { Err(format!("{what}: {} {}", r.status, r.text())) } };
            // (a CA without repository does not talk to its parents)
            if self.admin("GET", "/api/v1/cas/ca2/repo", None)?.status != 200 {
                let pr = step(self.admin("GET", "/api/v1/cas/ca2/id/publisher_request.json", None)?, "publisher request")?;
                let _ = self.admin("DELETE", "/api/v1/pubd/publishers/ca2", None)?;
                step(self.admin("POST", "/api/v1/pubd/publishers", Some(&pr.text()))?, "add publisher")?;
                let rr = step(self.admin("GET", "/api/v1/pubd/publishers/ca2/response.json", None)?, "repository response")?;
                let body = serde_json::json!({"repository_response": rr.json().unwrap_or_default()});
                step(self.admin("POST", "/api/v1/cas/ca2/repo", Some(&body.to_string()))?, "configure repository")?;
            }
            let req = step(self.admin("GET", "/api/v1/cas/ca2/id/child_request.json", None)?, "child request")?;
            let idc = req.json().and_then(|j| j.get("id_cert").and_then(|c| c.as_str()).map(|s| s.to_string())).ok_or("no id_cert in child request")?;
            let body = serde_json::json!({"handle": "ca2", "resources": {"asn": "AS64496", "ipv4": "10.0.0.0/24", "ipv6": ""}, "id_cert": idc});
            let _ = self.admin("DELETE", "/api/v1/cas/testbed/children/ca2", None)?;
            step(self.admin("POST", "/api/v1/cas/testbed/children", Some(&body.to_string()))?, "add child")?;
            let resp = step(self.admin("GET", "/api/v1/cas/testbed/children/ca2/parent_response.json", None)?, "parent response")?;
            let body = serde_json::json!({"handle": "p1", "response": resp.json().unwrap_or_default()});
            step(self.admin("POST", "/api/v1/cas/ca2/parents", Some(&body.to_string()))?, "add parent")?;
            step(self.admin("DELETE", "/api/v1/cas/testbed/children/ca2", None)?, "remove child")?;
            let _ = self.admin("POST", "/api/v1/cas/ca2/sync/parents", None)?;
            // the failing synchronisation is a background task: wait for its report
            for _ in 0..1500 {
                if Self::names_in(&self.admin("GET", "/api/v1/bulk/cas/issues", None)?).contains("ca2") {
                    break;
                }
                std::thread::sleep(std::time::Duration::from_millis(20));
            }
        }
        Ok(())
    }

    fn names_in(reply: &Reply) -> BTreeSet<String> {
        reply.json().and_then(|j| j.get("cas").and_then(|c| c.as_object().map(|m| m.keys().cloned().collect()))).unwrap_or_default()
    }

    /// What an administrator can see of the state.
    fn digest(&self) -> Result<String, String> {
        let mut out = String::new();
        let r = self.admin("GET", "/api/v1/cas", None)?;
        out.push_str(&r.text());
        for ca in ["ca1", "ca2"] {
            let h = self.admin("GET", &format!("/api/v1/cas/{ca}/history/commands/1000"), None)?;
            let total = h.json().and_then(|j| j.get("total").cloned()).unwrap_or(Value::Null);
            out.push_str(&format!("|{ca}:{} {total}", h.status));
            let c = self.admin("GET", &format!("/api/v1/cas/{ca}"), None)?;
            let mut j = c.json().unwrap_or_default();
            if let Some(m) = j.as_object_mut() {
                m.remove("id_cert");
            }
            out.push_str(&format!("|{}", j));
        }
        let p = self.admin("GET", "/api/v1/pubd/publishers", None)?;
        out.push_str(&format!("|pubd:{} {}", p.status, p.text()));
        Ok(out)
    }

    fn step(&mut self, s: &Step, case: &Case) -> Result<Result<(), Bad>, String> {
        let t = table();
        let r = &t.routes[(s.route as usize * t.routes.len()) >> 16];
        let ca = ["ca1", "ca2", "nosuch"][s.ca as usize % 3];
        let path = fill(&r.path, ca);
        let cred = match (&s.cred, &self.session) {
            (Cred::Session, None) => Cred::SocketPeer,
            (c, _) => c.clone(),
        };
        let (tr, token): (Transport, Option<String>) = match &cred {
            Cred::None => (Transport::Tcp, None),
            Cred::Garbage => (Transport::Tcp, Some("not-a-token".into())),
            Cred::Admin => (Transport::Tcp, Some(ADMIN.into())),
            Cred::Session => (Transport::Tcp, self.session.clone()),
            Cred::SocketPeer => (Transport::Unix, None),
        };
        // who is it?
        let anyone = RoleDef { name: "adm".into(), permissions: PERMS.iter().map(|p| p.to_string()).collect(), cas: None };
        let my_role = self.role.clone();
        let who: Option<&RoleDef> = match &cred {
            Cred::None | Cred::Garbage => None,
            Cred::Admin => Some(&anyone),
            Cred::Session | Cred::SocketPeer => Some(&my_role),
        };
        // what does the route need?
        let api = r.path.starts_with("/api/v1/");
        let mut needs: Vec<(String, Option<&str>)> = Vec::new();
        if api {
            needs.push(("login".into(), None));
            if r.path.starts_with("/api/v1/cas/{ca}") {
                needs.push(("ca-read".into(), Some(ca)));
            }
            if r.path.starts_with("/api/v1/pubd") {
                needs.push(("pub-admin".into(), None));
            }
            if let Some(p) = &r.permission {
                let name = t.names.get(p).cloned().unwrap_or_default();
                needs.push((name, if r.resource.is_some() { Some(ca) } else { None }));
            }
        }
        let permitted = !api || who.map(|w| needs.iter().all(|(p, res)| allowed(w, p, *res))).unwrap_or(false);

        let before = if !permitted { Some(self.digest()?) } else { None };
        let mut hs = Vec::new();
        if let Some(tok) = &token {
            hs.push(("Authorization".to_string(), format!("Bearer {tok}")));
        }
        let body = body_for(r, s.valid_body);
        if let Some((_, ct)) = &body {
            hs.push(("Content-Type".to_string(), ct.to_string()));
        }
        let reply = self.d.request(tr, &r.method, &path, &hs, body.as_ref().map(|b| b.0.as_bytes()))?;
        let refused = reply.status == 401 || reply.status == 403;
        let what = format!("{} {} as {:?} (role {:?}, needs {:?})", r.method, path, cred, who.map(|w| (&w.permissions, &w.cas)), needs);
        // the login endpoints answer 401 to a caller without (Basic) credentials by nature
        let auth_endpoint = r.path.starts_with("/auth/");
        if permitted && refused && !auth_endpoint {
            return Ok(Err(bad("c13-refused-although-permitted", &format!("{} {}", r.method, r.path), format!("{what}: {} {}", reply.status, reply.text()))));
        }
        if !permitted {
            if !refused {
                let missing: Vec<String> = match who {
                    None => vec!["(not authenticated)".into()],
                    Some(w) => needs.iter().filter(|(p, res)| !allowed(w, p, *res)).map(|(p, res)| format!("{p}@{res:?}")).collect(),
                };
                return Ok(Err(bad("c13-served-without-permission", &format!("{} {}", r.method, r.path), format!("{what}: answered {} although the caller lacks {missing:?}: {}", reply.status, reply.text().chars().take(200).collect::<String>()))));
            }
            let after = self.digest()?;
            if before.as_deref() != Some(after.as_str()) {
                return Ok(Err(bad("c13-refused-request-had-effect", &format!("{} {}", r.method, r.path), format!("{what}: refused with {} but the state changed", reply.status))));
            }
            self.hit(if who.is_none() { "refused_unauthenticated" } else { "refused_insufficient_role" });
            if who.is_some() && r.method != "GET" {
                self.hit("refused_state_changing_request");
            }
        } else if api {
            self.hit(if matches!(cred, Cred::Admin) { "served_admin" } else { "served_role" });
            if r.resource.is_some() && self.role.cas.is_some() && !matches!(cred, Cred::Admin) {
                self.hit("served_with_per_ca_grant");
            }
        } else {
            self.hit("public_route");
            if r.testbed_only && !case.testbed && reply.status != 404 {
                return Ok(Err(bad("c13-testbed-route-served", &format!("{} {}", r.method, r.path), format!("{what}: testbed mode is off but the route answered {}", reply.status))));
            }
        }
        // listings show exactly what the caller may read
        if api && permitted && r.method == "GET" && r.path == "/api/v1/cas" && reply.status == 200 {
            let list = reply.json().unwrap_or_default();
            let got: BTreeSet<String> = list.get("cas").and_then(|c| c.as_array()).map(|a| a.iter().filter_map(|x| x.get("handle").and_then(|h| h.as_str()).map(|s| s.to_string())).collect()).unwrap_or_default();
            let all = self.admin("GET", "/api/v1/cas", None)?.json().unwrap_or_default();
            let all: BTreeSet<String> = all.get("cas").and_then(|c| c.as_array()).map(|a| a.iter().filter_map(|x| x.get("handle").and_then(|h| h.as_str()).map(|s| s.to_string())).collect()).unwrap_or_default();
            let want: BTreeSet<String> = all.iter().filter(|c| who.map(|w| allowed(w, "ca-read", Some(c.as_str()))).unwrap_or(false)).cloned().collect();
            if got != want {
                return Ok(Err(bad("c13-listing", "cas", format!("{what}: listed {got:?}, may read {want:?}"))));
            }
            self.hit("listing_checked");
        }
        if api && permitted && r.method == "GET" && r.path == "/api/v1/bulk/cas/issues" && reply.status == 200 {
            let got = Self::names_in(&reply);
            let all = Self::names_in(&self.admin("GET", "/api/v1/bulk/cas/issues", None)?);
            if std::env::var("KVH_C13_DEBUG").is_ok() {
                eprintln!("issues: caller sees {got:?}, administrator sees {all:?}; parents of ca2: {}", self.admin("GET", "/api/v1/cas/ca2/parents", None)?.text());
            }
            // (issues come and go with the background syncs: only what the caller must not see is judged)
            let forbidden: Vec<&String> = got.iter().filter(|c| !who.map(|w| allowed(w, "ca-read", Some(c.as_str()))).unwrap_or(false)).collect();
            if !forbidden.is_empty() {
                return Ok(Err(bad("c13-listing", "issues", format!("{what}: the issues of {forbidden:?} were shown to a caller who may not read them (administrator sees {all:?})"))));
            }
            if !all.is_empty() {
                self.hit("issues_listing_checked");
            }
        }
        if permitted && r.method != "GET" {
            self.ensure_baseline()?;
        }
        Ok(Ok(()))
    }
}

impl Prop for C13 {
    type Case = Case;
    const ID: &'static str = "C13";

    fn strategy(tier: Tier) -> BoxedStrategy<Case> {
        let n = match tier {
            Tier::Quick => 20..60,
            Tier::Thorough => 40..160,
        };
        // permission subsets: uniformly random, nearly everything, nearly nothing, plus the login bit mostly set
        let perms = prop_oneof![
            4 => any::<u32>().prop_map(|x| x & 0x3f_ffff),
            2 => (any::<u32>(), any::<u32>()).prop_map(|(x, y)| (x | y) & 0x3f_ffff),
            2 => (0usize..22, 0usize..22).prop_map(|(a, b)| 0x3f_ffff & !(1 << a) & !(1 << b)),
            1 => (0usize..22, 0usize..22).prop_map(|(a, b)| (1 << a) | (1 << b)),
        ]
        .prop_flat_map(|p| prop_oneof![5 => Just(p | 1), 1 => Just(p)])
        // reading CAs is the gate for most routes: usually there
        .prop_flat_map(|p| prop_oneof![3 => Just(p | (1 << 7)), 1 => Just(p)]);
        let step = (any::<u16>(), prop_oneof![1 => Just(Cred::None), 1 => Just(Cred::Garbage), 1 => Just(Cred::Admin), 5 => Just(Cred::Session), 4 => Just(Cred::SocketPeer)], prop_oneof![3 => Just(0u8), 2 => Just(1u8), 1 => Just(2u8)], any::<bool>())
            .prop_map(|(route, cred, ca, valid_body)| Step { route, cred, ca, valid_body });
        (perms, prop_oneof![2 => Just(None), 3 => (0u8..4).prop_map(Some)], prop_oneof![2 => Just(false), 1 => Just(true)], vec(step, n)).prop_map(|(perms, cas, testbed, steps)| Case { perms, cas, testbed, steps }).boxed()
    }

    fn run(case: &Case, _ctx: &Ctx) -> Outcome {
        let _ = table();
        let role = role_of(case);
        let users = vec![UserDef { name: "u".into(), password: "pw1".into(), role: "r".into() }];
        let cfg = DaemonCfg { admin_token: ADMIN.into(), config_file_auth: true, roles: vec![role.clone()], users: users.clone(), unix_role: Some("r".into()), testbed: case.testbed, tcp: true, disk: false };
        let hashes = {
            static H: OnceLock<(String, String)> = OnceLock::new();
            let h = H.get_or_init(|| crate::httpd::hash_password("u", "pw1", 7)).clone();
            let mut m = BTreeMap::new();
            m.insert("u\u{0}pw1".to_string(), h);
            m
        };
        let d = match Daemon::start(&cfg, &hashes) {
            Ok(d) => d,
            Err(e) => return Outcome::Harness(format!("daemon: {e}")),
        };
        let mut run = Run { testbed: case.testbed, d, role: role.clone(), session: None, stats: Default::default() };
        if let Err(e) = run.ensure_baseline() {
            return Outcome::Harness(format!("baseline: {e}"));
        }
        if allowed(&role, "login", None) {
            use base64::Engine;
            let b = base64::engine::general_purpose::STANDARD.encode("u:pw1");
            match run.d.request(Transport::Tcp, "POST", "/auth/login", &[("Authorization".into(), format!("Basic {b}"))], None) {
                Ok(r) if r.status == 200 => run.session = r.json().and_then(|j| j.get("token").and_then(|t| t.as_str()).map(|s| s.to_string())),
                Ok(r) => return Outcome::Harness(format!("login of a user with the login right failed: {} {}", r.status, r.text())),
                Err(e) => return Outcome::Harness(format!("login: {e}")),
            }
        }
        let mut out = None;
        for (i, s) in case.steps.iter().enumerate() {
            match run.step(s, case) {
                Err(e) => {
                    out = Some(Outcome::Harness(format!("step #{i} {s:?}: {e}")));
                    break;
                }
                Ok(Err((clause, key, msg))) => {
                    out = Some(Outcome::Violation { clause, key, msg: format!("step #{i}: {msg}") });
                    break;
                }
                Ok(Ok(())) => {}
            }
        }
        let classes: Vec<String> = run.stats.keys().cloned().collect();
        if let Err(e) = run.d.stop() {
            if out.is_none() {
                out = Some(Outcome::Harness(format!("stopping the daemon: {e}")));
            }
        }
        if let Some(o) = out {
            return o;
        }
        let nontrivial = run.stats.contains_key("refused_insufficient_role") && run.stats.contains_key("served_role");
        Outcome::Pass { nontrivial, classes, size: case.steps.len() }
    }

    fn sample(case: &Case) -> Value {
        let r = role_of(case);
        serde_json::json!({"permissions": r.permissions, "cas": r.cas, "testbed": case.testbed, "steps": case.steps.len()})
    }
}
