//! C18 — Concurrent requests and background tasks never deadlock or lose
//! work.
//!
//! A world with a parent CA, its child, a sibling CA and an extra publisher is
//! set up sequentially. Then several request threads and a scheduler stand-in
//! thread (the loop of `scheduler::run`, through the hooked `process_task`)
//! work on the one runtime at the same time, with pseudo-random delays at
//! the lock and store hook points. The requests of different threads commute
//! (every thread owns its origin AS, its ASPA customer, its router key, its
//! files), so every serial order gives the same answers and the same final
//! state: all requests succeed and, after the background work has caught
//! up, everything every thread asked for is there, exactly once.
use std::collections::{BTreeMap, BTreeSet};
use std::str::FromStr;
use std::sync::atomic::{AtomicBool, Ordering};
use std::sync::Arc;
use std::time::{Duration, Instant};

use krill::api;
use proptest::collection::vec;
use proptest::prelude::*;
use proptest::strategy::BoxedStrategy;
use rpki::ca::idexchange::PublisherHandle;
use rpki::ca::publication::{Base64, Publish, PublishDelta, Withdraw};
use serde::{Deserialize, Serialize};

use crate::fw::{Ctx, Outcome, Prop, Tier};
use crate::hooks;
use crate::ops::{payload_json, Fail, Op, RoaSpec, Sim, ASNS};
use crate::oracle;
use crate::world::{guarded, World, WorldCfg};

pub struct C18;

const CAS: [&str; 3] = ["ca0", "ca1", "ca2"];
const PUBX: &str = "pubx";

#[derive(Clone, Debug, Serialize, Deserialize, PartialEq)]
pub enum TOp {
    RoaAdd { ca: u8, slot: u8 },
    RoaRemove { ca: u8, slot: u8 },
    Aspa { ca: u8, providers: Vec<u8> },
    Bgpsec { ca: u8 },
    /// only the thread whose number equals the CA's starts its key roll
    KeyrollInit,
    Republish,
    /// re-issues every manifest and CRL (writes every CA's published-object set without the CA's command lock)
    RepublishForce,
    RefreshAll,
    RepoSyncAll,
    Publish { slot: u8, content: u8 },
    Withdraw { slot: u8 },
    Read,
    /// a child of `ca0` that lives elsewhere (identity key held by the harness) asks what it is
    /// entitled to: a signed RFC 6492 list request handled on a request thread, as the HTTP
    /// workers do for remote children (updates the parent's record of the child's last exchange)
    RemoteChildList { child: u8 },
    /// queues the snapshot task (snapshots of all entities; the write-ahead log of the repository content is truncated)
    Snapshot,
    /// the spare CA `ca3` (no parent, nothing published) exists to be deleted while others use it
    SpareUpdateId,
    SpareRead,
    /// only thread 0 does this: deletes the spare CA if it is there, creates it again if it is not
    SpareDelete,
}

#[derive(Clone, Debug, Serialize, Deserialize)]
pub struct Case {
    pub disk: bool,
    pub key_start: u16,
    pub yield_seed: u64,
    pub threads: Vec<Vec<TOp>>,
    /// the requests go over HTTP to the real daemon (its own worker and scheduler threads), see `c18d.rs`
    #[serde(default)]
    pub daemon: bool,
}

fn top() -> impl Strategy<Value = TOp> {
    prop_oneof![
        8 => (0u8..3, 0u8..8).prop_map(|(ca, slot)| TOp::RoaAdd { ca, slot }),
        3 => (0u8..3, 0u8..8).prop_map(|(ca, slot)| TOp::RoaRemove { ca, slot }),
        3 => (0u8..3, vec(1u8..7, 1..3)).prop_map(|(ca, providers)| TOp::Aspa { ca, providers }),
        2 => (0u8..3).prop_map(|ca| TOp::Bgpsec { ca }),
        2 => Just(TOp::KeyrollInit),
        2 => Just(TOp::Republish),
        3 => Just(TOp::RepublishForce),
        1 => Just(TOp::RefreshAll),
        2 => Just(TOp::RepoSyncAll),
        4 => (0u8..6, 0u8..4).prop_map(|(slot, content)| TOp::Publish { slot, content }),
        2 => (0u8..6).prop_map(|slot| TOp::Withdraw { slot }),
        2 => Just(TOp::Read),
        2 => Just(TOp::Snapshot),
        4 => (0u8..2).prop_map(|child| TOp::RemoteChildList { child }),
        2 => Just(TOp::SpareUpdateId),
        2 => Just(TOp::SpareRead),
        3 => Just(TOp::SpareDelete),
    ]
}

pub const SPARE: &str = "ca3";
pub const REMOTE_CHILDREN: [&str; 2] = ["rc0", "rc1"];
/// identity keys of the remote children of the current case
static REMOTE_IDS: std::sync::Mutex<Vec<rpki::crypto::KeyIdentifier>> = std::sync::Mutex::new(Vec::new());

fn remote_child_list(w: &World, child: u8) -> Result<(), String> {
    use rpki::ca::provisioning;
    let i = child as usize % REMOTE_CHILDREN.len();
    let key = REMOTE_IDS.lock().unwrap_or_else(|e| e.into_inner()).get(i).cloned().ok_or("no remote child identity")?;
    let s = rpki::ca::idexchange::SenderHandle::from_str(REMOTE_CHILDREN[i]).map_err(|e| e.to_string())?;
    let r = rpki::ca::idexchange::RecipientHandle::from_str(CAS[0]).map_err(|e| e.to_string())?;
    let cms = w.rt.signer().create_rfc6492_cms(provisioning::Message::list(s, r), &key).map_err(|e| e.to_string())?;
    let ca = rpki::ca::idexchange::CaHandle::from_str(CAS[0]).unwrap();
    let reply = w.cam().rfc6492(&ca, cms.to_bytes(), Some("kvh".into()), &w.actor, &w.rt).map_err(|e| e.to_string())?;
    // the reply is a list response, not an error response
    let parent = w.cam().get_ca(&ca).map_err(|e| e.to_string())?;
    let cms = provisioning::ProvisioningCms::decode(&reply).map_err(|e| format!("reply does not decode: {e}"))?;
    cms.validate(&parent.id_cert().public_key).map_err(|e| format!("reply does not validate: {e}"))?;
    match cms.into_message().into_payload() {
        provisioning::Payload::ListResponse(_) => Ok(()),
        _ => Err("answered with something else than a list response".to_string()),
    }
}

/// A request to the spare CA may find it deleted: that is the answer of a serial order in which the deletion came first.
pub fn spare_gone(e: &str) -> bool {
    let e = e.to_ascii_lowercase();
    e.contains("unknown") || e.contains("not found") || e.contains("does not exist") || e.contains("no such") || e.contains("ca-unknown") || e.contains("404")
}

fn spec(t: usize, slot: u8) -> RoaSpec {
    // thread t owns origin ASNS[t + 1]
    RoaSpec { asn_i: (t + 1) as u8, pfx_i: slot, ml: slot % 3, comment: 0 }
}

fn file_uri(t: usize, slot: u8) -> rpki::uri::Rsync {
    rpki::uri::Rsync::from_str(&format!("rsync://krill.example.org/repo/{PUBX}/t{t}-{slot}.bin")).unwrap()
}

fn content(t: usize, slot: u8, c: u8) -> Vec<u8> {
    format!("thread {t} slot {slot} content {c}").into_bytes()
}

type Bad = (String, String, String);
fn bad(c: &str, k: &str, m: String) -> Bad {
    (c.into(), k.into(), m)
}

/// One pass of the scheduler loop without touching the harness' own state.
fn pump_shared(w: &World) -> Result<bool, String> {
    use krill::server::scheduler::verif_process_task;
    use krill::server::mq::TaskResult;
    use crate::world::CloneSlow;
    let rt = w.rt.clone();
    let Some((key, value)) = rt.tasks().pop() else { return Ok(false) };
    let task: krill::server::mq::Task = serde_json::from_value(value).map_err(|e| format!("EXIT: task {key} cannot be parsed: {e}"))?;
    let slow = w.slow.clone_slow();
    let res = verif_process_task(&slow, task, w.started);
    let fin = match res {
        Ok(TaskResult::Done) => rt.tasks().finish(&key),
        Ok(TaskResult::FollowUp(task, prio)) => rt.tasks().schedule_and_finish_existing(task, prio),
        Ok(TaskResult::Reschedule(prio)) => rt.tasks().reschedule(&key, prio),
        Err(e) => return Err(format!("EXIT: scheduler would exit after task {key}: {e}")),
    };
    fin.map_err(|e| format!("EXIT: scheduler would exit after task {key}: {e}"))?;
    Ok(true)
}

/// What a thread did: (op, answer).
type Done = Vec<(TOp, Result<(), String>)>;

struct ThreadState {
    roas: BTreeMap<(u8, u8), RoaSpec>,
    files: BTreeMap<u8, Vec<u8>>,
}

fn run_thread(w: &World, t: usize, ops: &[TOp], stop: &AtomicBool) -> Done {
    let mut st = ThreadState { roas: BTreeMap::new(), files: BTreeMap::new() };
    let mut done = Vec::new();
    let csrs = crate::csr::pool();
    let mut spare_deleted = false;
    for op in ops {
        if stop.load(Ordering::Relaxed) {
            break;
        }
        let res: Result<Result<(), String>, crate::world::Crash> = guarded(|| match op {
            TOp::RoaAdd { ca, slot } => {
                if st.roas.contains_key(&(*ca, *slot)) {
                    return Ok(());
                }
                let s = spec(t, *slot);
                let upd: api::roa::RoaConfigurationUpdates = serde_json::from_value(serde_json::json!({"added": [s.config_json()], "removed": []})).map_err(|e| e.to_string())?;
                w.roa_update(CAS[*ca as usize % 3], upd).map_err(|e| e.to_string())?;
                st.roas.insert((*ca, *slot), s);
                Ok(())
            }
            TOp::RoaRemove { ca, slot } => {
                let Some(s) = st.roas.get(&(*ca, *slot)).cloned() else { return Ok(()) };
                let upd: api::roa::RoaConfigurationUpdates = serde_json::from_value(serde_json::json!({"added": [], "removed": [payload_json(&s.payload())]})).map_err(|e| e.to_string())?;
                w.roa_update(CAS[*ca as usize % 3], upd).map_err(|e| e.to_string())?;
                st.roas.remove(&(*ca, *slot));
                Ok(())
            }
            TOp::Aspa { ca, providers } => {
                let cust = ASNS[t + 1];
                let set: BTreeSet<u32> = providers.iter().map(|p| ASNS[*p as usize % ASNS.len()]).filter(|p| *p != cust && *p != 0).collect();
                let provs: Vec<String> = set.iter().map(|p| format!("AS{p}")).collect();
                if provs.is_empty() {
                    return Ok(());
                }
                let def = api::aspa::AspaDefinition::from_str(&format!("AS{cust} => {}", provs.join(", "))).map_err(|e| e.to_string())?;
                let upd = api::aspa::AspaDefinitionUpdates { add_or_replace: vec![def], remove: vec![] };
                w.aspa_update(CAS[*ca as usize % 3], upd).map_err(|e| e.to_string())
            }
            TOp::Bgpsec { ca } => {
                let (csr, _key) = csrs[t % csrs.len()].clone();
                let upd: api::bgpsec::BgpSecDefinitionUpdates = serde_json::from_value(serde_json::json!({"add": [{"asn": ASNS[t + 1], "csr": csr}], "remove": []})).map_err(|e| e.to_string())?;
                w.bgpsec_update(CAS[*ca as usize % 3], upd).map_err(|e| e.to_string())
            }
            TOp::KeyrollInit => {
                if t < 3 {
                    w.keyroll_init(CAS[t])
                } else {
                    Ok(())
                }
            }
            TOp::Republish => w.republish(false).map(|_| ()),
            TOp::RepublishForce => w.republish(true).map(|_| ()),
            TOp::RefreshAll => w.refresh_all(),
            TOp::RepoSyncAll => w.repo_sync_all(),
            TOp::Publish { slot, content: c } => {
                if st.files.contains_key(slot) {
                    return Ok(());
                }
                let bytes = content(t, *slot, *c);
                let mut delta = PublishDelta::empty();
                delta.add_publish(Publish::new(None, file_uri(t, *slot), Base64::from_content(&bytes)));
                w.repo().publish(&PublisherHandle::from_str(PUBX).unwrap(), delta, &w.rt).map_err(|e| e.to_string())?;
                st.files.insert(*slot, bytes);
                Ok(())
            }
            TOp::Withdraw { slot } => {
                let Some(bytes) = st.files.get(slot).cloned() else { return Ok(()) };
                let mut delta = PublishDelta::empty();
                delta.add_withdraw(Withdraw::new(None, file_uri(t, *slot), Base64::from_content(&bytes).to_hash()));
                w.repo().publish(&PublisherHandle::from_str(PUBX).unwrap(), delta, &w.rt).map_err(|e| e.to_string())?;
                st.files.remove(slot);
                Ok(())
            }
            TOp::SpareUpdateId => w.ca_update_id(SPARE),
            TOp::SpareRead => {
                let h = rpki::ca::idexchange::CaHandle::from_str(SPARE).unwrap();
                let c = w.cam().get_ca(&h).map_err(|e| e.to_string())?;
                let _ = c.configured_roas();
                let _ = w.cam().get_ca_status(&h).map_err(|e| e.to_string())?;
                Ok(())
            }
            TOp::SpareDelete => {
                if t != 0 {
                    Ok(())
                } else if !spare_deleted {
                    let r = w.ca_delete(SPARE);
                    if r.is_ok() {
                        spare_deleted = true;
                    }
                    r
                } else {
                    // (the CA only: its publisher stays at the publication server when a CA is deleted)
                    let r = w.cam().init_ca(rpki::ca::idexchange::CaHandle::from_str(SPARE).unwrap(), &w.rt).map_err(|e| e.to_string());
                    if r.is_ok() {
                        spare_deleted = false;
                    }
                    r
                }
            }
            TOp::Snapshot => w.schedule(krill::server::mq::Task::UpdateSnapshots),
            TOp::RemoteChildList { child } => remote_child_list(w, *child),
            TOp::Read => {
                // readers: every entity loads and lists
                for ca in CAS {
                    let h = rpki::ca::idexchange::CaHandle::from_str(ca).unwrap();
                    let c = w.cam().get_ca(&h).map_err(|e| e.to_string())?;
                    let _ = c.configured_roas();
                    let _ = w.cam().get_ca_status(&h).map_err(|e| e.to_string())?;
                }
                let _ = w.repo().repo_stats().map_err(|e| e.to_string())?;
                let _ = w.served()?;
                Ok(())
            }
        });
        match res {
            Ok(r) => done.push((op.clone(), r)),
            Err(c) => {
                done.push((op.clone(), Err(format!("CRASH {}", c.what))));
                break;
            }
        }
    }
    done
}

fn run_case(case: &Case) -> Result<Result<Vec<String>, Bad>, String> {
    let mut classes: BTreeSet<String> = BTreeSet::new();
    let cfg = WorldCfg { disk: case.disk, num_threads: 4, ..WorldCfg::default() };
    let fail = |f: Fail| match f {
        Fail::Harness(e) => e,
        Fail::Crash(e) => format!("set-up crashed: {e}"),
        Fail::Violation(e) => format!("set-up: {e}"),
    };
    let mut sim = Sim::new(cfg, case.key_start as usize).map_err(fail)?;
    for op in [
        Op::CaAdd { ca: 0 },
        Op::Attach { ca: 0, parent: 0, res: 0x7fff },
        Op::Quiesce,
        Op::CaAdd { ca: 1 },
        Op::Attach { ca: 1, parent: 1, res: 0x7fff },
        Op::Quiesce,
        Op::CaAdd { ca: 2 },
        Op::Attach { ca: 2, parent: 0, res: 0x7fff },
        Op::Quiesce,
        Op::CaAdd { ca: 3 },
        Op::Quiesce,
    ] {
        sim.apply(&op).map_err(fail)?;
    }
    // the extra publisher
    {
        let w = sim.w();
        let id = w.rt.signer().create_self_signed_id_cert().map_err(|e| e.to_string())?;
        let req = rpki::ca::idexchange::PublisherRequest::new(krill::api::ca::IdCertInfo::from(&id).base64.clone(), PublisherHandle::from_str(PUBX).unwrap(), None);
        w.repo().create_publisher(req, &w.actor).map_err(|e| e.to_string())?;
    }
    // two children of ca0 that live elsewhere
    {
        let w = sim.w();
        let mut ids = Vec::new();
        for (i, c) in REMOTE_CHILDREN.iter().enumerate() {
            let id = w.rt.signer().create_self_signed_id_cert().map_err(|e| e.to_string())?;
            ids.push(id.public_key().key_identifier());
            let req = krill::api::admin::AddChildRequest { handle: rpki::ca::idexchange::ChildHandle::from_str(c).unwrap(), resources: crate::ops::resources_of(1 << (i + 3)), id_cert: id };
            w.cam().ca_add_child(&rpki::ca::idexchange::CaHandle::from_str(CAS[0]).unwrap(), req, &w.actor, &w.rt).map_err(|e| format!("adding remote child {c}: {e}"))?;
        }
        *REMOTE_IDS.lock().unwrap_or_else(|e| e.into_inner()) = ids;
    }
    sim.converge().map_err(fail)?;
    sim.foreign_publisher_base = Some(format!("rsync://krill.example.org/repo/{PUBX}/"));

    let world = Arc::new(sim.w.take().unwrap());
    hooks::h().set_yield(Some(case.yield_seed));
    let stop = Arc::new(AtomicBool::new(false));
    let sched_stop = Arc::new(AtomicBool::new(false));
    // the scheduler stand-in
    let sched = {
        let w = world.clone();
        let stop = sched_stop.clone();
        std::thread::spawn(move || -> Result<usize, String> {
            let mut n = 0;
            while !stop.load(Ordering::Relaxed) {
                match guarded(|| pump_shared(&w)) {
                    Ok(Ok(true)) => n += 1,
                    Ok(Ok(false)) => std::thread::sleep(Duration::from_micros(300)),
                    Ok(Err(e)) => return Err(e),
                    Err(c) => return Err(format!("CRASH {}", c.what)),
                }
            }
            Ok(n)
        })
    };
    let mut handles = Vec::new();
    for (t, ops) in case.threads.iter().cloned().enumerate() {
        let w = world.clone();
        let stop = stop.clone();
        handles.push(std::thread::spawn(move || run_thread(&w, t, &ops, &stop)));
    }
    // watchdog
    let t0 = Instant::now();
    let limit = Duration::from_secs(90);
    let mut hung = false;
    while handles.iter().any(|h| !h.is_finished()) {
        if t0.elapsed() > limit {
            hung = true;
            break;
        }
        std::thread::sleep(Duration::from_millis(2));
    }
    if hung {
        // the threads cannot be stopped: leave them and the world behind
        stop.store(true, Ordering::Relaxed);
        sched_stop.store(true, Ordering::Relaxed);
        hooks::h().set_yield(None);
        let stuck: Vec<usize> = handles.iter().enumerate().filter(|(_, h)| !h.is_finished()).map(|(i, _)| i).collect();
        std::mem::forget(world);
        return Ok(Err(bad("c18-hang", "request-threads", format!("request threads {stuck:?} did not finish within {}s", limit.as_secs()))));
    }
    let mut results: Vec<Done> = Vec::new();
    for h in handles {
        results.push(h.join().map_err(|_| "request thread panicked outside the guarded call".to_string())?);
    }
    sched_stop.store(true, Ordering::Relaxed);
    let t1 = Instant::now();
    while !sched.is_finished() {
        if t1.elapsed() > limit {
            hooks::h().set_yield(None);
            std::mem::forget(world);
            return Ok(Err(bad("c18-hang", "scheduler-thread", format!("the scheduler thread did not finish its current task within {}s", limit.as_secs()))));
        }
        std::thread::sleep(Duration::from_millis(2));
    }
    let sched_res = sched.join().map_err(|_| "scheduler thread panicked".to_string())?;
    hooks::h().set_yield(None);
    let tasks_run = match sched_res {
        Ok(n) => n,
        Err(e) => {
            let key = if e.starts_with("CRASH") { "panic" } else { "exit" };
            return Ok(Err(bad("c18-scheduler", key, format!("the scheduler thread ended: {e}"))));
        }
    };
    if tasks_run > 0 {
        classes.insert("tasks_ran_concurrently".into());
    }
    // no status update of the concurrent phase was lost: with all threads done, the status that
    // the instance reports (its cache) is the status that was written through to storage
    // nor a publication: what the repository serves is what a new instance would load from storage
    if let Err(b) = super::c06::repo_content_live_vs_rebuilt(&world) {
        return Ok(Err((format!("c18-{}", b.0), b.1, format!("right after the concurrent phase: {}", b.2))));
    }
    match super::c19::status_cache_vs_storage(&world) {
        Err(b) => return Ok(Err((format!("c18-{}", b.0), b.1, format!("right after the concurrent phase: {}", b.2)))),
        Ok(n) if n > 0 => {
            classes.insert("status_compared".into());
        }
        Ok(_) => {}
    }

    // answers: as in a serial execution, i.e. all succeed
    let delete_issued = results.first().map(|d| d.iter().any(|(op, _)| matches!(op, TOp::SpareDelete))).unwrap_or(false);
    let spare_users = results.iter().enumerate().filter(|(t, d)| *t != 0 && d.iter().any(|(op, _)| matches!(op, TOp::SpareUpdateId | TOp::SpareRead))).count();
    if delete_issued && spare_users > 0 {
        classes.insert("ca_deleted_while_others_use_it".into());
    }
    let mut same_ca: BTreeMap<u8, BTreeSet<usize>> = BTreeMap::new();
    for (t, done) in results.iter().enumerate() {
        for (op, r) in done {
            if let Err(e) = r {
                if e.starts_with("CRASH") {
                    let key = if e.contains("EXIT") { "exit" } else { "panic" };
                    return Ok(Err(bad("c18-crash", key, format!("thread {t} {op:?}: {e}"))));
                }
                // a key roll can only start when the previous one is done
                if matches!(op, TOp::KeyrollInit) {
                    continue;
                }
                // the spare CA may be gone already
                if matches!(op, TOp::SpareUpdateId | TOp::SpareRead) && delete_issued && spare_gone(e) {
                    continue;
                }
                return Ok(Err(bad("c18-request-failed", &format!("{op:?}").split([' ', '{']).next().unwrap_or("op").to_string(), format!("thread {t} {op:?} failed although it succeeds in every serial order: {e}"))));
            }
            match op {
                TOp::RoaAdd { ca, .. } | TOp::RoaRemove { ca, .. } | TOp::Aspa { ca, .. } | TOp::Bgpsec { ca } => {
                    same_ca.entry(*ca % 3).or_default().insert(t);
                }
                _ => {}
            }
        }
    }
    if same_ca.values().any(|s| s.len() >= 2) {
        classes.insert("same_ca_from_2plus_threads".into());
    }

    // the model after all requests (any order)
    let world = Arc::try_unwrap(world).map_err(|_| "world still shared".to_string())?;
    sim.w = Some(world);
    let csrs = crate::csr::pool();
    let mut files: BTreeMap<String, Vec<u8>> = BTreeMap::new();
    for (t, done) in results.iter().enumerate() {
        let mut my_files: BTreeMap<u8, Vec<u8>> = BTreeMap::new();
        let mut my_roas: BTreeSet<(u8, u8)> = BTreeSet::new();
        for (op, r) in done {
            if r.is_err() {
                continue;
            }
            match op {
                TOp::RoaAdd { ca, slot } => {
                    if my_roas.insert((*ca, *slot)) {
                        let s = spec(t, *slot);
                        sim.model.cas.get_mut(CAS[*ca as usize % 3]).unwrap().roas.insert(s.payload(), s.comment());
                        classes.insert("roa_added".into());
                    }
                }
                TOp::RoaRemove { ca, slot } => {
                    if my_roas.remove(&(*ca, *slot)) {
                        sim.model.cas.get_mut(CAS[*ca as usize % 3]).unwrap().roas.remove(&spec(t, *slot).payload());
                    }
                }
                TOp::Aspa { ca, providers } => {
                    let cust = ASNS[t + 1];
                    let provs: BTreeSet<u32> = providers.iter().map(|p| ASNS[*p as usize % ASNS.len()]).filter(|p| *p != cust && *p != 0).collect();
                    if !provs.is_empty() {
                        sim.model.cas.get_mut(CAS[*ca as usize % 3]).unwrap().aspas.insert(cust, provs);
                    }
                }
                TOp::Bgpsec { ca } => {
                    let key = csrs[t % csrs.len()].1.clone();
                    sim.model.cas.get_mut(CAS[*ca as usize % 3]).unwrap().bgpsec.insert((ASNS[t + 1], key));
                }
                TOp::KeyrollInit => {
                    classes.insert("keyroll_started".into());
                }
                TOp::Publish { slot, content: c } => {
                    my_files.entry(*slot).or_insert_with(|| content(t, *slot, *c));
                }
                TOp::Withdraw { slot } => {
                    my_files.remove(slot);
                }
                _ => {}
            }
        }
        for (slot, bytes) in my_files {
            files.insert(file_uri(t, slot).to_string(), bytes);
        }
    }
    // the spare CA: every acknowledged deletion / re-creation of thread 0 toggles it
    let toggles = results.first().map(|d| d.iter().filter(|(op, r)| matches!(op, TOp::SpareDelete) && r.is_ok()).count()).unwrap_or(0);
    {
        let h = rpki::ca::idexchange::CaHandle::from_str(SPARE).unwrap();
        let there = sim.w().cam().get_ca(&h).is_ok();
        let expect_there = toggles % 2 == 0;
        if there != expect_there {
            return Ok(Err(bad("c18-delete", if there { "ca-still-there" } else { "ca-vanished" }, format!("after {toggles} acknowledged deletions / re-creations {SPARE} should {} but it {}", if expect_there { "exist" } else { "be gone" }, if there { "exists" } else { "is gone" }))));
        }
        if toggles > 1 {
            classes.insert("ca_deleted_and_created_again".into());
        }
        if there {
            sim.w().ca_delete(SPARE).map_err(|e| format!("deleting the spare CA afterwards: {e}"))?;
        }
        sim.model.cas.remove(SPARE);
    }
    // background work catches up (sequentially now)
    if let Err(f) = sim.converge() {
        return Ok(Err(match f {
            Fail::Crash(e) => bad("c18-crash", &super::crash_key(&e), format!("after the concurrent phase: {e}")),
            Fail::Violation(e) => bad("c18-no-quiescence", "after", e),
            Fail::Harness(e) => return Err(e),
        }));
    }
    if let Err(b) = oracle::check_c01(&sim) {
        return Ok(Err((b.0, b.1, format!("after the concurrent phase and catching up: {}", b.2))));
    }
    // the extra publisher's files: exactly what the threads left
    let got = sim.w().served_for(PUBX)?;
    let got: BTreeMap<String, Vec<u8>> = got.into_iter().map(|(k, v)| (k, v.to_vec())).collect();
    if got != files {
        let missing: Vec<&String> = files.keys().filter(|k| !got.contains_key(*k)).collect();
        let extra: Vec<&String> = got.keys().filter(|k| !files.contains_key(*k)).collect();
        return Ok(Err(bad("c18-publisher-files", if !missing.is_empty() { "lost" } else { "extra-or-different" }, format!("publisher {PUBX}: missing {missing:?}, unexpected {extra:?}"))));
    }
    // none applied twice: command counts equal requests that changed something is
    // covered by C07; here: no duplicate ROA objects / definitions in the API views
    for ca in CAS {
        let h = rpki::ca::idexchange::CaHandle::from_str(ca).unwrap();
        let c = sim.w().cam().get_ca(&h).map_err(|e| e.to_string())?;
        let defs: Vec<String> = c.configured_roas().iter().map(|r| serde_json::to_string(&r.roa_configuration.payload).unwrap_or_default()).collect();
        let uniq: BTreeSet<&String> = defs.iter().collect();
        if uniq.len() != defs.len() {
            return Ok(Err(bad("c18-applied-twice", "roa-definition", format!("{ca} lists a ROA definition twice: {defs:?}"))));
        }
    }
    if case.disk {
        classes.insert("disk".into());
    }
    if !files.is_empty() {
        classes.insert("publisher_files".into());
    }
    Ok(Ok(classes.into_iter().collect()))
}

impl Prop for C18 {
    type Case = Case;
    const ID: &'static str = "C18";

    fn strategy(tier: Tier) -> BoxedStrategy<Case> {
        let len = match tier {
            Tier::Quick => 3..14usize,
            Tier::Thorough => 5..30usize,
        };
        (prop_oneof![2 => Just(false), 1 => Just(true)], any::<u16>(), any::<u64>(), vec(vec(top(), len), 2..6), prop_oneof![9 => Just(false), 1 => Just(true)])
            .prop_map(|(disk, key_start, yield_seed, threads, daemon)| Case { disk, key_start, yield_seed, threads, daemon })
            .boxed()
    }

    fn run(case: &Case, _ctx: &Ctx) -> Outcome {
        // KVH_C18_DAEMON=1 / 0 forces all cases of a run into one part (for experiments)
        let daemon = match std::env::var("KVH_C18_DAEMON").ok().as_deref() {
            Some("1") => true,
            Some("0") => false,
            _ => case.daemon,
        };
        let res = if daemon { super::c18d::run_case_daemon(case) } else { run_case(case) };
        match res {
            Err(e) => Outcome::Harness(e),
            Ok(Err((clause, key, msg))) => Outcome::Violation { clause, key, msg },
            Ok(Ok(classes)) => {
                let nontrivial = classes.iter().any(|c| c == "same_ca_from_2plus_threads") && classes.iter().any(|c| c == "tasks_ran_concurrently");
                let size = case.threads.iter().map(|t| t.len()).sum();
                Outcome::Pass { nontrivial, classes, size }
            }
        }
    }

    fn sample(case: &Case) -> serde_json::Value {
        serde_json::json!({"disk": case.disk, "daemon": case.daemon, "threads": case.threads.iter().map(|t| t.len()).collect::<Vec<_>>()})
    }

    fn shrink_budget() -> usize {
        25
    }
}
