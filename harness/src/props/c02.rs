//! C02 — Delegation follows entitlements, never over-claims, converges and is
//! idempotent.
use proptest::prelude::*;
use proptest::strategy::BoxedStrategy;

use crate::clock;
use crate::fw::{Ctx, Outcome, Prop, Tier};
use crate::gens::{cfg_strategy, wcase_strategy, WCase, Weights};
use crate::ops::{Op, Sim};
use crate::oracle::{self, bad, Bad};

pub struct C02;

fn task_hook(sim: &Sim, task: &str) -> Result<(), Bad> {
    if let Some(ca) = task.strip_prefix("sync_repo_") {
        oracle::check_no_overclaim(sim, ca)?;
    }
    // whatever this task issued is judged against the entitlements as they are now
    oracle::check_issued_within_entitlement(sim)?;
    Ok(())
}

impl Prop for C02 {
    type Case = WCase;
    const ID: &'static str = "C02";

    fn strategy(tier: Tier) -> BoxedStrategy<WCase> {
        let ops = match tier {
            Tier::Quick => 8..36,
            Tier::Thorough => 10..70,
        };
        let w = Weights {
            roa: 6,
            aspa: 1,
            bgpsec: 1,
            child_res: 24,
            suspend: 8,
            attach: 5,
            mapping: 3,
            keyroll: 6,
            child_remove: 3,
            heal: 4,
            parent_remove: 1,
            ca_delete: 0,
            publisher: 0,
            restart: 0,
            advance: 3,
            max_advance: 3 * 86400,
            check: 6,
            ..Weights::default()
        };
        crate::gens::with_roll_episodes(wcase_strategy(cfg_strategy(Just(false).boxed(), false), w, 5, ops))
    }

    fn run(case: &WCase, _ctx: &Ctx) -> Outcome {
        let mut checks = 0usize;
        let mut overclaim_checked = 0usize;
        let mut installed = false;
        let mut issuance_judged = 0usize;
        let res = super::run_wcase(case, |sim, op, _setup| {
            if !installed {
                sim.task_hook = Some(task_hook);
                installed = true;
            }
            // whatever this operation issued is judged against the entitlements as they are now
            if sim.w.is_some() {
                issuance_judged += oracle::check_issued_within_entitlement(sim)?;
            }
            if !matches!(op, Op::Check) {
                return Ok(());
            }
            checks += 1;
            // convergence + exactness
            overclaim_checked += oracle::check_delegation_converged(sim)?;
            // idempotence: with the clock frozen, two more rounds of
            // synchronisation change nothing
            clock::freeze();
            let r = (|| {
                let before = oracle::idem_digest(sim)?;
                for _ in 0..2 {
                    let w = sim.w();
                    w.refresh_all().map_err(|e| bad("refresh", "error", e))?;
                    sim.quiesce().map_err(|f| bad("no-quiescence", "idempotence", format!("{f:?}")))?;
                }
                let after = oracle::idem_digest(sim)?;
                if before.0 != after.0 {
                    return Err(bad(
                        "c02-idempotence",
                        "commands",
                        format!("further synchronisations recorded commands: versions before {:?} after {:?}", before.0, after.0),
                    ));
                }
                if let Some(d) = crate::rrdpc::diff_maps("before", &before.1, "after", &after.1) {
                    return Err(bad("c02-idempotence", "repository", format!("further synchronisations changed the repository: {d}")));
                }
                Ok(())
            })();
            clock::unfreeze();
            r
        });
        match res {
            Err(o) => o,
            Ok(sim) => {
                let f = &sim.flags;
                let mut classes = Vec::new();
                for k in [
                    "entitlement_shrunk",
                    "entitlement_grown",
                    "entitlement_shrunk_to_nothing",
                    "child_suspended",
                    "child_unsuspended",
                    "two_parents",
                    "class_mapped",
                    "keyroll_init",
                    "keyroll_activate",
                ] {
                    if f.has(k) {
                        classes.push(k.to_string());
                    }
                }
                let regain = f.has("entitlement_shrunk") && f.has("entitlement_grown");
                if regain {
                    classes.push("shrink_and_regain".into());
                }
                if overclaim_checked > 0 {
                    classes.push("exactness_checked".into());
                }
                if issuance_judged > 0 {
                    classes.push("issuance_judged_after_operation".into());
                }
                let nontrivial = overclaim_checked > 0 && (f.has("entitlement_shrunk") || regain || f.has("child_unsuspended"));
                classes.push(format!("checks:{}", checks.min(6)));
                Outcome::Pass { nontrivial, classes, size: case.n_ops() }
            }
        }
    }

    fn sample(case: &WCase) -> serde_json::Value {
        serde_json::json!({
            "setup": case.setup.iter().map(|o| o.short()).collect::<Vec<_>>(),
            "ops": case.ops.iter().map(|o| o.short()).collect::<Vec<_>>(),
        })
    }
}
