//! C20 — Only genuine credentials authenticate, and only as the configured
//! identity.
use std::collections::BTreeMap;
use std::sync::Mutex;

use base64::Engine;
use proptest::collection::vec;
use proptest::prelude::*;
use proptest::strategy::BoxedStrategy;
use serde::{Deserialize, Serialize};
use unicode_normalization::UnicodeNormalization;

use crate::fw::{Ctx, Outcome, Prop, Tier};
use crate::httpd::{hash_password, Daemon, DaemonCfg, Reply, RoleDef, Transport, UserDef};

pub struct C20;

pub const NAMES: [&str; 8] = ["alice", "Alice", "alice ", " alice", "ａｌｉｃｅ", "bob", "ﬁona", "fiona"];
pub const PWS: [&str; 6] = ["pw1", "pw2", " pw1", "ｐｗ１", "Pw1", ""];
pub const ADMIN: &str = "Adm1n-T0ken/verif+x9";

/// (name, permissions, cas)
pub fn roles() -> Vec<RoleDef> {
    let r = |n: &str, p: &[&str], cas: Option<&[&str]>| RoleDef { name: n.into(), permissions: p.iter().map(|s| s.to_string()).collect(), cas: cas.map(|c| c.iter().map(|s| s.to_string()).collect()) };
    vec![
        r("adm", &["any"], None),
        r("ro", &["login", "ca-list", "ca-read", "pub-list", "pub-read", "routes-read"], None),
        r("nologin", &["ca-list", "ca-read", "ca-create"], None),
        r("ca1only", &["login", "ca-read", "ca-list"], Some(&["ca1"])),
        r("creator", &["login", "ca-create", "pub-list"], None),
    ]
}

#[derive(Clone, Debug, Serialize, Deserialize, PartialEq)]
pub enum TokSel {
    None,
    Admin,
    AdminMut(u8, u16),
    Session(u8),
    SessionMut(u8, u8, u16),
    /// a token issued by another instance (same users, its own key) for user #i
    Foreign(u8),
    Garbage(u8),
}

#[derive(Clone, Debug, Serialize, Deserialize, PartialEq)]
pub enum St {
    Login { configured: bool, name: u8, pw: u8, right_pw: bool, unix: bool },
    Use { tok: TokSel, unix: bool },
}

#[derive(Clone, Debug, Serialize, Deserialize)]
pub struct Case {
    pub config_file_auth: bool,
    /// (name index, password index, role index)
    pub users: Vec<(u8, u8, u8)>,
    pub unix_role: Option<u8>,
    pub steps: Vec<St>,
}

fn st() -> impl Strategy<Value = St> {
    let tok = prop_oneof![
        2 => Just(TokSel::None),
        2 => Just(TokSel::Admin),
        6 => (0u8..13, any::<u16>()).prop_map(|(k, p)| TokSel::AdminMut(k, p)),
        6 => (0u8..4).prop_map(TokSel::Session),
        10 => (0u8..4, 0u8..13, any::<u16>()).prop_map(|(i, k, p)| TokSel::SessionMut(i, k, p)),
        2 => (0u8..4).prop_map(TokSel::Foreign),
        2 => (0u8..6).prop_map(TokSel::Garbage),
    ];
    prop_oneof![
        5 => (prop_oneof![3 => Just(true), 1 => Just(false)], 0u8..8, 0u8..6, prop_oneof![2 => Just(true), 1 => Just(false)], any::<bool>())
            .prop_map(|(configured, name, pw, right_pw, unix)| St::Login { configured, name, pw, right_pw, unix }),
        8 => (tok, any::<bool>()).prop_map(|(tok, unix)| St::Use { tok, unix }),
    ]
}

fn norm(s: &str) -> String {
    s.trim().nfkc().collect()
}

fn perms_of(role: &RoleDef) -> Vec<String> {
    if role.permissions.iter().any(|p| p == "any") {
        vec!["*".into()]
    } else {
        role.permissions.clone()
    }
}

fn allowed(role: &RoleDef, perm: &str, ca: Option<&str>) -> bool {
    let ps = perms_of(role);
    let has = ps.iter().any(|p| p == "*" || p == perm);
    match (ca, &role.cas) {
        (Some(ca), Some(cas)) => has && cas.iter().any(|c| c == ca),
        _ => has,
    }
}

/// The probes: (method, path, body, [(permission, resource)]).
fn probes() -> Vec<(&'static str, &'static str, Option<&'static str>, Vec<(&'static str, Option<&'static str>)>)> {
    vec![
        ("GET", "/api/v1/authorized", None, vec![("login", None)]),
        ("GET", "/api/v1/cas/ca1", None, vec![("login", None), ("ca-read", Some("ca1"))]),
        ("GET", "/api/v1/cas/ca2", None, vec![("login", None), ("ca-read", Some("ca2"))]),
        ("POST", "/api/v1/cas", Some("{\"handle\": \"not a handle!\"}"), vec![("login", None), ("ca-create", None)]),
        ("GET", "/api/v1/pubd/publishers", None, vec![("login", None), ("pub-admin", None), ("pub-list", None)]),
    ]
}

static HASHES: Mutex<BTreeMap<String, (String, String)>> = Mutex::new(BTreeMap::new());

fn hashes_for(users: &[UserDef]) -> BTreeMap<String, (String, String)> {
    let mut g = HASHES.lock().unwrap_or_else(|e| e.into_inner());
    for u in users {
        let k = format!("{}\u{0}{}", u.name, u.password);
        if !g.contains_key(&k) {
            let seed = k.bytes().fold(0xcbf29ce484222325u64, |h, b| (h ^ b as u64).wrapping_mul(0x100000001b3));
            g.insert(k.clone(), hash_password(&u.name, &u.password, seed));
        }
    }
    g.clone()
}

fn mutate_token(t: &str, kind: u8, pos: u16) -> Option<String> {
    if t.is_empty() {
        return None;
    }
    let cs: Vec<char> = t.chars().collect();
    let i = (pos as usize * cs.len()) >> 16;
    let out: String = match kind % 13 {
        0 => cs[..i].iter().collect(),
        1 => cs[..cs.len() - 1].iter().collect(),
        2 => {
            let mut c2 = cs.clone();
            c2[i] = if c2[i] == 'A' { 'B' } else { 'A' };
            c2.into_iter().collect()
        }
        3 => format!("{t}A"),
        4 => {
            let mut c2 = cs.clone();
            c2[i] = if c2[i].is_ascii_lowercase() { c2[i].to_ascii_uppercase() } else { c2[i].to_ascii_lowercase() };
            c2.into_iter().collect()
        }
        5 => t.trim_end_matches('=').to_string(),
        6 => t.replace('+', "-").replace('/', "_"),
        // the same characters in another order (a comparison that only looks at what characters there are,
        // or that lets differences cancel each other, accepts these)
        8 => {
            let mut c2 = cs.clone();
            let j = (i + 1) % c2.len();
            c2.swap(i, j);
            c2.into_iter().collect()
        }
        9 => {
            let mut c2 = cs.clone();
            let n = c2.len().max(1);
            c2.rotate_left((1 + i) % n);
            c2.into_iter().collect()
        }
        10 => cs.iter().rev().collect(),
        // the same bit flipped in two characters
        11 => {
            let mut c2: Vec<u8> = t.bytes().collect();
            let j = (i + 1 + (pos as usize % 3)) % c2.len();
            if i == j || !t.is_ascii() {
                return None;
            }
            let bit = 1u8 << (pos % 5);
            c2[i] ^= bit;
            c2[j] ^= bit;
            if c2.iter().any(|b| !b.is_ascii_graphic()) {
                return None;
            }
            String::from_utf8(c2).ok()?
        }
        // two characters exchanged at a distance
        12 => {
            let mut c2 = cs.clone();
            let j = c2.len() - 1 - i;
            c2.swap(i, j);
            c2.into_iter().collect()
        }
        _ => {
            let mut raw = base64::engine::general_purpose::STANDARD.decode(t.as_bytes()).ok()?;
            if raw.is_empty() {
                return None;
            }
            let b = (pos as usize * raw.len() * 8) >> 16;
            raw[b / 8] ^= 1 << (b % 8);
            base64::engine::general_purpose::STANDARD.encode(raw)
        }
    };
    if out == t || out.is_empty() {
        None
    } else {
        Some(out)
    }
}

type Bad = (String, String, String);
fn bad(c: &str, k: &str, m: String) -> Bad {
    (c.into(), k.into(), m)
}

struct Run {
    d: Daemon,
    d2: Option<Daemon>,
    cfg: DaemonCfg,
    hashes: BTreeMap<String, (String, String)>,
    /// (token, user index)
    sessions: Vec<(String, usize)>,
    stats: BTreeMap<String, usize>,
}

impl Run {
    fn hit(&mut self, k: &str) {
        *self.stats.entry(k.to_string()).or_default() += 1;
    }

    fn role(&self, name: &str) -> Option<RoleDef> {
        self.cfg.roles.iter().find(|r| r.name == name).cloned()
    }

    fn login_on(d: &Daemon, tr: Transport, name: &str, pw: &str) -> Result<Reply, String> {
        let b = base64::engine::general_purpose::STANDARD.encode(format!("{name}:{pw}"));
        d.request(tr, "POST", "/auth/login", &[("Authorization".into(), format!("Basic {b}"))], None)
    }

    /// Runs the probes; returns for each whether it was served (not 401/403).
    fn probe(&self, tr: Transport, token: Option<&str>) -> Result<Vec<bool>, String> {
        let mut res = Vec::new();
        for (m, p, body, _) in probes() {
            let mut hs = Vec::new();
            if let Some(t) = token {
                hs.push(("Authorization".to_string(), format!("Bearer {t}")));
            }
            if body.is_some() {
                hs.push(("Content-Type".to_string(), "application/json".to_string()));
            }
            let r = self.d.request(tr, m, p, &hs, body.map(|b| b.as_bytes()))?;
            res.push(r.status != 401 && r.status != 403);
        }
        Ok(res)
    }

    fn expected(&self, role: Option<&RoleDef>) -> Vec<bool> {
        probes().iter().map(|(_, _, _, needs)| role.map(|r| needs.iter().all(|(p, ca)| allowed(r, p, *ca))).unwrap_or(false)).collect()
    }

    fn step(&mut self, s: &St, case: &Case) -> Result<Result<(), Bad>, String> {
        match s {
            St::Login { configured, name, pw, right_pw, unix } => {
                let tr = if *unix { Transport::Unix } else { Transport::Tcp };
                let (uname, upw): (String, String) = if *configured && !self.cfg.users.is_empty() {
                    let u = &self.cfg.users[*name as usize % self.cfg.users.len()];
                    (u.name.clone(), if *right_pw { u.password.clone() } else { PWS[*pw as usize % PWS.len()].to_string() })
                } else {
                    (NAMES[*name as usize % NAMES.len()].to_string(), PWS[*pw as usize % PWS.len()].to_string())
                };
                let r = Self::login_on(&self.d, tr, &uname, &upw)?;
                let user = self.cfg.users.iter().position(|u| u.name == uname);
                let should = case.config_file_auth
                    && user
                        .map(|i| {
                            let u = &self.cfg.users[i];
                            norm(&u.password) == norm(&upw) && self.role(&u.role).map(|r| allowed(&r, "login", None)).unwrap_or(false)
                        })
                        .unwrap_or(false);
                let ok = r.status == 200;
                // which configured names are this name's look-alikes?
                let lookalike = self.cfg.users.iter().any(|u| u.name != uname && norm(&u.name) == norm(&uname));
                match (should, ok) {
                    (true, true) => {
                        let j = r.json().unwrap_or_default();
                        let tok = j.get("token").and_then(|t| t.as_str()).unwrap_or("").to_string();
                        if tok.is_empty() {
                            return Ok(Err(bad("c20-login", "no-token", format!("login of '{uname}' returned 200 without a token: {}", r.text()))));
                        }
                        self.sessions.push((tok, user.unwrap()));
                        self.hit("login_ok");
                    }
                    (false, false) => {
                        self.hit(if user.is_some() { "login_refused_wrong_password_or_no_login_right" } else if lookalike { "login_refused_lookalike_name" } else { "login_refused_unknown_user" });
                    }
                    (true, false) => {
                        let key = if norm(&uname) != uname { "configured-name-is-not-in-normal-form" } else { "configured-user" };
                        return Ok(Err(bad("c20-login-refused", key, format!("configured user '{uname}' with its password and a role that may log in was refused: {} {}", r.status, r.text()))));
                    }
                    (false, true) => {
                        let key = if user.is_none() {
                            if lookalike { "lookalike-of-configured-name" } else { "unknown-user" }
                        } else {
                            "wrong-password-or-no-login-right"
                        };
                        return Ok(Err(bad("c20-login-accepted", key, format!("login as '{uname}' with password '{upw}' succeeded; configured users: {:?}", self.cfg.users))));
                    }
                }
                Ok(Ok(()))
            }
            St::Use { tok, unix } => {
                let tr = if *unix { Transport::Unix } else { Transport::Tcp };
                // (token string, identity it genuinely stands for)
                let adm = self.role("adm");
                let (token, ident): (Option<String>, Option<RoleDef>) = match tok {
                    TokSel::None => (None, None),
                    TokSel::Admin => (Some(ADMIN.to_string()), adm),
                    TokSel::AdminMut(k, p) => match mutate_token(ADMIN, *k, *p) {
                        Some(t) => (Some(t), None),
                        None => return Ok(Ok(())),
                    },
                    TokSel::Session(i) => {
                        if self.sessions.is_empty() {
                            return Ok(Ok(()));
                        }
                        let (t, u) = self.sessions[*i as usize % self.sessions.len()].clone();
                        let role = self.role(&self.cfg.users[u].role);
                        (Some(t), role)
                    }
                    TokSel::SessionMut(i, k, p) => {
                        if self.sessions.is_empty() {
                            return Ok(Ok(()));
                        }
                        let (t, _) = self.sessions[*i as usize % self.sessions.len()].clone();
                        match mutate_token(&t, *k, *p) {
                            Some(t) => (Some(t), None),
                            None => return Ok(Ok(())),
                        }
                    }
                    TokSel::Foreign(i) => {
                        if !case.config_file_auth || self.cfg.users.is_empty() {
                            return Ok(Ok(()));
                        }
                        if self.d2.is_none() {
                            let mut c2 = self.cfg.clone();
                            c2.tcp = false;
                            self.d2 = Some(Daemon::start(&c2, &self.hashes)?);
                        }
                        let u = self.cfg.users[*i as usize % self.cfg.users.len()].clone();
                        let r = Self::login_on(self.d2.as_ref().unwrap(), Transport::Unix, &u.name, &u.password)?;
                        match r.json().and_then(|j| j.get("token").and_then(|t| t.as_str()).map(|s| s.to_string())) {
                            Some(t) if r.status == 200 => (Some(t), None),
                            _ => return Ok(Ok(())),
                        }
                    }
                    TokSel::Garbage(g) => {
                        let t = ["x", "AAAA", "admin-token", "null", "Bearer", "0"][*g as usize % 6];
                        (Some(t.to_string()), None)
                    }
                };
                // the peer of the Unix socket is a fall-back identity
                let unix_ident = if *unix { self.cfg.unix_role.as_ref().and_then(|r| self.role(r)) } else { None };
                let who = ident.clone().or(unix_ident.clone());
                let want = self.expected(who.as_ref());
                let got = self.probe(tr, token.as_deref())?;
                if got != want {
                    let names: Vec<&str> = probes().iter().map(|p| p.1).collect();
                    let promoted = got.iter().zip(want.iter()).any(|(g, w)| *g && !*w);
                    let key = if promoted {
                        match tok {
                            TokSel::None => "no-credential",
                            TokSel::Admin | TokSel::Session(_) => "genuine-credential-got-more",
                            TokSel::AdminMut(..) => "altered-admin-token",
                            TokSel::SessionMut(_, k, _) => match k % 8 {
                                5 | 6 => "re-encoded-session-token",
                                0 | 1 => "truncated-session-token",
                                _ => "altered-session-token",
                            },
                            TokSel::Foreign(_) => "token-of-another-instance",
                            TokSel::Garbage(_) => "arbitrary-string",
                        }
                    } else {
                        "genuine-credential-refused"
                    };
                    return Ok(Err(bad(
                        if promoted { "c20-acted-as-user" } else { "c20-refused" },
                        key,
                        format!(
                            "credential {tok:?} over {tr:?} (stands for role {:?}, socket peer role {:?}): routes {names:?} served {got:?}, expected {want:?}",
                            ident.as_ref().map(|r| r.name.clone()),
                            unix_ident.as_ref().map(|r| r.name.clone())
                        ),
                    )));
                }
                let label = match tok {
                    TokSel::None => "no_credential",
                    TokSel::Admin => "admin_token",
                    TokSel::AdminMut(..) => "altered_admin_token_refused",
                    TokSel::Session(_) => "session_token",
                    TokSel::SessionMut(..) => "altered_session_token_refused",
                    TokSel::Foreign(_) => "foreign_token_refused",
                    TokSel::Garbage(_) => "garbage_refused",
                };
                self.hit(label);
                if *unix && unix_ident.is_some() && ident.is_none() {
                    self.hit("socket_peer_identity");
                }
                Ok(Ok(()))
            }
        }
    }
}

impl Prop for C20 {
    type Case = Case;
    const ID: &'static str = "C20";

    fn strategy(tier: Tier) -> BoxedStrategy<Case> {
        let n = match tier {
            Tier::Quick => 6..24,
            Tier::Thorough => 10..50,
        };
        (prop_oneof![5 => Just(true), 1 => Just(false)], vec((0u8..8, 0u8..6, 0u8..5), 1..5), prop_oneof![2 => Just(None), 1 => (0u8..5).prop_map(Some)], vec(st(), n))
            .prop_map(|(config_file_auth, mut users, unix_role, steps)| {
                // distinct names
                let mut seen = std::collections::BTreeSet::new();
                users.retain(|u| seen.insert(u.0));
                Case { config_file_auth, users, unix_role, steps }
            })
            .boxed()
    }

    fn run(case: &Case, _ctx: &Ctx) -> Outcome {
        let rs = roles();
        let users: Vec<UserDef> = case.users.iter().map(|(n, p, r)| UserDef { name: NAMES[*n as usize % 8].into(), password: PWS[*p as usize % 6].into(), role: rs[*r as usize % rs.len()].name.clone() }).collect();
        let cfg = DaemonCfg {
            admin_token: ADMIN.into(),
            config_file_auth: case.config_file_auth,
            roles: rs.clone(),
            users: users.clone(),
            unix_role: case.unix_role.map(|r| rs[r as usize % rs.len()].name.clone()),
            testbed: false,
            tcp: true,
            disk: false,
        };
        let hashes = hashes_for(&users);
        let d = match Daemon::start(&cfg, &hashes) {
            Ok(d) => d,
            Err(e) => return Outcome::Harness(format!("daemon: {e}")),
        };
        // two CAs to address
        for ca in ["ca1", "ca2"] {
            let body = format!("{{\"handle\": \"{ca}\"}}");
            match d.request(Transport::Tcp, "POST", "/api/v1/cas", &[("Authorization".into(), format!("Bearer {ADMIN}")), ("Content-Type".into(), "application/json".into())], Some(body.as_bytes())) {
                Ok(r) if r.status == 200 => {}
                Ok(r) => return Outcome::Harness(format!("creating {ca}: {} {}", r.status, r.text())),
                Err(e) => return Outcome::Harness(format!("creating {ca}: {e}")),
            }
        }
        let mut run = Run { d, d2: None, cfg, hashes, sessions: vec![], stats: Default::default() };
        let mut out = None;
        for (i, s) in case.steps.iter().enumerate() {
            match run.step(s, case) {
                Err(e) => {
                    out = Some(Outcome::Harness(format!("step #{i} {s:?}: {e}")));
                    break;
                }
                Ok(Err((clause, key, msg))) => {
                    out = Some(Outcome::Violation { clause, key, msg: format!("step #{i} {s:?}: {msg}") });
                    break;
                }
                Ok(Ok(())) => {}
            }
        }
        let classes: Vec<String> = run.stats.keys().cloned().collect();
        if let Some(mut d2) = run.d2.take() {
            let _ = d2.stop();
        }
        if let Err(e) = run.d.stop() {
            if out.is_none() {
                out = Some(Outcome::Harness(format!("stopping the daemon: {e}")));
            }
        }
        if let Some(o) = out {
            return o;
        }
        let nontrivial = run.stats.contains_key("session_token") && (run.stats.contains_key("altered_session_token_refused") || run.stats.contains_key("foreign_token_refused"));
        Outcome::Pass { nontrivial, classes, size: case.steps.len() }
    }
}
