//! C01 — Published tree is RP-valid and says exactly what was configured.
use std::collections::BTreeMap;

use proptest::prelude::*;
use proptest::strategy::BoxedStrategy;

use crate::fw::{Ctx, Outcome, Prop, Tier};
use crate::gens::{cfg_strategy, wcase_strategy, WCase, Weights};
use crate::ops::Op;
use crate::oracle;

pub struct C01;

impl Prop for C01 {
    type Case = WCase;
    const ID: &'static str = "C01";

    fn strategy(tier: Tier) -> BoxedStrategy<WCase> {
        let ops = match tier {
            Tier::Quick => 8..40,
            Tier::Thorough => 10..80,
        };
        let w = Weights { publisher: 0, restart: 0, overlap: 3, child_remove: 2, heal: 2, max_advance: 10 * 86400, ..Weights::default() };
        wcase_strategy(cfg_strategy(Just(false).boxed(), false), w, 5, ops)
    }

    fn run(case: &WCase, _ctx: &Ctx) -> Outcome {
        let mut checks = 0usize;
        let mut modes: BTreeMap<String, bool> = BTreeMap::new();
        let mut classes: Vec<String> = Vec::new();
        let mut total_advance: u64 = 0;
        let res = super::run_wcase(case, |sim, op, setup| {
            if let Op::Advance { secs } = op {
                total_advance += *secs as u64;
            }
            if !matches!(op, Op::Check) || setup {
                return Ok(());
            }
            checks += 1;
            let (snap, unreachable) = oracle::check_c01(sim)?;
            if unreachable > 0 {
                sim.flags.hit("unreachable_allowed");
            }
            for (ca, agg) in oracle::agg_modes(&snap) {
                if let Some(old) = modes.insert(ca, agg) {
                    if old != agg {
                        sim.flags.hit("agg_switch");
                    }
                }
            }
            let cas: Vec<String> = sim.model.cas.keys().cloned().collect();
            for ca in cas {
                for st in sim.roll_state(&ca) {
                    if st.starts_with("roll") {
                        sim.flags.hit("roll_at_checkpoint");
                    }
                }
            }
            if sim.flags.has("clock_advanced") {
                sim.flags.hit("check_after_clock_jump");
            }
            if !snap.rp.vrps.is_empty() {
                sim.flags.hit("vrps_present");
            }
            Ok(())
        });
        match res {
            Err(o) => o,
            Ok(sim) => {
                let f = &sim.flags;
                for k in [
                    "agg_switch",
                    "roll_at_checkpoint",
                    "two_parents",
                    "check_after_clock_jump",
                    "child_removed",
                    "child_suspended",
                    "entitlement_shrunk",
                    "entitlement_grown",
                    "ca_deleted",
                    "unreachable_allowed",
                    "vrps_present",
                    "aspa_set",
                    "bgpsec_added",
                    "parent_removed",
                ] {
                    if f.has(k) {
                        classes.push(k.to_string());
                    }
                }
                let regain = f.has("entitlement_shrunk") && f.has("entitlement_grown") && f.has("roa_added");
                if regain {
                    classes.push("shrink_and_regain_with_roas".into());
                }
                let nontrivial = f.has("agg_switch")
                    || regain
                    || (f.has("two_parents") && f.has("vrps_present"))
                    || f.has("roll_at_checkpoint")
                    || f.has("check_after_clock_jump")
                    || f.has("child_removed")
                    || f.has("child_suspended");
                classes.push(format!("checks:{}", checks.min(6)));
                let _ = total_advance;
                Outcome::Pass { nontrivial, classes, size: case.n_ops() }
            }
        }
    }

    fn sample(case: &WCase) -> serde_json::Value {
        serde_json::json!({
            "cfg": {"agg": case.cfg.agg, "deagg": case.cfg.deagg, "publish_next_hours": case.cfg.publish_next_hours},
            "setup": case.setup.iter().map(|o| o.short()).collect::<Vec<_>>(),
            "ops": case.ops.iter().map(|o| o.short()).collect::<Vec<_>>(),
        })
    }
}
