//! C09 — Background work is durable and recurring maintenance never stops.
//! (a) task queue against a reference model, (b) stop / crash with tasks
//! pending and running, then the restart procedure.
use std::collections::BTreeSet;

use krill::commons::queue::{Queue, ScheduleMode};
use krill::commons::storage::{Ident, StorageSystem};
use krill::server::mq::Task;
use proptest::collection::vec;
use proptest::prelude::*;
use proptest::strategy::BoxedStrategy;
use serde::{Deserialize, Serialize};

use crate::clock;
use crate::fw::{Ctx, Outcome, Prop, Tier};
use crate::gens::{cfg_strategy, wcase_strategy, WCase, Weights};
use crate::ops::{Fail, Op};
use crate::oracle;
use crate::world::guarded;

pub struct C09;

#[derive(Clone, Debug, Serialize, Deserialize)]
pub enum QOp {
    /// mode 0..5; ts: None = now, Some(offset seconds from now, may be negative)
    Schedule { name: u8, mode: u8, ts: Option<i32> },
    Claim,
    Finish { sel: u16 },
    FinishUnknown,
    Reschedule { sel: u16, ts: Option<i32> },
    RescheduleLong { after_secs: u16 },
    Advance { secs: u16 },
    Reopen,
}

#[derive(Clone, Debug, Serialize, Deserialize)]
pub enum Case {
    Queue { disk: bool, ops: Vec<QOp> },
    Restart { w: WCase, running: u8, clean: bool },
    /// the real daemon stopped with work queued (or marked as running) and started again, see `c09d.rs`
    DaemonRestart(super::c09d::DCase),
}

#[derive(Clone, Debug, PartialEq)]
struct Pending {
    ts: u128,
    name: String,
    value: u64,
}

fn qop() -> impl Strategy<Value = QOp> {
    prop_oneof![
        10 => (0u8..4, 0u8..5, proptest::option::weighted(0.6, -30i32..120)).prop_map(|(name, mode, ts)| QOp::Schedule { name, mode, ts }),
        8 => Just(QOp::Claim),
        4 => any::<u16>().prop_map(|sel| QOp::Finish { sel }),
        1 => Just(QOp::FinishUnknown),
        3 => (any::<u16>(), proptest::option::weighted(0.6, -30i32..120)).prop_map(|(sel, ts)| QOp::Reschedule { sel, ts }),
        1 => (0u16..2000).prop_map(|after_secs| QOp::RescheduleLong { after_secs }),
        4 => (1u16..100).prop_map(|secs| QOp::Advance { secs }),
        1 => Just(QOp::Reopen),
    ]
}

/// The "finish existing" modes remove one running task of the name. When two
/// tasks of one name are running (only possible after a crash left one
/// behind) which of them goes is not specified: follow krill for the choice,
/// but exactly one must go.
fn finish_one_running(q: &Queue, running: &mut Vec<(String, Pending)>, name: &str) {
    let same: Vec<usize> = running.iter().enumerate().filter(|(_, r)| r.1.name == name).map(|(i, _)| i).collect();
    if same.len() <= 1 {
        running.retain(|r| r.1.name != name);
        return;
    }
    let keys: Vec<String> = q.running_tasks_keys().map(|ks| ks.iter().map(|k| k.to_string()).collect()).unwrap_or_default();
    if let Some(gone) = same.iter().find(|i| !keys.contains(&running[**i].0)) {
        running.remove(*gone);
    } else {
        running.remove(same[0]);
    }
}

/// Pending entries (time, name) read from the queue's key-value store.
fn pending_keys(storage: &StorageSystem, ns: &Ident) -> Vec<(u128, String)> {
    let Ok(store) = storage.open(ns) else { return vec![] };
    let scope = Ident::from_str_or_replace("pending");
    let mut out = Vec::new();
    for k in store.keys(Some(scope.as_ref()), "").unwrap_or_default() {
        if let Some((ts, name)) = k.as_str().split_once('-') {
            if let Ok(ts) = ts.parse::<u128>() {
                out.push((ts, name.to_string()));
            }
        }
    }
    out
}

fn now_ms() -> u128 {
    std::time::SystemTime::now().duration_since(std::time::UNIX_EPOCH).map(|d| d.as_millis()).unwrap_or(0)
}

fn run_queue(disk: bool, ops: &[QOp]) -> Outcome {
    clock::reset(0);
    let dir = crate::world::scratch_root().join(format!("q{}", std::process::id()));
    let _ = std::fs::remove_dir_all(&dir);
    let storage = if disk {
        let _ = std::fs::create_dir_all(&dir);
        StorageSystem::new_disk(dir.clone())
    } else {
        static N: std::sync::atomic::AtomicU64 = std::sync::atomic::AtomicU64::new(1);
        StorageSystem::new_memory(Some(((std::process::id() as u64) << 24) | N.fetch_add(1, std::sync::atomic::Ordering::SeqCst)))
    };
    let ns = Ident::make("verifq");
    let mut q = match Queue::create(&storage, ns) {
        Ok(q) => q,
        Err(e) => return Outcome::Harness(format!("queue create: {e}")),
    };
    let names = ["alpha", "beta", "gamma", "sync_x"];
    let mut pending: Vec<Pending> = Vec::new();
    let mut running: Vec<(String, Pending)> = Vec::new(); // (storage key, task)
    let mut counter = 0u64;
    let mut classes: BTreeSet<String> = BTreeSet::new();
    let viol = |clause: &str, key: &str, msg: String| Outcome::Violation { clause: clause.into(), key: key.into(), msg };
    for (i, op) in ops.iter().enumerate() {
        match op {
            QOp::Schedule { name, mode, ts } => {
                let name = names[*name as usize % names.len()].to_string();
                // several pending entries of one name (possible after a reschedule of a running task) make
                // "the existing task" ambiguous; not generated
                if pending.iter().filter(|p| p.name == name).count() > 1 {
                    continue;
                }
                counter += 1;
                let now = now_ms();
                let ts_ms = ts.map(|o| (now as i128 + o as i128 * 1000) as u128);
                let m = match mode % 5 {
                    0 => ScheduleMode::IfMissing,
                    1 => ScheduleMode::ReplaceExisting,
                    2 => ScheduleMode::ReplaceExistingSoonest,
                    3 => ScheduleMode::FinishOrReplaceExisting,
                    _ => ScheduleMode::FinishOrReplaceExistingSoonest,
                };
                let ident = Ident::from_str_or_replace(&name).into_owned();
                let r = guarded(|| q.schedule_task(&ident, &serde_json::json!(counter), ts_ms, m));
                let r = match r {
                    Ok(r) => r,
                    Err(c) => return viol("crash", &super::crash_key(&c.what), c.what),
                };
                if let Err(e) = r {
                    return viol("c09-schedule-fails", "error", format!("op #{i} {op:?}: {e}"));
                }
                // model
                let eff = ts_ms.unwrap_or(now);
                let existing = pending.iter().position(|p| p.name == name);
                let is_running = running.iter().any(|r| r.1.name == name);
                match mode % 5 {
                    0 => {
                        if existing.is_none() && !is_running {
                            pending.push(Pending { ts: eff, name, value: counter });
                        }
                    }
                    1 => {
                        if let Some(p) = existing {
                            pending.remove(p);
                        }
                        pending.push(Pending { ts: eff, name, value: counter });
                    }
                    2 => {
                        let mut t = eff;
                        if let Some(p) = existing {
                            t = t.min(pending[p].ts);
                            pending.remove(p);
                            classes.insert("soonest_with_existing".into());
                        }
                        pending.push(Pending { ts: t, name, value: counter });
                    }
                    3 => {
                        finish_one_running(&q, &mut running, &name);
                        if let Some(p) = existing {
                            pending.remove(p);
                        }
                        pending.push(Pending { ts: eff, name, value: counter });
                    }
                    _ => {
                        if is_running {
                            classes.insert("finish_existing_running".into());
                        }
                        finish_one_running(&q, &mut running, &name);
                        let mut t = eff;
                        if let Some(p) = existing {
                            t = t.min(pending[p].ts);
                            pending.remove(p);
                        }
                        pending.push(Pending { ts: t, name, value: counter });
                    }
                }
                // when ts was None krill reads the clock itself: allow a few ms of slack by re-reading
                if ts.is_none() {
                    if let Some(last) = pending.iter_mut().find(|p| p.value == counter) {
                        if let Ok(Some(actual)) = q.pending_task_scheduled(&Ident::from_str_or_replace(&last.name)) {
                            if actual >= last.ts && actual <= last.ts + 2000 {
                                last.ts = actual;
                            }
                        }
                    }
                }
            }
            QOp::Claim => {
                let now = now_ms();
                let r = match guarded(|| q.claim_scheduled_pending_task()) {
                    Ok(r) => r,
                    Err(c) => return viol("crash", &super::crash_key(&c.what), c.what),
                };
                let got = match r {
                    Ok(g) => g,
                    Err(e) => return viol("c09-claim-fails", "error", format!("op #{i}: {e}")),
                };
                let due: Vec<&Pending> = pending.iter().filter(|p| p.ts <= now).collect();
                match got {
                    None => {
                        // tolerate tasks that became due within the last few ms
                        if due.iter().any(|p| p.ts + 50 <= now) {
                            return viol("c09-claim", "none-although-due", format!("op #{i}: claim returned nothing although {:?} are due (now {now})", due));
                        }
                    }
                    Some((key, value)) => {
                        let Some((_, name)) = key.as_str().split_once('-') else {
                            return viol("c09-claim", "bad-key", format!("claim returned key {key}"));
                        };
                        let v = value.as_u64().unwrap_or(0);
                        let Some(pos) = pending.iter().position(|p| p.name == name && p.value == v) else {
                            return viol("c09-claim", "unknown-task", format!("op #{i}: claim returned {key} = {value}, which is not a pending task of the model {pending:?}"));
                        };
                        let claimed = pending[pos].clone();
                        if claimed.ts > now + 5 {
                            return viol("c09-claim", "not-due", format!("op #{i}: claimed {claimed:?} which is not due (now {now})"));
                        }
                        let earliest = pending.iter().filter(|p| p.ts <= now).map(|p| p.ts).min().unwrap_or(claimed.ts);
                        if claimed.ts > earliest {
                            return viol("c09-claim", "not-earliest", format!("op #{i}: claimed {claimed:?} although a task due at {earliest} is pending: {pending:?}"));
                        }
                        if due.len() > 1 {
                            classes.insert("claim_among_several_due".into());
                        }
                        pending.remove(pos);
                        running.push((key.to_string(), claimed));
                    }
                }
            }
            QOp::Finish { sel } => {
                if let Some(idx) = crate::ops::pick::<()>(*sel, running.len()) {
                    let key = running[idx].0.clone();
                    let ident = Ident::from_str_or_replace(&key).into_owned();
                    let r = guarded(|| q.finish_running_task(&ident));
                    match r {
                        Err(c) => return viol("crash", &super::crash_key(&c.what), c.what),
                        Ok(Err(e)) => return viol("c09-finish", "running-task-refused", format!("op #{i}: finishing running task {key} failed: {e}")),
                        Ok(Ok(())) => {
                            running.remove(idx);
                        }
                    }
                }
            }
            QOp::FinishUnknown => {
                let ident = Ident::from_str_or_replace("12345-nosuchtask").into_owned();
                if let Ok(Ok(())) = guarded(|| q.finish_running_task(&ident)) {
                    return viol("c09-finish", "non-running-accepted", format!("op #{i}: finishing a task that is not running succeeded"));
                }
            }
            QOp::Reschedule { sel, ts } => {
                if let Some(idx) = crate::ops::pick::<()>(*sel, running.len()) {
                    let name = running[idx].1.name.clone();
                    if let Some(ppos) = pending.iter().position(|p| p.name == name) {
                        // A follow-up of the same name was scheduled while this task ran (a change was committed in the
                        // meantime). Re-scheduling the running task must keep the earlier of the two times: the follow-up
                        // stays pending at its own time (krill keeps both entries) or the two are merged at the earlier
                        // time. The model does not follow two pending entries of one name any further: last step of the case.
                        let old_ts = pending[ppos].ts;
                        let key = running[idx].0.clone();
                        let now = now_ms();
                        let ts_ms = ts.map(|o| (now as i128 + o as i128 * 1000) as u128);
                        let ident = Ident::from_str_or_replace(&key).into_owned();
                        match guarded(|| q.reschedule_running_task(&ident, ts_ms)) {
                            Err(c) => return viol("crash", &super::crash_key(&c.what), c.what),
                            Ok(Err(e)) => return viol("c09-reschedule", "running-task-refused", format!("op #{i}: {e}")),
                            Ok(Ok(())) => {}
                        }
                        let entries: Vec<u128> = pending_keys(&storage, ns).into_iter().filter(|(_, n)| *n == name).map(|(t, _)| t).collect();
                        let new_ts = ts_ms.unwrap_or(now);
                        match entries.iter().min() {
                            None => return viol("c09-reschedule", "follow-up-and-task-lost", format!("op #{i}: after re-scheduling running task {key} while a task of the same name was pending at {old_ts}, nothing of that name is pending")),
                            Some(min) if *min > old_ts => {
                                return viol(
                                    "c09-reschedule",
                                    "earlier-follow-up-lost",
                                    format!("op #{i}: task {name} was pending at {old_ts} (scheduled while a task of that name was running); the running one was re-scheduled to {new_ts}; now the earliest pending entry of that name is at {min}: the earlier of the two times was not kept (entries {entries:?})"),
                                )
                            }
                            Some(_) => {}
                        }
                        classes.insert("reschedule_with_pending_follow_up".into());
                        let _ = std::fs::remove_dir_all(&dir);
                        let mut cl: Vec<String> = classes.into_iter().collect();
                        cl.push(if disk { "queue:disk".into() } else { "queue:memory".into() });
                        return Outcome::Pass { nontrivial: true, classes: cl, size: i + 1 };
                    }
                    let key = running[idx].0.clone();
                    let now = now_ms();
                    let ts_ms = ts.map(|o| (now as i128 + o as i128 * 1000) as u128);
                    let ident = Ident::from_str_or_replace(&key).into_owned();
                    match guarded(|| q.reschedule_running_task(&ident, ts_ms)) {
                        Err(c) => return viol("crash", &super::crash_key(&c.what), c.what),
                        Ok(Err(e)) => return viol("c09-reschedule", "running-task-refused", format!("op #{i}: {e}")),
                        Ok(Ok(())) => {
                            let (_, mut t) = running.remove(idx);
                            t.ts = ts_ms.unwrap_or(now);
                            if ts.is_none() {
                                if let Ok(Some(actual)) = q.pending_task_scheduled(&Ident::from_str_or_replace(&t.name)) {
                                    t.ts = actual;
                                }
                            }
                            pending.push(t);
                            classes.insert("rescheduled".into());
                        }
                    }
                }
            }
            QOp::RescheduleLong { after_secs } => {
                // a running task whose name is also pending would give two
                // pending entries of one name: not generated
                if running.iter().any(|r| pending.iter().any(|p| p.name == r.1.name)) || {
                    let mut names: Vec<&String> = running.iter().map(|r| &r.1.name).collect();
                    names.sort();
                    let n = names.len();
                    names.dedup();
                    names.len() != n
                } {
                    continue;
                }
                let now = now_ms();
                let r = guarded(|| q.reschedule_long_running_tasks(Some(std::time::Duration::from_secs(*after_secs as u64))));
                match r {
                    Err(c) => return viol("crash", &super::crash_key(&c.what), c.what),
                    Ok(Err(e)) => return viol("c09-reschedule-long", "error", format!("op #{i}: {e}")),
                    Ok(Ok(())) => {}
                }
                let limit = now.saturating_sub(*after_secs as u128 * 1000);
                let mut keep = Vec::new();
                for (key, t) in running.drain(..) {
                    let kts: u128 = key.split_once('-').and_then(|x| x.0.parse().ok()).unwrap_or(u128::MAX);
                    // boundary (within 50 ms) is left to krill's reading of the clock
                    if kts + 50 <= limit && !pending.iter().any(|p| p.name == t.name) {
                        let mut t = t;
                        t.ts = q.pending_task_scheduled(&Ident::from_str_or_replace(&t.name)).ok().flatten().unwrap_or(now);
                        pending.push(t);
                        classes.insert("long_running_requeued".into());
                    } else if kts <= limit + 50 {
                        // ambiguous: follow krill
                        let still = q.running_tasks_keys().map(|ks| ks.iter().any(|k| k.as_str() == key)).unwrap_or(true);
                        if still {
                            keep.push((key, t));
                        } else {
                            let mut t = t;
                            t.ts = q.pending_task_scheduled(&Ident::from_str_or_replace(&t.name)).ok().flatten().unwrap_or(now);
                            pending.push(t);
                        }
                    } else {
                        keep.push((key, t));
                    }
                }
                running = keep;
            }
            QOp::Advance { secs } => clock::advance(*secs as i64),
            QOp::Reopen => {
                q = match Queue::create(&storage, ns) {
                    Ok(q) => q,
                    Err(e) => return viol("c09-reopen", "error", format!("{e}")),
                };
                classes.insert("reopened".into());
            }
        }
        // invariant: pending and running sets equal the model
        let p = q.pending_tasks_remaining().unwrap_or(usize::MAX);
        let r = q.running_tasks_remaining().unwrap_or(usize::MAX);
        if p != pending.len() || r != running.len() {
            return viol(
                "c09-queue-state",
                if p < pending.len() || r < running.len() { "task-lost" } else { "task-duplicated" },
                format!("after op #{i} {op:?}: queue has {p} pending / {r} running, model has {} / {}: {pending:?} {running:?}", pending.len(), running.len()),
            );
        }
        for t in &pending {
            let ts = q.pending_task_scheduled(&Ident::from_str_or_replace(&t.name)).ok().flatten();
            if ts != Some(t.ts) && pending.iter().filter(|x| x.name == t.name).count() == 1 {
                return viol("c09-queue-state", "wrong-time", format!("after op #{i} {op:?}: task {} is scheduled at {ts:?}, model says {}", t.name, t.ts));
            }
        }
    }
    let _ = std::fs::remove_dir_all(&dir);
    let mut cl: Vec<String> = classes.into_iter().collect();
    cl.push(if disk { "queue:disk".into() } else { "queue:memory".into() });
    let nontrivial = cl.iter().any(|c| c == "soonest_with_existing" || c == "claim_among_several_due" || c == "finish_existing_running");
    Outcome::Pass { nontrivial, classes: cl, size: ops.len() }
}

fn fail_outcome(f: Fail, what: &str) -> Outcome {
    super::c10::fail_outcome(f, what)
}

fn run_restart(w: &WCase, running_n: u8, clean: bool) -> Outcome {
    let mut stop_state: Option<(BTreeSet<String>, BTreeSet<String>)> = None;
    let n = w.ops.len();
    let mut idx = 0;
    let mut staged_seen = 0;
    let res = super::run_wcase(w, |sim, _op, setup| {
        if setup {
            return Ok(());
        }
        // a publication that RRDP does not show yet has its update task queued
        if sim.w.is_some() && oracle::check_rrdp_followup_queued(sim)? {
            staged_seen += 1;
        }
        idx += 1;
        if idx == n && n > 1 {
            // after the final convergence: every committed change's follow-up ran
            return oracle::check_c01(sim).map(|_| ());
        }
        if idx != n - 1 && n > 1 {
            return Ok(());
        }
        // the daemon stops here (before the final checkpoint, while work is still queued): cleanly, or while exactly `running_n` tasks are running
        if !clean {
            for _ in 0..running_n {
                let rt = sim.w().rt.clone();
                let _ = rt.tasks().pop();
            }
        }
        let pending: BTreeSet<String> = sim.w().pending_tasks().into_iter().map(|t| t.1).collect();
        let running: BTreeSet<String> = sim.w().running_tasks().into_iter().map(|t| t.1).collect();
        stop_state = Some((pending.clone(), running.clone()));
        // restart procedure of StartupManager::run_scheduler
        let world = sim.w.take().unwrap();
        let world = world.restart().map_err(|e| oracle::bad("c09-restart", "fails", e))?;
        world.rt.tasks().reschedule_tasks_at_startup().map_err(|e| oracle::bad("c09-restart", "reschedule-fails", e.to_string()))?;
        world.schedule(Task::QueueStartTasks).map_err(|e| oracle::bad("harness", "schedule", e))?;
        sim.w = Some(world);
        // every task that was pending or running is pending again
        let after: BTreeSet<String> = sim.w().pending_tasks().into_iter().map(|t| t.1).collect();
        let still_running: BTreeSet<String> = sim.w().running_tasks().into_iter().map(|t| t.1).collect();
        for t in pending.iter().chain(running.iter()) {
            if !after.contains(t) {
                let was_running = running.contains(t);
                return Err(oracle::bad(
                    "c09-restart",
                    if was_running { if running.len() == 1 { "single-running-task-not-requeued" } else { "running-task-not-requeued" } } else { "pending-task-lost" },
                    format!("task {t} was {} when the daemon stopped but is not pending after the restart procedure (pending: {after:?}; still marked running: {still_running:?})", if was_running { "running" } else { "pending" }),
                ));
            }
        }
        // run: everything due gets executed, recurring tasks are scheduled again
        let latest = sim.w().pending_tasks().iter().map(|t| t.0).max().unwrap_or(0);
        let now = (clock::now_s() as u128) * 1000;
        let mark = sim.w().task_trace.len();
        sim.quiesce().map_err(|f| oracle::bad("no-quiescence", "restart", format!("{f:?}")))?;
        if latest > now && latest - now < 3 * 86400 * 1000 && sim.advance_budget > ((latest - now) / 1000) as i64 + 10 {
            let secs = ((latest - now) / 1000) as i64 + 2;
            sim.advance_budget -= secs;
            clock::advance(secs);
            sim.quiesce().map_err(|f| oracle::bad("no-quiescence", "restart", format!("{f:?}")))?;
            let executed: BTreeSet<String> = sim.w().task_trace[mark..].iter().cloned().collect();
            for t in pending.iter().chain(running.iter()) {
                // tasks of deleted CAs are dropped legitimately
                let ca_gone = sim.cas_ever.iter().any(|c| !sim.model.cas.contains_key(c) && t.contains(c.as_str()));
                if !executed.contains(t) && !ca_gone {
                    return Err(oracle::bad("c09-restart", "task-not-executed", format!("task {t} was pending or running at the stop but was not executed after the restart although it is due")));
                }
            }
        }
        let recurring: BTreeSet<String> = sim.w().pending_tasks().into_iter().map(|t| t.1).collect();
        for r in ["all_cas_republish_if_needed", "all_cas_renew_objects_if_needed", "update_stored_snapshots"] {
            if !recurring.iter().any(|t| t.starts_with(r)) {
                return Err(oracle::bad("c09-recurring", "missing", format!("recurring task {r} is not scheduled after a start (pending: {recurring:?})")));
            }
        }
        for (ca, m) in &sim.model.cas {
            for p in &m.parents {
                let name = format!("sync_{ca}_with_parent_{p}");
                if !recurring.contains(&name) {
                    return Err(oracle::bad("c09-recurring", "missing-parent-sync", format!("parent refresh {name} is not scheduled after a start (pending: {recurring:?})")));
                }
            }
        }
        // every committed change's follow-up ran: the C01 oracle holds
        sim.converge().map_err(|f| oracle::bad("no-quiescence", "restart", format!("{f:?}")))?;
        oracle::check_c01(sim).map(|_| ())
    });
    match res {
        Err(o) => o,
        Ok(sim) => {
            let (p, r) = stop_state.unwrap_or_default();
            let mut classes = vec![format!("stopped_with_running:{}", r.len().min(3)), if clean { "clean_stop".to_string() } else { "crash_stop".to_string() }];
            if !p.is_empty() {
                classes.push("stopped_with_pending".into());
            }
            if staged_seen > 0 {
                classes.push("rrdp_followup_checked_with_staged_content".into());
            }
            for f in ["request_before_task_finish", "request_before_task_work", "foreign_publication"] {
                if sim.flags.has(f) {
                    classes.push(f.to_string());
                }
            }
            Outcome::Pass { nontrivial: !r.is_empty(), classes, size: w.n_ops() }
        }
    }
}

impl Prop for C09 {
    type Case = Case;
    const ID: &'static str = "C09";

    fn strategy(tier: Tier) -> BoxedStrategy<Case> {
        let (qn, wn) = match tier {
            Tier::Quick => (5..60, 4..24),
            Tier::Thorough => (5..120, 4..40),
        };
        let w = Weights { check: 0, quiesce: 2, pump: 10, publisher: 0, restart: 1, ca_delete: 1, overlap: 10, foreign: 6, max_advance: 2 * 86400, ..Weights::default() };
        let dop = || {
            use super::c09d::DOp;
            prop_oneof![
                6 => (0u8..8).prop_map(|slot| DOp::RoaAdd { slot }),
                2 => (0u8..8).prop_map(|slot| DOp::RoaRemove { slot }),
                2 => vec(1u8..7, 1..3).prop_map(|providers| DOp::Aspa { providers }),
                1 => Just(DOp::KeyrollInit),
                1 => Just(DOp::Settle),
            ]
        };
        prop_oneof![
            2 => (any::<u16>(), vec(dop(), 1..6), 0u8..4, vec(dop(), 0..4)).prop_map(|(key_start, before, running, after)| Case::DaemonRestart(super::c09d::DCase { key_start, before, running, after })),
            90 => (any::<bool>(), vec(qop(), qn)).prop_map(|(disk, ops)| Case::Queue { disk, ops }),
            30 => (wcase_strategy(cfg_strategy(Just(true).boxed(), false), w, 4, wn), 0u8..4, prop_oneof![1 => Just(true), 3 => Just(false)])
                .prop_map(|(w, running, clean)| Case::Restart { w, running, clean }),
        ]
        .boxed()
    }

    fn run(case: &Case, _ctx: &Ctx) -> Outcome {
        match case {
            Case::Queue { disk, ops } => run_queue(*disk, ops),
            Case::Restart { w, running, clean } => run_restart(w, *running, *clean),
            Case::DaemonRestart(c) => super::c09d::run_daemon_restart(c),
        }
    }

    fn sample(case: &Case) -> serde_json::Value {
        match case {
            Case::Queue { disk, ops } => serde_json::json!({"queue": {"disk": disk, "ops": ops.iter().map(|o| format!("{o:?}")).collect::<Vec<_>>()}}),
            Case::Restart { w, running, clean } => serde_json::json!({"restart": {"running_at_stop": running, "clean": clean, "ops": w.ops.iter().map(|o: &Op| o.short()).collect::<Vec<_>>()}}),
            Case::DaemonRestart(c) => serde_json::json!({"daemon_restart": {"before": c.before.iter().map(|o| format!("{o:?}")).collect::<Vec<_>>(), "left_running": c.running, "after": c.after.iter().map(|o| format!("{o:?}")).collect::<Vec<_>>()}}),
        }
    }
}
