//! C15 — Trust-anchor proxy and signer only accept each other's fresh
//! messages.
//!
//! Engine: a krill instance that runs the TA proxy only (`ta_signer_enabled =
//! false`) and stand-alone signers (`krillta signer`'s manager type) with
//! their own storage and keys, as in a production deployment. The harness
//! carries the request and response files between them and may replay,
//! re-order, cross-wire, modify and forge them.
use std::collections::{BTreeMap, BTreeSet};
use std::str::FromStr;

use bytes::Bytes;
use krill::api::admin::RepositoryContact;
use krill::api::ca::IdCertInfo;
use krill::api::ta::{TrustAnchorSignedRequest, TrustAnchorSignedResponse};
use krill::cli::ta::signer::{SignerInitInfo, TrustAnchorSignerManager};
use proptest::collection::vec;
use proptest::prelude::*;
use proptest::strategy::BoxedStrategy;
use rpki::ca::idexchange::CaHandle;
use rpki::crypto::KeyIdentifier;
use rpki::uri;
use serde::{Deserialize, Serialize};
use serde_json::Value;

use crate::clock;
use crate::fw::{Ctx, Outcome, Prop, Tier};
use crate::ops::{resources_of, Fail};
use crate::oracle::{bad, Bad};
use crate::rp;
use crate::world::{guarded, World, WorldCfg};

pub struct C15;

#[derive(Clone, Debug, Serialize, Deserialize, PartialEq)]
pub enum ReqSel {
    Current,
    Old(u8),
    /// the current request's content signed with a key that is not the proxy's
    ForgedWrongKey,
    /// clear-text content changed, signed part untouched
    TamperedClear(u16),
    /// one bit of the signed message flipped
    TamperedSigned(u16),
}

#[derive(Clone, Debug, Serialize, Deserialize, PartialEq)]
pub enum RespSel {
    Latest,
    Old(u8),
    /// an old response whose clear-text nonce is replaced by the open one
    OldWithOpenNonce(u8),
    /// latest response's content (with the open nonce) signed with a key that is not the signer's
    ForgedWrongKey,
    TamperedClear(u16),
    TamperedSigned(u16),
}

#[derive(Clone, Debug, Serialize, Deserialize, PartialEq)]
pub enum TOp {
    AddChild { ca: u8, res: u16 },
    Keyroll { ca: u8, activate: bool },
    Pump { n: u8 },
    Quiesce,
    MakeRequest,
    /// signer 0: the associated one; 1: a signer set up for another proxy
    Sign { signer: u8, req: ReqSel },
    Deliver { resp: RespSel },
    HonestExchange,
    ReinitSigner,
    Advance { secs: u32 },
    /// one jump over the re-request threshold of the certificates the TA issued (at most once per case)
    AdvanceDays { days: u8 },
}

#[derive(Clone, Debug, Serialize, Deserialize)]
pub struct Case {
    pub key_start: u16,
    pub ops: Vec<TOp>,
}

fn top() -> impl Strategy<Value = TOp> {
    let req = prop_oneof![
        6 => Just(ReqSel::Current),
        2 => (0u8..4).prop_map(ReqSel::Old),
        2 => Just(ReqSel::ForgedWrongKey),
        2 => any::<u16>().prop_map(ReqSel::TamperedClear),
        2 => any::<u16>().prop_map(ReqSel::TamperedSigned),
    ];
    let resp = prop_oneof![
        6 => Just(RespSel::Latest),
        3 => (0u8..4).prop_map(RespSel::Old),
        3 => (0u8..4).prop_map(RespSel::OldWithOpenNonce),
        2 => Just(RespSel::ForgedWrongKey),
        2 => any::<u16>().prop_map(RespSel::TamperedClear),
        2 => any::<u16>().prop_map(RespSel::TamperedSigned),
    ];
    prop_oneof![
        4 => (0u8..3, 1u16..0x7fff).prop_map(|(ca, res)| TOp::AddChild { ca, res }),
        3 => (0u8..3, any::<bool>()).prop_map(|(ca, activate)| TOp::Keyroll { ca, activate }),
        3 => (1u8..8).prop_map(|n| TOp::Pump { n }),
        3 => Just(TOp::Quiesce),
        6 => Just(TOp::MakeRequest),
        8 => (prop_oneof![4 => Just(0u8), 1 => Just(1u8)], req).prop_map(|(signer, req)| TOp::Sign { signer, req }),
        10 => resp.prop_map(|resp| TOp::Deliver { resp }),
        4 => Just(TOp::HonestExchange),
        1 => Just(TOp::ReinitSigner),
        1 => (1u32..86400).prop_map(|secs| TOp::Advance { secs }),
        3 => (7u8..10).prop_map(|days| TOp::AdvanceDays { days }),
    ]
}

fn h(e: impl std::fmt::Display) -> Fail {
    Fail::Harness(e.to_string())
}

struct SignerBox {
    mgr: TrustAnchorSignerManager,
    /// does this signer belong to our proxy?
    ours: bool,
}

struct Produced {
    signer: usize,
    resp: TrustAnchorSignedResponse,
    /// content and signature as made by the signer
    genuine: bool,
}

struct TaWorld {
    w: World,
    signers: Vec<SignerBox>,
    /// index of the signer registered at the proxy
    associated: usize,
    foreign: Option<usize>,
    ta_key_pem: String,
    other_proxy_id: rpki::ca::idcert::IdCert,
    other_key: KeyIdentifier,
    requests: Vec<TrustAnchorSignedRequest>,
    responses: Vec<Produced>,
    last_mft: Option<u128>,
    children: BTreeSet<String>,
    stats: BTreeMap<String, usize>,
    signer_nr: u64,
}

fn ta() -> CaHandle {
    CaHandle::from_str("ta").unwrap()
}

/// Applies `f` to the k-th scalar leaf below `v` (skipping members named in `skip`).
fn mutate_leaf(v: &mut Value, sel: u16, skip: &[&str]) -> bool {
    fn count(v: &Value, skip: &[&str]) -> usize {
        match v {
            Value::Object(m) => m.iter().filter(|(k, _)| !skip.contains(&k.as_str())).map(|(_, x)| count(x, skip)).sum(),
            Value::Array(a) => a.iter().map(|x| count(x, skip)).sum(),
            Value::Null => 0,
            _ => 1,
        }
    }
    fn go(v: &mut Value, n: &mut usize, skip: &[&str]) -> bool {
        match v {
            Value::Object(m) => {
                for (k, x) in m.iter_mut() {
                    if skip.contains(&k.as_str()) {
                        continue;
                    }
                    if go(x, n, skip) {
                        return true;
                    }
                }
                false
            }
            Value::Array(a) => a.iter_mut().any(|x| go(x, n, skip)),
            Value::Null => false,
            _ => {
                if *n == 0 {
                    *v = match &*v {
                        Value::Number(x) => serde_json::json!(x.as_u64().unwrap_or(0) + 1),
                        Value::Bool(b) => Value::Bool(!*b),
                        Value::String(s) => {
                            // keep the kind of text: change one alphanumeric character
                            let mut cs: Vec<char> = s.chars().collect();
                            match cs.iter().rposition(|c| c.is_ascii_alphanumeric()) {
                                Some(i) => {
                                    cs[i] = if cs[i] == '1' { '2' } else if cs[i].is_ascii_digit() { '1' } else if cs[i] == 'A' { 'B' } else { 'A' };
                                }
                                None => cs.push('A'),
                            }
                            Value::String(cs.into_iter().collect())
                        }
                        x => x.clone(),
                    };
                    true
                } else {
                    *n -= 1;
                    false
                }
            }
        }
    }
    let total = count(v, skip);
    if total == 0 {
        return false;
    }
    let mut n = (sel as usize * total) >> 16;
    go(v, &mut n, skip)
}

/// Flips one bit in the base64 body at `path` (keeping it valid base64).
fn flip_signed(v: &mut Value, sel: u16) -> bool {
    use base64::Engine;
    let Some(msg) = v.get_mut("signed").and_then(|s| s.get_mut("message")) else { return false };
    let Some(s) = msg.as_str() else { return false };
    let Ok(mut der) = base64::engine::general_purpose::STANDARD.decode(s.as_bytes()) else { return false };
    if der.is_empty() {
        return false;
    }
    let bits = der.len() * 8;
    let i = (sel as usize * bits) >> 16;
    der[i / 8] ^= 1 << (i % 8);
    *msg = Value::String(base64::engine::general_purpose::STANDARD.encode(der));
    true
}

/// The content that a signed message carries (without validating it).
fn signed_content(v: &Value) -> Option<Vec<u8>> {
    use base64::Engine;
    let s = v.get("signed")?.get("message")?.as_str()?;
    let der = base64::engine::general_purpose::STANDARD.decode(s.as_bytes()).ok()?;
    let m = rpki::ca::sigmsg::SignedMessage::decode(Bytes::from(der), true).ok()?;
    Some(m.content().to_bytes().to_vec())
}

impl TaWorld {
    fn hit(&mut self, k: &str) {
        *self.stats.entry(k.to_string()).or_default() += 1;
    }

    fn new_signer(&mut self, proxy_id: IdCertInfo, pem: Option<String>, mft_override: Option<u64>) -> Result<TrustAnchorSignerManager, Fail> {
        self.signer_nr += 1;
        let toml = format!(
            "storage_uri = \"memory:{}\"\nlog_type = \"stderr\"\nlog_level = \"off\"\n",
            (self.w.mem_seed << 8) | (128 + self.signer_nr)
        );
        let cfg = krill::tasigner::Config::parse_str(&toml).map_err(h)?;
        let mgr = TrustAnchorSignerManager::create(cfg).map_err(h)?;
        let contact = self.w.cam().ta_proxy_repository_contact().map_err(h)?;
        mgr.init(SignerInitInfo {
            proxy_id,
            repo_info: contact.repo_info,
            tal_https: vec![uri::Https::from_str("https://krill.example.org/ta/ta.cer").unwrap()],
            tal_rsync: uri::Rsync::from_str("rsync://krill.example.org/ta/ta.cer").unwrap(),
            private_key_pem: pem,
            ta_mft_nr_override: mft_override,
        })
        .map_err(h)?;
        Ok(mgr)
    }

    fn new(key_start: usize) -> Result<Self, Fail> {
        // certificates issued by the TA live three weeks and are re-requested by the child one week after issue:
        // a jump of the clock makes every child ask again for the key it uses
        let cfg = WorldCfg { remote_signer: true, ta_issued_valid_weeks: 3, ta_issued_reissue_weeks: 2, ..WorldCfg::default() };
        let w = World::new(cfg, key_start).map_err(Fail::Harness)?;
        let pem = String::from_utf8(krill::commons::verif::pool_key().ok_or_else(|| Fail::Harness("no pool key".into()))?).map_err(h)?;
        let other_proxy_id = w.rt.signer().create_self_signed_id_cert().map_err(h)?;
        let other_key = other_proxy_id.public_key().key_identifier();
        let mut this = TaWorld {
            w,
            signers: vec![],
            associated: 0,
            foreign: None,
            ta_key_pem: pem,
            other_proxy_id,
            other_key,
            requests: vec![],
            responses: vec![],
            last_mft: None,
            children: Default::default(),
            stats: Default::default(),
            signer_nr: 0,
        };
        guarded(|| this.setup()).map_err(|c| Fail::Crash(c.what))??;
        Ok(this)
    }

    fn setup(&mut self) -> Result<(), Fail> {
        let uris = krill::api::admin::PublicationServerUris {
            rrdp_base_uri: uri::Https::from_str("https://krill.example.org/rrdp/").unwrap(),
            rsync_jail: uri::Rsync::from_str("rsync://krill.example.org/repo/").unwrap(),
        };
        self.w.repo().init(uris, &self.w.rt).map_err(h)?;
        let cam = self.w.cam();
        cam.ta_proxy_init(&self.w.rt).map_err(h)?;
        let pub_req = cam.ta_proxy_publisher_request().map_err(h)?;
        self.w.repo().create_publisher(pub_req, &self.w.actor).map_err(h)?;
        let resp = self.w.repo().repository_response(&ta().convert(), &self.w.rt).map_err(h)?;
        let contact = RepositoryContact::try_from_response(resp).map_err(h)?;
        cam.ta_proxy_repository_update(contact, &self.w.actor, &self.w.rt).map_err(h)?;
        let proxy_id = self.w.cam().ta_proxy_id().map_err(h)?;
        let pem = self.ta_key_pem.clone();
        let a = self.new_signer(proxy_id, Some(pem), None)?;
        let info = a.show().map_err(h)?;
        self.signers.push(SignerBox { mgr: a, ours: true });
        self.w.cam().ta_proxy_signer_add(info, &self.w.actor, &self.w.rt).map_err(h)?;
        // the first exchange publishes the TA's manifest and CRL
        self.honest_exchange()?.map_err(|b| Fail::Harness(format!("initial exchange: {}", b.2)))?;
        Ok(())
    }

    fn proxy_json(&self) -> Result<Value, Fail> {
        let p = self.w.cam().get_trust_anchor_proxy().map_err(h)?;
        let mut v = serde_json::to_value(&*p).map_err(h)?;
        if let Some(m) = v.as_object_mut() {
            m.remove("version");
        }
        Ok(v)
    }

    /// (child, key) of every response the proxy holds for collection by a child.
    fn open_responses(v: &Value) -> BTreeSet<(String, String)> {
        let mut out = BTreeSet::new();
        if let Some(m) = v.get("child_details").and_then(|c| c.as_object()) {
            for (child, d) in m {
                if let Some(o) = d.get("open_responses").and_then(|x| x.as_object()) {
                    for k in o.keys() {
                        out.insert((child.clone(), k.clone()));
                    }
                }
            }
        }
        out
    }

    /// "Delivered to that child exactly once": a response waits at the proxy until the child collects it.
    /// Processing a signer response runs no child task, so it can only add to what waits.
    fn check_nothing_dropped(&mut self, before: &Value) -> Result<Result<(), Bad>, Fail> {
        let after = self.proxy_json()?;
        let b = Self::open_responses(before);
        let a = Self::open_responses(&after);
        if std::env::var("KVH_C15_DEBUG").is_ok() {
            eprintln!("processed a response: waiting before {b:?} after {a:?}");
        }
        let lost: Vec<&(String, String)> = b.difference(&a).collect();
        if !lost.is_empty() {
            return Ok(Err(bad("c15-delivery", "response-dropped-before-collection", format!("responses waiting for collection disappeared when another signer response was processed: {lost:?} (waiting before: {b:?}, after: {a:?})"))));
        }
        if !b.is_empty() && a.len() > b.len() {
            self.hit("response_accepted_while_earlier_ones_wait_for_collection");
        }
        if a.difference(&b).any(|(child, key)| b.iter().any(|(c2, k2)| c2 == child && k2 != key)) {
            self.hit("second_key_of_a_child_answered_while_the_first_waits_for_collection");
        }
        Ok(Ok(()))
    }

    fn open_nonce(&self) -> Result<Option<String>, Fail> {
        let v = self.proxy_json()?;
        Ok(v.get("open_signer_request").and_then(|x| x.as_str()).map(|s| s.to_string()))
    }

    fn signer_exchanges(&self, i: usize) -> usize {
        self.signers[i].mgr.show_exchanges().map(|e| serde_json::to_value(&e).ok().and_then(|v| v.as_array().map(|a| a.len())).unwrap_or(0)).unwrap_or(0)
    }

    fn sync_ta_repo(&mut self) -> Result<(), Fail> {
        guarded(|| self.w.cam().cas_repo_sync_single(&ta(), 0, &self.w.slow).map(|_| ()).map_err(|e| e.to_string())).map_err(|c| Fail::Crash(c.what))?.map_err(Fail::Harness)
    }

    /// The TA's manifest number as a relying party sees it.
    fn check_numbers(&mut self) -> Result<Result<(), Bad>, Fail> {
        let served = self.w.served().map_err(Fail::Harness)?;
        let Ok((cert, tal)) = self.w.ta_cert_and_tal() else { return Ok(Ok(())) };
        let rep = rp::validate(&cert, &tal, &served, clock::now_s());
        let Some(pp) = rep.pps.iter().find(|p| p.ca_uri == "ta.cer") else { return Ok(Ok(())) };
        let n: u128 = pp.mft_number.parse().unwrap_or(0);
        let c: u128 = pp.crl_number.parse().unwrap_or(0);
        if n != c {
            return Ok(Err(bad("c15-numbers", "mft-vs-crl", format!("TA manifest number {n} but CRL number {c}"))));
        }
        if let Some(prev) = self.last_mft {
            if n < prev {
                return Ok(Err(bad("c15-numbers", "decreased", format!("TA manifest number went from {prev} to {n}"))));
            }
        }
        self.last_mft = Some(n);
        Ok(Ok(()))
    }

    fn make_request(&mut self) -> Result<Result<(), Bad>, Fail> {
        let open = self.open_nonce()?;
        let before = self.proxy_json()?;
        let res = guarded(|| self.w.cam().ta_proxy_signer_make_request(&self.w.actor, &self.w.rt).map_err(|e| e.to_string())).map_err(|c| Fail::Crash(c.what))?;
        match (open, res) {
            (Some(n), Ok(_)) => Ok(Err(bad("c15-second-open-request", "accepted", format!("a new signer request was made while request {n} was open")))),
            (Some(_), Err(_)) => {
                if before != self.proxy_json()? {
                    return Ok(Err(bad("c15-refused-changed-state", "make-request", "refused make-request changed the proxy".into())));
                }
                self.hit("second_request_refused");
                Ok(Ok(()))
            }
            (None, Err(e)) => Ok(Err(bad("c15-request", "refused", format!("no request is open but making one failed: {e}")))),
            (None, Ok(req)) => {
                let nonce = req.request.nonce.to_string();
                if self.open_nonce()?.as_deref() != Some(nonce.as_str()) {
                    return Ok(Err(bad("c15-request", "nonce", "the open request of the proxy is not the one it handed out".into())));
                }
                if self.requests.iter().any(|r| r.request.nonce.to_string() == nonce) {
                    return Ok(Err(bad("c15-request", "nonce-reused", format!("nonce {nonce} was used before"))));
                }
                self.requests.push(req.into());
                self.hit("request_made");
                Ok(Ok(()))
            }
        }
    }

    fn foreign_signer(&mut self) -> Result<usize, Fail> {
        if let Some(i) = self.foreign {
            return Ok(i);
        }
        let id = IdCertInfo::from(&self.other_proxy_id);
        let m = self.new_signer(id, None, None)?;
        self.signers.push(SignerBox { mgr: m, ours: false });
        self.foreign = Some(self.signers.len() - 1);
        Ok(self.signers.len() - 1)
    }

    fn sign(&mut self, signer: u8, sel: &ReqSel) -> Result<Result<(), Bad>, Fail> {
        if self.requests.is_empty() {
            return Ok(Ok(()));
        }
        let si = if signer == 0 { self.associated } else { self.foreign_signer()? };
        let ours = self.signers[si].ours;
        let current = self.requests.last().unwrap().clone();
        let mut tolerant = false;
        // (request, was signed by our proxy with this content)
        let (req, by_our_proxy): (TrustAnchorSignedRequest, bool) = match sel {
            ReqSel::Current => (current, true),
            ReqSel::Old(k) => {
                let i = (*k as usize) % self.requests.len();
                (self.requests[i].clone(), true)
            }
            ReqSel::ForgedWrongKey => {
                let r = current.request.sign(self.other_key, 14, self.w.rt.signer()).map_err(h)?;
                (r, false)
            }
            ReqSel::TamperedClear(s) => {
                let mut v = serde_json::to_value(&current).map_err(h)?;
                let changed = v.get_mut("request").map(|r| mutate_leaf(r, *s, &[])).unwrap_or(false);
                match serde_json::from_value::<TrustAnchorSignedRequest>(v) {
                    Ok(r) if changed && r.request != current.request => (r, false),
                    _ => return Ok(Ok(())),
                }
            }
            ReqSel::TamperedSigned(s) => {
                let orig = serde_json::to_value(&current).map_err(h)?;
                let mut v = orig.clone();
                if !flip_signed(&mut v, *s) {
                    return Ok(Ok(()));
                }
                // a flipped bit outside what the signature covers leaves the identical
                // message: accepting that is accepting the genuine message
                tolerant = signed_content(&v).is_some() && signed_content(&v) == signed_content(&orig);
                match serde_json::from_value::<TrustAnchorSignedRequest>(v) {
                    Ok(r) => (r, false),
                    Err(_) => return Ok(Ok(())),
                }
            }
        };
        // a signer set up for the other proxy accepts what that proxy's key signed
        let forged_for_other = matches!(sel, ReqSel::ForgedWrongKey);
        let acceptable = if ours { by_our_proxy } else { forged_for_other };
        let n_before = self.signer_exchanges(si);
        let nonce = req.request.nonce.to_string();
        let res = guarded(|| self.signers[si].mgr.process(req.clone(), None).map_err(|e| e.to_string())).map_err(|c| Fail::Crash(c.what))?;
        let n_after = self.signer_exchanges(si);
        match res {
            Ok(resp) => {
                if !acceptable && tolerant && ours {
                    self.hit("bit_flip_outside_signed_part_accepted");
                    self.responses.push(Produced { signer: si, resp, genuine: true });
                    return Ok(Ok(()));
                }
                if !acceptable {
                    let key = match sel {
                        ReqSel::ForgedWrongKey => "signed-with-another-key",
                        ReqSel::TamperedClear(_) => "clear-text-differs-from-signed",
                        ReqSel::TamperedSigned(_) => "signed-message-damaged",
                        _ => "request-of-another-proxy",
                    };
                    return Ok(Err(bad("c15-signer-processed-unauthentic-request", key, format!("signer #{si} (ours: {ours}) processed request {sel:?}"))));
                }
                if resp.content().nonce.to_string() != nonce {
                    return Ok(Err(bad("c15-response", "nonce", "the response does not carry the request's nonce".into())));
                }
                if n_after != n_before + 1 {
                    return Ok(Err(bad("c15-signer", "exchange-count", format!("processing one request changed the number of exchanges from {n_before} to {n_after}"))));
                }
                if let Err(b) = self.check_child_responses(&req, &resp) {
                    return Ok(Err(b));
                }
                self.responses.push(Produced { signer: si, resp, genuine: true });
                self.hit(if matches!(sel, ReqSel::Old(_)) && nonce != self.requests.last().unwrap().request.nonce.to_string() { "stale_request_signed" } else { "request_signed" });
            }
            Err(e) => {
                if n_after != n_before {
                    return Ok(Err(bad("c15-refused-changed-state", "signer", format!("refused request ({e}) changed the signer's exchanges"))));
                }
                if acceptable {
                    // a replayed revocation fails at the second attempt (unknown key): legitimate
                    if matches!(sel, ReqSel::Current) && self.responses.iter().all(|p| p.resp.content().nonce.to_string() != nonce) {
                        return Ok(Err(bad("c15-signer", "refused-genuine-request", format!("signer #{si} refused the proxy's current request: {e}"))));
                    }
                    self.hit("replayed_request_refused");
                } else {
                    self.hit("unauthentic_request_refused");
                }
            }
        }
        Ok(Ok(()))
    }

    /// Exactly one response per forwarded child request, none invented.
    fn check_child_responses(&mut self, req: &TrustAnchorSignedRequest, resp: &TrustAnchorSignedResponse) -> Result<(), Bad> {
        let mut want: BTreeSet<(String, String)> = BTreeSet::new();
        for cr in &req.request.child_requests {
            for k in cr.requests.keys() {
                want.insert((cr.child.to_string(), k.to_string()));
            }
        }
        let mut got: BTreeSet<(String, String)> = BTreeSet::new();
        for (c, m) in &resp.content().child_responses {
            for k in m.keys() {
                if !got.insert((c.to_string(), k.to_string())) {
                    return Err(bad("c15-child-response", "duplicate", format!("two responses for {c}/{k}")));
                }
            }
        }
        if want != got {
            return Err(bad("c15-child-response", "not-one-per-request", format!("requests {want:?}, responses {got:?}")));
        }
        if !want.is_empty() {
            self.hit("child_requests_signed");
        }
        Ok(())
    }

    fn deliver(&mut self, sel: &RespSel) -> Result<Result<(), Bad>, Fail> {
        if self.responses.is_empty() {
            return Ok(Ok(()));
        }
        let open = self.open_nonce()?;
        let latest = self.responses.len() - 1;
        let mut resp_tolerant = false;
        // (response, signer it really comes from, content and signature genuine)
        let (resp, from, genuine): (TrustAnchorSignedResponse, usize, bool) = match sel {
            RespSel::Latest => (self.responses[latest].resp.clone(), self.responses[latest].signer, true),
            RespSel::Old(k) => {
                let i = (*k as usize) % self.responses.len();
                (self.responses[i].resp.clone(), self.responses[i].signer, true)
            }
            RespSel::OldWithOpenNonce(k) => {
                let Some(open) = &open else { return Ok(Ok(())) };
                let i = (*k as usize) % self.responses.len();
                if &self.responses[i].resp.content().nonce.to_string() == open {
                    return Ok(Ok(()));
                }
                let mut v = serde_json::to_value(&self.responses[i].resp).map_err(h)?;
                v["response"]["nonce"] = Value::String(open.clone());
                match serde_json::from_value(v) {
                    Ok(r) => (r, self.responses[i].signer, false),
                    Err(_) => return Ok(Ok(())),
                }
            }
            RespSel::ForgedWrongKey => {
                let Some(open) = &open else { return Ok(Ok(())) };
                let mut content = self.responses[latest].resp.content().clone();
                let mut v = serde_json::to_value(&content).map_err(h)?;
                v["nonce"] = Value::String(open.clone());
                content = serde_json::from_value(v).map_err(h)?;
                let r = content.sign(14, self.other_key, self.w.rt.signer()).map_err(h)?;
                (r, usize::MAX, false)
            }
            RespSel::TamperedClear(s) => {
                let orig = self.responses[latest].resp.clone();
                let mut v = serde_json::to_value(&orig).map_err(h)?;
                let changed = v.get_mut("response").map(|r| mutate_leaf(r, *s, &["nonce"])).unwrap_or(false);
                match serde_json::from_value::<TrustAnchorSignedResponse>(v) {
                    Ok(r) if changed && r.content() != orig.content() => (r, self.responses[latest].signer, false),
                    _ => return Ok(Ok(())),
                }
            }
            RespSel::TamperedSigned(s) => {
                let orig = serde_json::to_value(&self.responses[latest].resp).map_err(h)?;
                let mut v = orig.clone();
                if !flip_signed(&mut v, *s) {
                    return Ok(Ok(()));
                }
                let same = signed_content(&v).is_some() && signed_content(&v) == signed_content(&orig);
                match serde_json::from_value::<TrustAnchorSignedResponse>(v) {
                    // (identical content: as good as the genuine response, either verdict is fine)
                    Ok(r) => {
                        resp_tolerant = same;
                        (r, self.responses[latest].signer, false)
                    }
                    Err(_) => return Ok(Ok(())),
                }
            }
        };
        let nonce = resp.content().nonce.to_string();
        let fresh = open.as_deref() == Some(nonce.as_str());
        let acceptable = fresh && genuine && from == self.associated;
        let before = self.proxy_json()?;
        let res = guarded(|| self.w.cam().ta_proxy_signer_process_response(resp.clone(), &self.w.actor, &self.w.rt).map_err(|e| e.to_string())).map_err(|c| Fail::Crash(c.what))?;
        match res {
            Ok(()) => {
                if !acceptable && resp_tolerant && fresh && from == self.associated {
                    self.hit("bit_flip_outside_signed_part_accepted");
                    self.sync_ta_repo()?;
                    return Ok(Ok(()));
                }
                if !acceptable {
                    let key = if !fresh {
                        if open.is_none() { "no-open-request" } else { "stale-nonce" }
                    } else if !genuine {
                        match sel {
                            RespSel::ForgedWrongKey => "signed-with-another-key",
                            RespSel::TamperedSigned(_) => "signed-message-damaged",
                            _ => "clear-text-differs-from-signed",
                        }
                    } else {
                        "signer-not-associated"
                    };
                    return Ok(Err(bad("c15-proxy-accepted-response", key, format!("proxy accepted response {sel:?} (nonce {nonce}, open request {open:?}, from signer #{from}, associated #{})", self.associated))));
                }
                if self.open_nonce()?.is_some() {
                    return Ok(Err(bad("c15-proxy", "request-still-open", "the request is still open after its response was accepted".into())));
                }
                self.hit("response_accepted");
                if let Err(b) = self.check_nothing_dropped(&before)? {
                    return Ok(Err(b));
                }
                self.sync_ta_repo()?;
            }
            Err(e) => {
                if before != self.proxy_json()? {
                    return Ok(Err(bad("c15-refused-changed-state", "proxy", format!("refused response ({e}) changed the proxy"))));
                }
                if acceptable {
                    return Ok(Err(bad("c15-proxy", "refused-genuine-response", format!("proxy refused the fresh response of its signer: {e}"))));
                }
                self.hit(match sel {
                    RespSel::Latest | RespSel::Old(_) => {
                        if from != self.associated {
                            "foreign_response_refused"
                        } else {
                            "stale_or_replayed_response_refused"
                        }
                    }
                    RespSel::ForgedWrongKey => "forged_response_refused",
                    _ => "tampered_response_refused",
                });
            }
        }
        Ok(Ok(()))
    }

    fn honest_exchange(&mut self) -> Result<Result<(), Bad>, Fail> {
        if self.open_nonce()?.is_none() {
            if let Err(b) = self.make_request()? {
                return Ok(Err(b));
            }
        } else if self.requests.last().map(|r| Some(r.request.nonce.to_string()) != self.open_nonce().ok().flatten()).unwrap_or(true) {
            // the open request was made before we kept track (cannot happen) -> fetch it
            let req = self.w.cam().ta_proxy_signer_get_request(&self.w.rt).map_err(h)?;
            self.requests.push(req.into());
        }
        let open = self.open_nonce()?.unwrap_or_default();
        // sign the open request at the associated signer unless a genuine response for it exists
        let have = self.responses.iter().rposition(|p| p.signer == self.associated && p.genuine && p.resp.content().nonce.to_string() == open);
        let idx = match have {
            Some(i) => i,
            None => {
                let pos = self.requests.iter().rposition(|r| r.request.nonce.to_string() == open).unwrap_or(self.requests.len() - 1);
                let req = self.requests[pos].clone();
                let si = self.associated;
                let resp = guarded(|| self.signers[si].mgr.process(req, None).map_err(|e| e.to_string())).map_err(|c| Fail::Crash(c.what))?;
                let reinit = self.stats.contains_key("signer_reinitialised");
                match resp {
                    // a re-initialised signer does not know the certificates of its predecessor:
                    // revocation requests for them cannot be served (state the operator gave up)
                    Err(e) if reinit && e.contains("unknown key") => {
                        self.hit("reinitialised_signer_lacks_history");
                        return Ok(Ok(()));
                    }
                    Ok(r) => {
                        let req = self.requests[pos].clone();
                        if let Err(b) = self.check_child_responses(&req, &r) {
                            return Ok(Err(b));
                        }
                        self.responses.push(Produced { signer: si, resp: r, genuine: true });
                        self.responses.len() - 1
                    }
                    Err(e) => return Ok(Err(bad("c15-signer", "refused-genuine-request", format!("signer refused the open request: {e}")))),
                }
            }
        };
        let resp = self.responses[idx].resp.clone();
        let before = self.proxy_json()?;
        let res = guarded(|| self.w.cam().ta_proxy_signer_process_response(resp, &self.w.actor, &self.w.rt).map_err(|e| e.to_string())).map_err(|c| Fail::Crash(c.what))?;
        if let Err(e) = res {
            return Ok(Err(bad("c15-proxy", "refused-genuine-response", format!("proxy refused the fresh response of its signer: {e}"))));
        }
        if let Err(b) = self.check_nothing_dropped(&before)? {
            return Ok(Err(b));
        }
        self.hit("honest_exchange");
        self.sync_ta_repo()?;
        Ok(Ok(()))
    }

    fn quiesce(&mut self) -> Result<(), Fail> {
        match self.w.pump_quiesce(4000) {
            Ok(Ok(_)) => Ok(()),
            Ok(Err(e)) => Err(Fail::Violation(format!("background work does not settle: {e}"))),
            Err(c) => Err(Fail::Crash(c.what)),
        }
    }

    fn step(&mut self, op: &TOp) -> Result<Result<(), Bad>, Fail> {
        match op {
            TOp::AddChild { ca, res } => {
                let name = format!("ca{}", ca % 3);
                if self.children.contains(&name) {
                    return Ok(Ok(()));
                }
                let rs = resources_of(*res);
                if rs.is_empty() {
                    return Ok(Ok(()));
                }
                guarded(|| -> Result<(), String> {
                    self.w.add_ca(&name)?;
                    self.w.attach(&name, "ta", &rs)
                })
                .map_err(|c| Fail::Crash(c.what))?
                .map_err(Fail::Harness)?;
                self.children.insert(name);
                self.hit("child_added");
                // the child's first synchronisation queues its certificate request at the proxy
                for _ in 0..(*res as usize % 8) {
                    match self.w.pump_one() {
                        Ok(Some(_)) => {}
                        Ok(None) => break,
                        Err(c) => return Err(Fail::Crash(c.what)),
                    }
                }
                Ok(Ok(()))
            }
            TOp::Keyroll { ca, activate } => {
                let name = format!("ca{}", ca % 3);
                if !self.children.contains(&name) {
                    return Ok(Ok(()));
                }
                let r = guarded(|| if *activate { self.w.keyroll_activate(&name) } else { self.w.keyroll_init(&name) }).map_err(|c| Fail::Crash(c.what))?;
                if r.is_ok() {
                    self.hit(if *activate { "keyroll_activated" } else { "keyroll_started" });
                }
                Ok(Ok(()))
            }
            TOp::Pump { n } => {
                for _ in 0..*n {
                    match self.w.pump_one() {
                        Ok(Some(_)) => {}
                        Ok(None) => break,
                        Err(c) => return Err(Fail::Crash(c.what)),
                    }
                }
                Ok(Ok(()))
            }
            TOp::Quiesce => {
                self.quiesce()?;
                Ok(Ok(()))
            }
            TOp::MakeRequest => self.make_request(),
            TOp::Sign { signer, req } => self.sign(*signer, req),
            TOp::Deliver { resp } => self.deliver(resp),
            TOp::HonestExchange => self.honest_exchange(),
            TOp::ReinitSigner => {
                // a new signer installation with the same TA key: new identity, state starts
                // afresh, the operator carries the manifest number over
                if self.open_nonce()?.is_some() {
                    return Ok(Ok(()));
                }
                if let Err(b) = self.check_numbers()? {
                    return Ok(Err(b));
                }
                let proxy_id = self.w.cam().ta_proxy_id().map_err(h)?;
                let pem = self.ta_key_pem.clone();
                let next = self.last_mft.map(|n| n as u64 + 1);
                let m = self.new_signer(proxy_id, Some(pem), next)?;
                let info = m.show().map_err(h)?;
                let r = guarded(|| self.w.cam().ta_proxy_signer_update(info, &self.w.actor, &self.w.rt).map_err(|e| e.to_string())).map_err(|c| Fail::Crash(c.what))?;
                match r {
                    Ok(()) => {
                        self.signers.push(SignerBox { mgr: m, ours: true });
                        self.associated = self.signers.len() - 1;
                        self.hit("signer_reinitialised");
                    }
                    Err(e) => return Ok(Err(bad("c15-proxy", "signer-update-refused", format!("update to a signer with the same TA key was refused: {e}")))),
                }
                Ok(Ok(()))
            }
            TOp::Advance { secs } => {
                clock::advance(*secs as i64);
                Ok(Ok(()))
            }
            TOp::AdvanceDays { days } => {
                // once per case: signed messages are valid for 14 days and the harness does not model their expiry
                if !self.stats.contains_key("jump_over_rerequest_threshold") {
                    clock::advance(*days as i64 * 86400);
                    self.hit("jump_over_rerequest_threshold");
                    // regular maintenance of the instance (manifests of the CAs have a next-update of a day)
                    self.w.republish(false).map_err(Fail::Harness)?;
                }
                Ok(Ok(()))
            }
        }
    }

    /// Everything settles: every child of the TA has its certificate and the
    /// proxy holds no open request or undelivered response.
    fn final_check(&mut self) -> Result<Result<(), Bad>, Fail> {
        // a re-initialised signer does not know the certificates issued by its predecessor:
        // the tree check applies to histories without re-initialisation
        let reinit = self.stats.contains_key("signer_reinitialised");
        if reinit {
            // requests that refer to the lost history can never be served: no convergence to check
            return self.check_numbers();
        }
        for _ in 0..4 {
            self.quiesce()?;
            let v = self.proxy_json()?;
            let pending = v
                .get("child_details")
                .and_then(|c| c.as_object())
                .map(|m| m.values().any(|d| d.get("open_requests").and_then(|x| x.as_object()).map(|o| !o.is_empty()).unwrap_or(false)))
                .unwrap_or(false);
            if pending || self.open_nonce()?.is_some() {
                if let Err(b) = self.honest_exchange()? {
                    return Ok(Err(b));
                }
            }
            self.w.refresh_all().map_err(Fail::Harness)?;
        }
        // the clock may have passed the re-issue time of manifests: regular maintenance
        self.w.republish(false).map_err(Fail::Harness)?;
        self.quiesce()?;
        let v = self.proxy_json()?;
        if let Some(m) = v.get("child_details").and_then(|c| c.as_object()) {
            for (child, d) in m {
                for k in ["open_requests", "open_responses"] {
                    if d.get(k).and_then(|x| x.as_object()).map(|o| !o.is_empty()).unwrap_or(false) {
                        return Ok(Err(bad("c15-delivery", k, format!("after honest exchanges and child syncs the proxy still holds {k} for {child}: {}", d[k]))));
                    }
                }
            }
        }
        if let Err(b) = self.check_numbers()? {
            return Ok(Err(b));
        }
        if !reinit {
            let served = self.w.served().map_err(Fail::Harness)?;
            let (cert, tal) = self.w.ta_cert_and_tal().map_err(Fail::Harness)?;
            let rep = rp::validate(&cert, &tal, &served, clock::now_s());
            if let Some(i) = rep.issues.first() {
                return Ok(Err(bad("c15-tree", "rp-issue", format!("after honest exchanges the tree is not valid: {i}"))));
            }
            for c in &self.children {
                if !rep.pps.iter().any(|p| p.mft_uri.contains(&format!("/repo/{c}/"))) {
                    return Ok(Err(bad("c15-delivery", "child-without-certificate", format!("child {c} of the TA has no accepted publication point after honest exchanges"))));
                }
            }
            self.hit("final_tree_valid");
        }
        Ok(Ok(()))
    }
}

fn fail_outcome(f: Fail, what: &str) -> Outcome {
    match f {
        Fail::Crash(e) => Outcome::Violation { clause: "crash".into(), key: super::crash_key(&e), msg: format!("{what}: {e}") },
        Fail::Violation(e) => Outcome::Violation { clause: "no-quiescence".into(), key: "op".into(), msg: format!("{what}: {e}") },
        Fail::Harness(e) => Outcome::Harness(format!("{what}: {e}")),
    }
}

impl Prop for C15 {
    type Case = Case;
    const ID: &'static str = "C15";

    fn strategy(tier: Tier) -> BoxedStrategy<Case> {
        let n = match tier {
            Tier::Quick => 8..40,
            Tier::Thorough => 10..80,
        };
        (any::<u16>(), vec(top(), n)).prop_map(|(key_start, ops)| Case { key_start, ops }).boxed()
    }

    fn run(case: &Case, _ctx: &Ctx) -> Outcome {
        let mut tw = match TaWorld::new(case.key_start as usize) {
            Ok(w) => w,
            Err(f) => return fail_outcome(f, "setup"),
        };
        for (i, op) in case.ops.iter().enumerate() {
            match tw.step(op) {
                Err(f) => return fail_outcome(f, &format!("op #{i} {op:?}")),
                Ok(Err((clause, key, msg))) => return Outcome::Violation { clause, key, msg: format!("op #{i} {op:?}: {msg}") },
                Ok(Ok(())) => {}
            }
            match tw.check_numbers() {
                Err(f) => return fail_outcome(f, &format!("numbers after op #{i}")),
                Ok(Err((clause, key, msg))) => return Outcome::Violation { clause, key, msg: format!("after op #{i} {op:?}: {msg}") },
                Ok(Ok(())) => {}
            }
        }
        match tw.final_check() {
            Err(f) => return fail_outcome(f, "final check"),
            Ok(Err((clause, key, msg))) => return Outcome::Violation { clause, key, msg: format!("final check: {msg}") },
            Ok(Ok(())) => {}
        }
        let st = &tw.stats;
        let refused = ["stale_or_replayed_response_refused", "foreign_response_refused", "forged_response_refused", "tampered_response_refused", "unauthentic_request_refused"].iter().filter(|k| st.contains_key(**k)).count();
        let nontrivial = refused >= 1 && st.get("response_accepted").copied().unwrap_or(0) + st.get("honest_exchange").copied().unwrap_or(0) >= 2;
        let classes: Vec<String> = st.keys().cloned().collect();
        let _ = Bytes::new();
        Outcome::Pass { nontrivial, classes, size: case.ops.len() }
    }
}
