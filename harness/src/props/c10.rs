//! C10 — Publication protocol: atomic deltas, hash checks and publisher
//! isolation.
use proptest::collection::vec;
use proptest::prelude::*;
use proptest::strategy::BoxedStrategy;
use serde::{Deserialize, Serialize};

use crate::enginep::{pop, POp, PubWorld};
use crate::fw::{Ctx, Outcome, Prop, Tier};
use crate::ops::Fail;
use crate::world::WorldCfg;

pub struct C10;

#[derive(Clone, Debug, Serialize, Deserialize)]
pub struct Case {
    pub disk: bool,
    pub interval: u32,
    pub n_pub: u8,
    pub key_start: u16,
    pub ops: Vec<POp>,
}

pub fn case_strategy(ops: std::ops::Range<usize>, disk: BoxedStrategy<bool>) -> BoxedStrategy<Case> {
    (disk, prop_oneof![3 => Just(0u32), 2 => 1u32..2000], 2u8..6, any::<u16>())
        .prop_flat_map(move |(disk, interval, n_pub, key_start)| {
            (Just(disk), Just(interval), Just(n_pub), Just(key_start), vec(pop(n_pub, disk), ops.clone()))
        })
        .prop_map(|(disk, interval, n_pub, key_start, ops)| Case { disk, interval, n_pub, key_start, ops })
        .boxed()
}

pub fn fail_outcome(f: Fail, what: &str) -> Outcome {
    match f {
        Fail::Crash(e) => Outcome::Violation { clause: "crash".into(), key: super::crash_key(&e), msg: format!("{what}: {e}") },
        Fail::Violation(e) => Outcome::Violation { clause: "no-quiescence".into(), key: "op".into(), msg: format!("{what}: {e}") },
        Fail::Harness(e) => Outcome::Harness(format!("{what}: {e}")),
    }
}

impl Prop for C10 {
    type Case = Case;
    const ID: &'static str = "C10";

    fn strategy(tier: Tier) -> BoxedStrategy<Case> {
        match tier {
            Tier::Quick => case_strategy(5..60, prop_oneof![4 => Just(false), 1 => Just(true)].boxed()),
            Tier::Thorough => case_strategy(5..120, prop_oneof![4 => Just(false), 1 => Just(true)].boxed()),
        }
    }

    fn run(case: &Case, ctx: &Ctx) -> Outcome {
        let cfg = WorldCfg { disk: case.disk, rrdp_interval_secs: case.interval, ..WorldCfg::default() };
        let mut w = match PubWorld::new(cfg, case.n_pub as usize, case.key_start as usize) {
            Ok(w) => w,
            Err(f) => return fail_outcome(f, "setup"),
        };
        let step_over = !ctx.strict && ctx.is_known(Self::ID, "c10-two-owners:nested-publisher-bases");
        for (i, op) in case.ops.iter().enumerate() {
            match w.apply(op) {
                Err(f) => return fail_outcome(f, &format!("op #{i} {op:?}")),
                Ok(Err((clause, key, msg))) => return Outcome::Violation { clause, key, msg: format!("op #{i} {op:?}: {msg}") },
                Ok(Ok(())) => {}
            }
            if let Err((clause, key, msg)) = w.check_all() {
                if step_over && clause == "c10-two-owners" && key == "nested-publisher-bases" {
                    crate::fw::soft_known("c10-two-owners:nested-publisher-bases", &msg);
                    break;
                }
                return Outcome::Violation { clause, key, msg: format!("after op #{i} {op:?}: {msg}") };
            }
        }
        let mut classes: Vec<String> = w.stats.keys().cloned().collect();
        if case.disk {
            classes.push("disk".into());
        }
        let nontrivial = w.stats.contains_key("verdict_decided_by_non_first_element") || w.stats.contains_key("cross_publisher_or_outside_uri");
        Outcome::Pass { nontrivial, classes, size: case.ops.len() }
    }
}
