//! Checkpoint oracles shared by the world-based properties.
use std::collections::{BTreeMap, BTreeSet};
use std::str::FromStr;

use rpki::ca::idexchange::CaHandle;
use rpki::repository::resources::ResourceSet;
use serde_json::Value;

use crate::clock;
use crate::ops::{Payload, Sim};
use crate::rp::{self, RpReport, Served, Vrp};
use crate::rrdpc;
use crate::world::TA;

pub struct Snap {
    pub now: i64,
    pub served: Served,
    pub rp: RpReport,
}

/// (clause, key, message)
pub type Bad = (String, String, String);

/// Set equality of resource sets. The representation is not canonical and
/// rpki's own `contains` / `union` give wrong answers for sets whose blocks
/// overlap (such sets come out of unions over resource classes), so the
/// comparison is made on merged numeric ranges read from the textual form.
pub fn rs_eq(a: &ResourceSet, b: &ResourceSet) -> bool {
    rs_ranges(a) == rs_ranges(b)
}

/// (AS ranges, IPv4 ranges, IPv6 ranges), each sorted and merged.
pub fn rs_ranges(rs: &ResourceSet) -> (Vec<(u128, u128)>, Vec<(u128, u128)>, Vec<(u128, u128)>) {
    fn merge(mut v: Vec<(u128, u128)>) -> Vec<(u128, u128)> {
        v.sort();
        let mut out: Vec<(u128, u128)> = Vec::new();
        for (lo, hi) in v {
            match out.last_mut() {
                Some(last) if lo <= last.1.saturating_add(1) => last.1 = last.1.max(hi),
                _ => out.push((lo, hi)),
            }
        }
        out
    }
    fn addr(s: &str) -> Option<(u128, u32)> {
        match s.parse::<std::net::IpAddr>().ok()? {
            std::net::IpAddr::V4(a) => Some((u32::from(a) as u128, 32)),
            std::net::IpAddr::V6(a) => Some((u128::from(a), 128)),
        }
    }
    fn ip_item(s: &str) -> Option<(u128, u128)> {
        let s = s.trim();
        if let Some((a, l)) = s.split_once('/') {
            let (base, bits) = addr(a)?;
            let len: u32 = l.parse().ok()?;
            let host = bits - len.min(bits);
            let mask: u128 = if host >= 128 { u128::MAX } else { (1u128 << host) - 1 };
            Some((base & !mask, (base & !mask) | mask))
        } else if let Some((a, b)) = s.split_once('-') {
            Some((addr(a.trim())?.0, addr(b.trim())?.0))
        } else {
            let (base, _) = addr(s)?;
            Some((base, base))
        }
    }
    fn asn_item(s: &str) -> Option<(u128, u128)> {
        let n = |x: &str| x.trim().trim_start_matches("AS").parse::<u128>().ok();
        match s.split_once('-') {
            Some((a, b)) => Some((n(a)?, n(b)?)),
            None => n(s).map(|x| (x, x)),
        }
    }
    let split = |text: String| -> Vec<String> { text.split(',').map(|x| x.trim().to_string()).filter(|x| !x.is_empty()).collect() };
    let asn = merge(split(rs.asn().to_string()).iter().filter_map(|x| asn_item(x)).collect());
    let v4 = merge(split(rs.ipv4().to_string()).iter().filter_map(|x| ip_item(x)).collect());
    let v6 = merge(split(rs.ipv6().to_string()).iter().filter_map(|x| ip_item(x)).collect());
    (asn, v4, v6)
}

pub fn bad(clause: &str, key: &str, msg: String) -> Bad {
    (clause.to_string(), key.to_string(), msg)
}

pub fn snapshot(sim: &Sim) -> Result<Snap, Bad> {
    let now = clock::now_s();
    let served = sim.w().served().map_err(|e| bad("served", "error", e))?;
    let (ta, tal) = sim.w().ta_cert_and_tal().map_err(|e| bad("ta", "error", e))?;
    let rp = rp::validate(&ta, &tal, &served, now);
    Ok(Snap { now, served, rp })
}

fn asn_of(v: &Value) -> Option<u32> {
    match v {
        Value::Number(n) => n.as_u64().map(|x| x as u32),
        Value::String(s) => s.trim_start_matches("AS").parse().ok(),
        _ => None,
    }
}

fn prefix_set(prefix: &str) -> ResourceSet {
    if prefix.contains(':') {
        ResourceSet::from_strs("", "", prefix).unwrap_or_default()
    } else {
        ResourceSet::from_strs("", prefix, "").unwrap_or_default()
    }
}

fn asn_set(asn: u32) -> ResourceSet {
    ResourceSet::from_strs(&format!("AS{asn}"), "", "").unwrap_or_default()
}

pub fn canon_prefix(p: &str) -> String {
    // canonical textual form as rpki prints addresses
    if let Some((a, l)) = p.split_once('/') {
        if let Ok(ip) = std::net::IpAddr::from_str(a) {
            return format!("{ip}/{l}");
        }
    }
    p.to_string()
}

fn class_keys(keys: &krill::api::ca::ResourceClassKeysInfo) -> Vec<&krill::api::ca::CertifiedKeyInfo> {
    use krill::api::ca::ResourceClassKeysInfo as K;
    match keys {
        K::Pending(_) => vec![],
        K::Active(a) => vec![&a.active_key],
        K::RollPending(r) => vec![&r.active_key],
        K::RollNew(r) => vec![&r.active_key, &r.new_key],
        K::RollOld(r) => vec![&r.active_key, &r.old_key],
    }
}

/// The class of `parent` that holds the key with identifier `aki`.
fn issuer_class(sim: &Sim, parent: &str, aki: &str) -> Option<String> {
    let info = sim.ca_info(parent)?;
    for (rcn, rc) in &info.resource_classes {
        if class_keys(&rc.keys).iter().any(|k| k.key_id.to_string() == aki) {
            return Some(rcn.to_string());
        }
    }
    None
}

/// Is the class `rcn` of `ca` expected to be certified (reachable from the
/// trust anchor), according to the intent model? It is when an existing,
/// non-suspending parent entitles the CA to something and the issuing class
/// of that parent is itself expected to be certified.
fn class_expected_certified(sim: &Sim, ca: &str, rcn: &str, depth: usize) -> bool {
    if depth > 8 {
        return false;
    }
    let Some(info) = sim.ca_info(ca) else { return false };
    let Some((_, rc)) = info.resource_classes.iter().find(|(k, _)| k.to_string() == rcn) else { return false };
    let parent = rc.parent_handle.to_string();
    let Some(children) = sim.model.children_of(&parent) else { return false };
    let Some(cm) = children.get(ca) else { return false };
    if cm.suspended || cm.entitlement.is_empty() {
        return false;
    }
    if sim.model.cas.get(ca).map(|m| m.publisher_removed).unwrap_or(false) {
        return false;
    }
    if parent == TA {
        return true;
    }
    let Some(key) = rc.keys.current_key() else { return false };
    let Ok(cert) = key.incoming_cert.to_cert() else { return false };
    let Some(aki) = cert.authority_key_identifier() else { return false };
    let Some(prcn) = issuer_class(sim, &parent, &aki.to_string()) else { return false };
    class_expected_certified(sim, &parent, &prcn, depth + 1)
}

/// Splits "rsync://krill.example.org/repo/<ca>/<rcn>/file" into (ca, rcn).
pub fn pp_of(uri: &str) -> Option<(String, String)> {
    let rel = uri.strip_prefix(rrdpc::RSYNC_BASE)?;
    let mut parts = rel.split('/');
    let ca = parts.next()?;
    let rcn = parts.next()?;
    parts.next()?;
    Some((ca.to_string(), rcn.to_string()))
}

/// A stable key for an RP issue: object kind and reason without URIs and
/// identifiers, plus the history feature that explains a known finding.
pub fn rp_issue_key(sim: &Sim, issue: &str) -> String {
    let mut words = issue.split_whitespace();
    let kind = words.next().unwrap_or("");
    let uri = issue.split_whitespace().find(|w| w.starts_with("rsync://")).unwrap_or("");
    let reason = issue.split(" invalid: ").nth(1).or_else(|| issue.split(": ").nth(1)).unwrap_or(issue);
    let mut key: String = format!("{kind}-{reason}").chars().map(|c| if c.is_ascii_alphanumeric() { c } else { '-' }).collect();
    key.truncate(70);
    if reason.contains("overclaiming") {
        if let Some((ca, _)) = pp_of(uri) {
            if sim.flags.has(&format!("activated_key_with_other_resources:{ca}")) {
                key = format!("after-activation-of-key-with-other-resources--{key}");
            }
        }
    }
    key
}

/// C01 (1): the RP walk accepts everything served.
pub fn check_rp_valid(sim: &Sim, snap: &Snap) -> Result<usize, Bad> {
    let mut allowed_unreachable = 0;
    for issue in &snap.rp.issues {
        if let Some(uri) = issue.strip_prefix("present-but-unlisted (or unreachable) file: ") {
            if let Some(base) = &sim.foreign_publisher_base {
                if uri.starts_with(base.as_str()) {
                    continue;
                }
            }
            // allowed when the class is not expected to be certified
            if let Some((ca, rcn)) = pp_of(uri) {
                if sim.model.cas.contains_key(&ca) && !class_expected_certified(sim, &ca, &rcn, 0) {
                    allowed_unreachable += 1;
                    continue;
                }
            }
            return Err(bad("rp-unlisted", "file", issue.clone()));
        }
        if issue.starts_with("no manifest at ") {
            // a CA certificate whose publication point is missing. Allowed
            // only if the subject CA's publisher was removed on purpose.
            // key the finding on who issued the dangling certificate and
            // on the history that led to it
            let mft = issue.strip_prefix("no manifest at ").and_then(|r| r.split_whitespace().next()).unwrap_or("");
            let cert_uri = issue.rsplit(' ').next().unwrap_or("");
            let ta_issued = cert_uri
                .strip_prefix(rrdpc::RSYNC_BASE)
                .map(|rel| !rel.contains('/'))
                .unwrap_or(false);
            let subject = pp_of(mft).map(|x| x.0).unwrap_or_default();
            let gone = !sim.model.cas.get(&subject).map(|m| m.parents.contains(TA)).unwrap_or(false);
            // does the proxy still hold a request or an unfetched response of the subject?
            let undelivered = ta_issued && gone && {
                sim.w()
                    .cam()
                    .get_trust_anchor_proxy()
                    .ok()
                    .and_then(|p| serde_json::to_value(&*p).ok())
                    .and_then(|v| v.get("child_details").and_then(|c| c.get(&subject)).cloned())
                    .map(|d| ["open_requests", "open_responses"].iter().any(|k| d.get(*k).and_then(|x| x.as_object()).map(|o| !o.is_empty()).unwrap_or(false)))
                    .unwrap_or(false)
            };
            let key = if ta_issued && gone && sim.flags.has(&format!("roll_under_ta:{subject}")) {
                "ta-issued-for-departed-child-with-open-roll-request"
            } else if undelivered {
                "ta-issued-for-departed-child-with-undelivered-response"
            } else if ta_issued {
                "ta-issued"
            } else if !sim.model.cas.contains_key(&subject) && sim.flags.has(&format!("entitlement_emptied:{subject}")) {
                "ca-issued-for-deleted-ca-with-pending-class-removal"
            } else if !sim.model.cas.contains_key(&subject) {
                "ca-issued-for-deleted-ca"
            } else if sim.flags.has(&format!("entitlement_emptied:{subject}"))
                && pp_of(cert_uri).map(|(issuer, _)| !sim.model.cas.get(&subject).map(|m| m.parents.contains(&issuer)).unwrap_or(true)).unwrap_or(false)
            {
                "ca-issued-for-child-that-removed-parent-with-pending-class-removal"
            } else {
                "ca-issued"
            };
            return Err(bad("rp-no-manifest", key, issue.clone()));
        }
        return Err(bad("rp-issue", &rp_issue_key(sim, issue), issue.clone()));
    }
    Ok(allowed_unreachable)
}

/// C01 (1b): RRDP snapshot, rsync tree and publisher details agree.
pub fn check_disk_views(sim: &Sim, snap: &Snap) -> Result<(), Bad> {
    let repo_dir = sim.w().repo_dir();
    let notif = rrdpc::read_notification(&repo_dir).map_err(|e| bad("rrdp-notification", "read", e))?;
    let (sess, serial, snapshot) = rrdpc::read_snapshot(&notif.snapshot.0).map_err(|e| bad("rrdp-snapshot", "read", e))?;
    if sess != notif.session || serial != notif.serial {
        return Err(bad("rrdp-snapshot", "session-serial", format!("snapshot {sess}/{serial} vs notification {}/{}", notif.session, notif.serial)));
    }
    if let Some(d) = rrdpc::diff_maps("rrdp snapshot", &snapshot, "publisher details", &snap.served) {
        return Err(bad("rrdp-vs-served", "diff", d));
    }
    let rsync = rrdpc::read_rsync_current(&repo_dir).map_err(|e| bad("rsync", "read", e))?;
    if let Some(d) = rrdpc::diff_maps("rsync/current", &rsync, "publisher details", &snap.served) {
        return Err(bad("rsync-vs-served", "diff", d));
    }
    Ok(())
}

/// C09: a publication that is not yet visible in RRDP has its follow-up
/// queued. Evaluated between operations (no task is claimed at that time).
pub fn check_rrdp_followup_queued(sim: &Sim) -> Result<bool, Bad> {
    let Ok(served) = sim.w().served() else { return Ok(false) };
    let repo_dir = sim.w().repo_dir();
    let Ok(notif) = rrdpc::read_notification(&repo_dir) else { return Ok(false) };
    let Ok((_, _, snapshot)) = rrdpc::read_snapshot(&notif.snapshot.0) else { return Ok(false) };
    let Some(d) = rrdpc::diff_maps("rrdp snapshot", &snapshot, "publisher details", &served) else { return Ok(false) };
    let queued = sim.w().pending_tasks().into_iter().chain(sim.w().running_tasks()).any(|(_, n)| n.starts_with("update_rrdp_if_needed"));
    if !queued {
        return Err(bad("c09-followup", "rrdp-update-not-queued", format!("published content is not in the RRDP snapshot ({d}) and no RRDP update task is pending or running")));
    }
    Ok(true)
}

pub struct Expected {
    pub vrps: BTreeSet<Vrp>,
    pub aspas: BTreeSet<(u32, Vec<u32>)>,
    pub router_keys: BTreeSet<(u32, String)>,
    /// per ca: payloads that are covered
    pub covered: BTreeMap<String, BTreeSet<Payload>>,
}

/// The payloads expected from the intent model and the *validated*
/// certificates of each CA's current keys.
pub fn expected_payloads(sim: &Sim, snap: &Snap) -> Expected {
    let mut exp = Expected {
        vrps: BTreeSet::new(),
        aspas: BTreeSet::new(),
        router_keys: BTreeSet::new(),
        covered: BTreeMap::new(),
    };
    for (ca, m) in &sim.model.cas {
        let keys = sim.current_keys(ca);
        let certs: Vec<&ResourceSet> =
            snap.rp.ca_certs.iter().filter(|c| keys.contains(&c.ski)).map(|c| &c.resources).collect();
        let cov = exp.covered.entry(ca.clone()).or_default();
        for p in m.roas.keys() {
            let ps = prefix_set(&p.prefix);
            if certs.iter().any(|r| r.contains(&ps)) {
                exp.vrps.insert(Vrp { asn: p.asn, prefix: canon_prefix(&p.prefix), maxlen: p.maxlen });
                cov.insert(p.clone());
            }
        }
        for (cust, provs) in &m.aspas {
            let cs = asn_set(*cust);
            if certs.iter().any(|r| r.contains(&cs)) {
                exp.aspas.insert((*cust, provs.iter().copied().collect()));
            }
        }
        for (asn, key) in &m.bgpsec {
            let cs = asn_set(*asn);
            if certs.iter().any(|r| r.contains(&cs)) {
                exp.router_keys.insert((*asn, key.clone()));
            }
        }
    }
    exp
}

fn first_diff<T: Ord + std::fmt::Debug>(a: &BTreeSet<T>, b: &BTreeSet<T>) -> (Vec<String>, Vec<String>) {
    (
        a.difference(b).take(3).map(|x| format!("{x:?}")).collect(),
        b.difference(a).take(3).map(|x| format!("{x:?}")).collect(),
    )
}

/// C01 (2): validated payloads == configured payloads covered by a current
/// certificate.
pub fn check_payloads(sim: &Sim, snap: &Snap) -> Result<Expected, Bad> {
    let exp = expected_payloads(sim, snap);
    // history feature that explains a known finding (activation re-issues
    // existing objects instead of re-deriving them for the new key)
    let feature = if sim.flags.0.keys().any(|k| k.starts_with("activated_key_with_other_resources:")) {
        "after-activation-of-key-with-other-resources--"
    } else {
        ""
    };
    if exp.vrps != snap.rp.vrps {
        let (missing, extra) = first_diff(&exp.vrps, &snap.rp.vrps);
        let key = format!("{feature}{}", if !missing.is_empty() { "missing" } else { "extra" });
        return Err(bad("vrps", &key, format!("validated VRPs differ from configuration: missing {missing:?} extra {extra:?}")));
    }
    if exp.aspas != snap.rp.aspas {
        let (missing, extra) = first_diff(&exp.aspas, &snap.rp.aspas);
        let key = format!("{feature}{}", if !missing.is_empty() { "missing" } else { "extra" });
        return Err(bad("aspas", &key, format!("validated ASPAs differ from configuration: missing {missing:?} extra {extra:?}")));
    }
    if exp.router_keys != snap.rp.router_keys {
        let (missing, extra) = first_diff(&exp.router_keys, &snap.rp.router_keys);
        let key = format!("{feature}{}", if !missing.is_empty() { "missing" } else { "extra" });
        return Err(bad("router-keys", &key, format!("validated router keys differ: missing {missing:?} extra {extra:?}")));
    }
    Ok(exp)
}

/// C01 (3): the API views equal the intent model and the objects the API
/// reports are the ones in the repository.
pub fn check_api_views(sim: &Sim, snap: &Snap, exp: &Expected) -> Result<(), Bad> {
    for (ca, m) in &sim.model.cas {
        let h = CaHandle::from_str(ca).unwrap();
        let cert_auth = sim.w().cam().get_ca(&h).map_err(|e| bad("api", "get_ca", format!("{ca}: {e}")))?;
        // Is the CA reachable at all (some current key has a validated
        // certificate)? An orphaned / suspended CA keeps its objects but they
        // cannot be judged against validated certificates.
        let keys = sim.current_keys(ca);
        let reachable = snap.rp.ca_certs.iter().any(|c| keys.contains(&c.ski));
        // ROAs
        let configured = serde_json::to_value(cert_auth.configured_roas()).unwrap_or(Value::Null);
        let mut seen: BTreeMap<Payload, Option<String>> = BTreeMap::new();
        for c in configured.as_array().cloned().unwrap_or_default() {
            let asn = asn_of(&c["asn"]).unwrap_or(u32::MAX);
            let prefix = c["prefix"].as_str().unwrap_or("").to_string();
            let len: u8 = prefix.split_once('/').and_then(|x| x.1.parse().ok()).unwrap_or(0);
            let maxlen = c["max_length"].as_u64().map(|x| x as u8).unwrap_or(len);
            let comment = c["comment"].as_str().map(|s| s.to_string());
            let p = Payload { asn, prefix: canon_prefix(&prefix), maxlen };
            let objs = c["roa_objects"].as_array().cloned().unwrap_or_default();
            let mp = m.roas.keys().find(|k| k.asn == p.asn && canon_prefix(&k.prefix) == p.prefix && k.maxlen == p.maxlen);
            let covered = mp.map(|k| exp.covered.get(ca).map(|s| s.contains(k)).unwrap_or(false)).unwrap_or(false);
            if !reachable {
                seen.insert(p, comment);
                continue;
            }
            if objs.is_empty() && covered {
                return Err(bad("api-roa-objects", "none-but-covered", format!("{ca}: configured ROA {p:?} is covered but the API reports no object")));
            }
            if !covered {
                // objects may exist in a publication point that is not
                // reachable (orphaned class); an object the RP accepted for
                // an uncovered configuration is a contradiction
                for o in &objs {
                    let uri = o["uri"].as_str().unwrap_or("");
                    if snap.rp.accepted.contains(uri) {
                        return Err(bad("api-roa-objects", "object-but-uncovered", format!("{ca}: configured ROA {p:?} is not covered but the API reports the validated object {uri}")));
                    }
                }
            }
            for o in objs {
                let uri = o["uri"].as_str().unwrap_or("");
                let hash = o["hash"].as_str().unwrap_or("").to_lowercase();
                match snap.served.get(uri) {
                    None => {
                        return Err(bad("api-roa-objects", "not-in-repo", format!("{ca}: API reports ROA object {uri} for {p:?} which is not in the repository")))
                    }
                    Some(b) => {
                        if rp::hash_hex(b) != hash {
                            return Err(bad("api-roa-objects", "hash", format!("{ca}: API reports hash {hash} for {uri}, repository has {}", rp::hash_hex(b))));
                        }
                    }
                }
            }
            seen.insert(p, comment);
        }
        let model: BTreeMap<Payload, Option<String>> = m
            .roas
            .iter()
            .map(|(k, v)| (Payload { asn: k.asn, prefix: canon_prefix(&k.prefix), maxlen: k.maxlen }, v.clone()))
            .collect();
        if seen != model {
            let a: BTreeSet<_> = seen.iter().collect();
            let b: BTreeSet<_> = model.iter().collect();
            return Err(bad(
                "api-roas",
                "differs",
                format!(
                    "{ca}: configured ROAs differ from accepted changes: only in API {:?}, only in model {:?}",
                    a.difference(&b).take(3).collect::<Vec<_>>(),
                    b.difference(&a).take(3).collect::<Vec<_>>()
                ),
            ));
        }
        // ASPAs
        let aspas = serde_json::to_value(cert_auth.aspas_definitions_show()).unwrap_or(Value::Null);
        let mut seen_aspas: BTreeMap<u32, BTreeSet<u32>> = BTreeMap::new();
        for a in aspas.as_array().cloned().unwrap_or_default() {
            let cust = asn_of(&a["customer"]).unwrap_or(u32::MAX);
            let provs: BTreeSet<u32> =
                a["providers"].as_array().cloned().unwrap_or_default().iter().filter_map(asn_of).collect();
            seen_aspas.insert(cust, provs);
        }
        if seen_aspas != m.aspas {
            return Err(bad("api-aspas", "differs", format!("{ca}: ASPA definitions {seen_aspas:?} differ from accepted changes {:?}", m.aspas)));
        }
        // BGPsec
        let bgpsec = serde_json::to_value(cert_auth.bgpsec_definitions_show()).unwrap_or(Value::Null);
        let mut seen_keys: BTreeSet<(u32, String)> = BTreeSet::new();
        for b in bgpsec.as_array().cloned().unwrap_or_default() {
            let asn = asn_of(&b["asn"]).unwrap_or(u32::MAX);
            let key = b["key_identifier"].as_str().unwrap_or("").to_uppercase();
            seen_keys.insert((asn, key));
        }
        let model_keys: BTreeSet<(u32, String)> = m.bgpsec.iter().map(|(a, k)| (*a, k.to_uppercase())).collect();
        if seen_keys != model_keys {
            return Err(bad("api-bgpsec", "differs", format!("{ca}: BGPsec definitions {seen_keys:?} differ from accepted changes {model_keys:?}")));
        }
    }
    // no CA beyond the model
    let handles = sim.w().ca_handles();
    for h in &handles {
        if h != TA && !sim.model.cas.contains_key(h) {
            return Err(bad("api-cas", "extra", format!("CA {h} exists but was deleted / never created")));
        }
    }
    Ok(())
}

/// Per-CA aggregation mode visible in the repository (true = aggregated names present).
pub fn agg_modes(snap: &Snap) -> BTreeMap<String, bool> {
    let mut res: BTreeMap<String, bool> = BTreeMap::new();
    for uri in snap.served.keys() {
        if uri.ends_with(".roa") {
            if let Some((ca, _)) = pp_of(uri) {
                let name = uri.rsplit('/').next().unwrap_or("");
                let agg = name.starts_with("AS");
                let e = res.entry(ca).or_insert(false);
                *e = *e || agg;
            }
        }
    }
    res
}

/// The complete C01 oracle.
pub fn check_c01(sim: &Sim) -> Result<(Snap, usize), Bad> {
    let snap = snapshot(sim)?;
    let unreachable = check_rp_valid(sim, &snap)?;
    check_disk_views(sim, &snap)?;
    let exp = check_payloads(sim, &snap)?;
    check_api_views(sim, &snap, &exp)?;
    Ok((snap, unreachable))
}

//------------ C02 -----------------------------------------------------------

/// key id -> (ca, rcn, resources of the certificate the CA holds for it)
pub fn held_certs(sim: &Sim, ca: &str) -> Vec<(String, String, ResourceSet, bool)> {
    let mut res = Vec::new();
    if let Some(info) = sim.ca_info(ca) {
        for (rcn, rc) in &info.resource_classes {
            let cur = rc.keys.current_key().map(|k| k.key_id.to_string());
            for k in class_keys(&rc.keys) {
                let is_current = Some(k.key_id.to_string()) == cur;
                res.push((k.key_id.to_string(), rcn.to_string(), k.incoming_cert.resources.clone(), is_current));
            }
        }
    }
    res
}

/// C02 "never over-claims": every CA certificate that `issuer` publishes is
/// contained in the certificate the issuer holds for the issuing key. To be
/// called right after a publication (SyncRepo) of the issuer.
pub fn check_no_overclaim(sim: &Sim, issuer: &str) -> Result<usize, Bad> {
    if issuer == TA || !sim.model.cas.contains_key(issuer) {
        return Ok(0);
    }
    let Ok(served) = sim.w().served_for(issuer) else { return Ok(0) };
    let held = held_certs(sim, issuer);
    let mut n = 0;
    for (uri, ski, aki, rs) in rp::ca_certs_in(&served) {
        if ski.is_empty() {
            return Err(bad("c02-undecodable", "cert", format!("{issuer} publishes an undecodable certificate {uri}")));
        }
        let Some((_, _, held_rs, _)) = held.iter().find(|h| h.0 == aki) else {
            // issued by a key the CA no longer has: withdrawn at the next
            // publication of that class; not judged here
            continue;
        };
        n += 1;
        if !held_rs.contains(&rs) {
            return Err(bad(
                "c02-overclaim",
                "published-child-cert",
                format!("{issuer} publishes {uri} with resources [{rs}] outside the certificate it holds for the issuing key [{held_rs}]"),
            ));
        }
    }
    Ok(n)
}

fn ranges_within(inner: &[(u128, u128)], outer_a: &[(u128, u128)], outer_b: &[(u128, u128)]) -> bool {
    // outer = merged union of a and b
    let mut outer: Vec<(u128, u128)> = outer_a.iter().chain(outer_b.iter()).copied().collect();
    outer.sort();
    let mut merged: Vec<(u128, u128)> = Vec::new();
    for (lo, hi) in outer {
        match merged.last_mut() {
            Some(last) if lo <= last.1.saturating_add(1) => last.1 = last.1.max(hi),
            _ => merged.push((lo, hi)),
        }
    }
    inner.iter().all(|(lo, hi)| merged.iter().any(|(a, b)| a <= lo && hi <= b))
}

/// C02 "every certificate issued to a child contains the child's entitlement
/// intersected with the issuing key's resources", judged at the moment of
/// issuing: to be called after every operation and every background task. A
/// certificate (per child key, read from the issuer's own state) whose serial
/// changed since the last call was issued during that step; whatever it
/// carries beyond its predecessor must lie within the child's entitlement as
/// it is now (a certificate for a key that had none - first issue,
/// unsuspension - must lie within it completely). Krill shrinks certificates
/// to the entitlement only when the child asks, so what a re-issued
/// certificate keeps from its predecessor is not judged here (the convergence
/// clause does that).
pub fn check_issued_within_entitlement(sim: &Sim) -> Result<usize, Bad> {
    let mut judged = 0;
    let mut prev_all = sim.prev_child_certs.lock().unwrap_or_else(|e| e.into_inner());
    let mut problem = None;
    for (issuer, pm) in &sim.model.cas {
        let Ok(handle) = CaHandle::from_str(issuer) else { continue };
        let Ok(ca) = sim.w().cam().get_ca(&handle) else { continue };
        let Ok(json) = serde_json::to_value(&*ca) else { continue };
        // child key -> child (the issuer's own record of the keys its children use)
        let mut key_owner: BTreeMap<String, String> = BTreeMap::new();
        if let Some(children) = json.get("children").and_then(|c| c.as_object()) {
            for (child, details) in children {
                if let Some(keys) = details.get("used_keys").and_then(|k| k.as_object()) {
                    for k in keys.keys() {
                        key_owner.insert(k.clone(), child.clone());
                    }
                }
            }
        }
        let mut now_map: BTreeMap<String, (String, ResourceSet)> = BTreeMap::new();
        if let Some(classes) = json.get("resources").and_then(|r| r.as_object()) {
            for rc in classes.values() {
                let Some(issued) = rc.get("certificates").and_then(|c| c.get("issued")).and_then(|i| i.as_object()) else { continue };
                for (key, cert) in issued {
                    let serial = cert.get("serial").map(|s| s.to_string()).unwrap_or_default();
                    let Some(rs) = cert.get("resources").and_then(|r| serde_json::from_value::<ResourceSet>(r.clone()).ok()) else { continue };
                    now_map.insert(key.clone(), (serial, rs));
                }
            }
        }
        let prev = prev_all.get(issuer).cloned().unwrap_or_default();
        for (key, (serial, rs)) in &now_map {
            if prev.get(key).map(|p| &p.0) == Some(serial) {
                continue;
            }
            let Some(child) = key_owner.get(key) else { continue };
            let Some(cm) = pm.children.get(child) else { continue };
            judged += 1;
            let (a, v4, v6) = rs_ranges(rs);
            let (ea, e4, e6) = rs_ranges(&cm.entitlement);
            let (pa, p4, p6) = prev.get(key).map(|p| rs_ranges(&p.1)).unwrap_or_default();
            if problem.is_none() && !(ranges_within(&a, &ea, &pa) && ranges_within(&v4, &e4, &p4) && ranges_within(&v6, &e6, &p6)) {
                let before = prev.get(key).map(|p| format!("[{}]", p.1)).unwrap_or_else(|| "none".into());
                problem = Some(bad(
                    "c02-issued-beyond-entitlement",
                    if prev.contains_key(key) { "re-issued-cert" } else if cm.ever_suspended { "new-cert-after-suspension" } else { "new-cert" },
                    format!("{issuer} issued a certificate (serial {serial}) for key {key} of {child} with resources [{rs}]; the entitlement of {child} is [{}] and the previous certificate of that key was {before}", cm.entitlement),
                ));
            }
        }
        prev_all.insert(issuer.clone(), now_map);
    }
    match problem {
        Some(b) => Err(b),
        None => Ok(judged),
    }
}

/// C02 exactness + convergence, to be called after `converge`.
pub fn check_delegation_converged(sim: &Sim) -> Result<usize, Bad> {
    let mut checked = 0;
    for (parent, pm) in &sim.model.cas {
        if pm.publisher_removed {
            continue;
        }
        let served = sim.w().served_for(parent).map_err(|e| bad("served", "error", e))?;
        let certs = rp::ca_certs_in(&served);
        let held = held_certs(sim, parent);
        for (child, cm) in &pm.children {
            // only children that are local CAs which still have this parent
            let Some(child_m) = sim.model.cas.get(child) else { continue };
            if !child_m.parents.contains(parent) || child_m.publisher_removed {
                continue;
            }
            let child_keys = held_certs(sim, child);
            let Some(child_info) = sim.ca_info(child) else { continue };
            for (pkey, prcn, pres, pcurrent) in &held {
                if !pcurrent {
                    continue;
                }
                let expected = cm.entitlement.intersection(pres);
                // the child's classes under this parent that were issued by this key
                let issued: Vec<&(String, String, String, ResourceSet)> = certs
                    .iter()
                    .filter(|c| &c.2 == pkey && child_keys.iter().any(|k| k.0 == c.1))
                    .collect();
                if cm.suspended {
                    if !issued.is_empty() {
                        return Err(bad(
                            "c02-suspended-published",
                            "cert",
                            format!("{parent} publishes a certificate for suspended child {child}: {}", issued[0].0),
                        ));
                    }
                    continue;
                }
                if expected.is_empty() {
                    if let Some(c) = issued.first() {
                        return Err(bad(
                            "c02-not-entitled",
                            "cert",
                            format!("{parent} (class {prcn}) publishes {} for {child} which is entitled to nothing in that class", c.0),
                        ));
                    }
                    continue;
                }
                checked += 1;
                // exactly one certificate for the child's current key, with exactly the expected resources
                let current: Vec<_> = issued
                    .iter()
                    .filter(|c| child_keys.iter().any(|k| k.0 == c.1 && k.3))
                    .collect();
                if current.len() != 1 {
                    return Err(bad(
                        "c02-convergence",
                        if current.is_empty() { "no-current-cert" } else { "several-current-certs" },
                        format!(
                            "{child} is entitled to [{expected}] under {parent} class {prcn} (issuing key {pkey}) but {} certificates for a current key of {child} are published there after synchronisation (child keys: {:?}; CA certs published by {parent}: {:?})",
                            current.len(),
                            child_keys.iter().map(|k| (&k.1, &k.0[..8], k.3)).collect::<Vec<_>>(),
                            served.keys().map(|u| u.trim_start_matches(rrdpc::RSYNC_BASE).chars().take(24).collect::<String>()).collect::<Vec<_>>()
                        ),
                    ));
                }
                for c in &issued {
                    if !rs_eq(&c.3, &expected) {
                        return Err(bad(
                            "c02-exactness",
                            "resources",
                            format!("{parent} class {prcn} issued {} to {child} with [{}], expected entitlement ∩ issuer = [{expected}]", c.0, c.3),
                        ));
                    }
                }
                // the child holds exactly that certificate
                let ck = child_keys.iter().find(|k| k.0 == current[0].1).unwrap();
                if !rs_eq(&ck.2, &expected) {
                    return Err(bad(
                        "c02-child-view",
                        "resources",
                        format!("{child} holds [{}] for class {} but the parent {parent} issued [{expected}]", ck.2, ck.1),
                    ));
                }
            }
            // no open requests
            if let Ok(ph) = rpki::ca::idexchange::ParentHandle::from_str(parent) {
                let h = CaHandle::from_str(child).unwrap();
                if let Ok(ca) = sim.w().cam().get_ca(&h) {
                    if ca.has_pending_requests(&ph) {
                        return Err(bad(
                            "c02-open-requests",
                            "pending",
                            format!("{child} still has open requests for parent {parent} after synchronisation"),
                        ));
                    }
                }
            }
            let _ = child_info;
        }
    }
    Ok(checked)
}

/// Digest for the idempotence check: stored command count per CA and the
/// bytes of every publication point.
pub fn idem_digest(sim: &Sim) -> Result<(BTreeMap<String, u64>, Served), Bad> {
    let mut versions = BTreeMap::new();
    for ca in sim.model.cas.keys() {
        let h = CaHandle::from_str(ca).unwrap();
        if let Ok(c) = sim.w().cam().get_ca(&h) {
            use krill::commons::eventsourcing::Aggregate;
            versions.insert(ca.clone(), c.version());
        }
    }
    let served = sim.w().served().map_err(|e| bad("served", "error", e))?;
    Ok((versions, served))
}
