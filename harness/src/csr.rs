//! A small per-process pool of BGPsec router-key CSRs (ECDSA P-256).
use std::sync::OnceLock;

use base64::Engine;
use openssl::ec::{EcGroup, EcKey};
use openssl::hash::MessageDigest;
use openssl::nid::Nid;
use openssl::pkey::PKey;
use openssl::x509::{X509NameBuilder, X509ReqBuilder};
use rpki::ca::csr::BgpsecCsr;

pub const POOL: usize = 6;

fn make(i: usize) -> (Vec<u8>, String) {
    let group = EcGroup::from_curve_name(Nid::X9_62_PRIME256V1).unwrap();
    let ec = EcKey::generate(&group).unwrap();
    let pkey = PKey::from_ec_key(ec).unwrap();
    let mut name = X509NameBuilder::new().unwrap();
    name.append_entry_by_text("CN", &format!("ROUTER-{:08X}", 64496 + i)).unwrap();
    let name = name.build();
    let mut b = X509ReqBuilder::new().unwrap();
    b.set_version(0).unwrap();
    b.set_subject_name(&name).unwrap();
    b.set_pubkey(&pkey).unwrap();
    let mut exts = openssl::stack::Stack::new().unwrap();
    #[allow(deprecated)]
    exts.push(openssl::x509::X509Extension::new(None, None, "extendedKeyUsage", "1.3.6.1.5.5.7.3.30").unwrap())
        .unwrap();
    b.add_extensions(&exts).unwrap();
    b.sign(&pkey, MessageDigest::sha256()).unwrap();
    let der = b.build().to_der().unwrap();
    let csr = BgpsecCsr::decode(der.as_slice()).expect("generated CSR decodes");
    csr.verify_signature().expect("generated CSR verifies");
    let key = csr.public_key().key_identifier().to_string();
    (der, key)
}

/// (base64 DER, key identifier hex)
pub fn pool() -> Vec<(String, String)> {
    static P: OnceLock<Vec<(String, String)>> = OnceLock::new();
    P.get_or_init(|| {
        (0..POOL)
            .map(|i| {
                let (der, key) = make(i);
                (base64::engine::general_purpose::STANDARD.encode(der), key)
            })
            .collect()
    })
    .clone()
}

/// A CSR whose signature does not verify (one byte of the signature flipped).
pub fn bad_csr() -> String {
    let (mut der, _) = make(99);
    let n = der.len();
    der[n - 3] ^= 0x55;
    base64::engine::general_purpose::STANDARD.encode(der)
}
