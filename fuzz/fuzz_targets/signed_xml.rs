//! C16, coverage-guided part: the content of provisioning (RFC 6492) and
//! publication (RFC 8181) messages from an authenticated but malicious peer.
//! The input is the XML content; the target signs it with the identity key
//! that is registered for the child / publisher (the harness owns those keys)
//! and hands the CMS to the entry points the HTTP layer calls
//! (`CaManager::rfc6492`, `RepositoryManager::rfc8181`), so the search runs
//! in the handlers behind the signature check, where byte-level mutation of
//! a signed message cannot get. A selector byte chooses protocol and sender;
//! selector values 8.. send the bytes unsigned (raw CMS decoding path).
//!
//! Oracle inside the target: no panic and no would-be exit (except the listed
//! panics of the pinned rpki crate); a request answered with an error leaves
//! the observable state (parent CA version and children, publishers and
//! their files) unchanged. Accepted requests change the world; the world is
//! rebuilt every 400 accepted requests and the accepted inputs since the last
//! rebuild are written next to a crash as a journal.
#![no_main]
#![allow(dead_code, unused_imports)]
include!("harness_mods.rs");

use std::cell::RefCell;

use bytes::Bytes;
use libfuzzer_sys::fuzz_target;

use sigw::{SigWorld, CHILDREN, PARENT, PUBLISHERS};
use world::WorldCfg;

const KNOWN: [&str; 2] = ["src/resources/asn.rs", "src/ca/publication.rs"];

fn known(loc: &str) -> bool {
    loc.contains("rpki-") && KNOWN.iter().any(|k| loc.contains(k))
}

struct State {
    sw: SigWorld,
    accepted: Vec<Vec<u8>>,
    worlds: usize,
}

thread_local! {
    static STATE: RefCell<Option<State>> = const { RefCell::new(None) };
}

fn fresh(worlds: usize) -> State {
    let sw = match SigWorld::new(WorldCfg::default(), worlds * 300) {
        Ok(sw) => sw,
        Err(e) => {
            eprintln!("HARNESS cannot build the world: {e:?}");
            std::process::exit(3);
        }
    };
    State { sw, accepted: Vec::new(), worlds: worlds + 1 }
}

fn die(st: &State, what: &str, data: &[u8]) -> ! {
    eprintln!("VIOLATION-IN-TARGET {what}");
    let dir = std::path::Path::new("/verif/fuzz/artifacts/signed_xml");
    let _ = std::fs::create_dir_all(dir);
    let name = format!("journal-{:016x}.json", data.iter().fold(0xcbf29ce484222325u64, |h, b| (h ^ *b as u64).wrapping_mul(0x100000001b3)));
    let journal = serde_json::json!({"what": what, "accepted_before": st.accepted.iter().map(hex::encode).collect::<Vec<_>>(), "input": hex::encode(data)});
    let _ = std::fs::write(dir.join(name), journal.to_string());
    std::process::abort();
}

fuzz_target!(|data: &[u8]| {
    if data.len() < 2 {
        return;
    }
    STATE.with(|cell| {
        let mut slot = cell.borrow_mut();
        if slot.is_none() {
            let keyfile = std::path::PathBuf::from(std::env::var("KVH_KEYS").unwrap_or("/verif/cache/keys.pem".into()));
            hooks::install(Some(&keyfile));
            std::panic::set_hook(Box::new(|info| {
                world::note_panic_location(info.location().map(|l| format!("{}:{}", l.file(), l.line())));
            }));
            *slot = Some(fresh(0));
        }
        if slot.as_ref().unwrap().accepted.len() >= 400 {
            let n = slot.as_ref().unwrap().worlds;
            *slot = None;
            *slot = Some(fresh(n));
        }
        let st = slot.as_mut().unwrap();
        let sel = data[0];
        let content = Bytes::copy_from_slice(&data[1..]);
        let sender = (sel & 1) as usize;
        let publication = sel & 2 != 0;
        let wrong_key = sel & 4 != 0;
        let raw = sel & 8 != 0;
        let before = match st.sw.observe() {
            Ok(o) => o,
            Err(e) => {
                eprintln!("HARNESS observe: {e:?}");
                std::process::exit(3);
            }
        };
        let bytes = if raw {
            content
        } else {
            let id = if publication { st.sw.pub_id[PUBLISHERS[sender]] } else { st.sw.child_id[CHILDREN[sender]] };
            let id = if wrong_key { id + 1 } else { id };
            match st.sw.sign_raw(content, id) {
                Ok(b) => b,
                Err(_) => return,
            }
        };
        let res = if publication { st.sw.send8181(PUBLISHERS[sender], bytes) } else { st.sw.send6492(PARENT, bytes) };
        match res {
            Err(ops::Fail::Crash(what)) => {
                let loc = world::last_panic_location().unwrap_or_default();
                if known(&loc) && !what.contains("EXIT") && std::env::var("KVH_FUZZ_STRICT").is_err() {
                    return;
                }
                die(st, &format!("c16-panic:{loc} {what}"), data);
            }
            Err(e) => {
                eprintln!("HARNESS {e:?}");
                std::process::exit(3);
            }
            Ok(Err(_)) => {
                // refused: nothing may have changed
                // (the audit record of a refused authentic request is legitimate: versions are not compared)
                let strip = |mut o: sigw::Observed| {
                    o.parent_version = 0;
                    o.repo_version = 0;
                    o
                };
                let before = strip(before);
                match st.sw.observe().map(strip) {
                    Ok(after) if after == before => {}
                    Ok(after) => die(st, &format!("c16-error-changed-state: before {before:?} after {after:?}"), data),
                    Err(e) => die(st, &format!("c16-state-unreadable-after-error: {e:?}"), data),
                }
            }
            Ok(Ok(_)) => {
                if wrong_key && !raw {
                    die(st, "c12-accepted-under-wrong-key", data);
                }
                st.accepted.push(data.to_vec());
            }
        }
    });
});
