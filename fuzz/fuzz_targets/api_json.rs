//! C16, coverage-guided part: JSON request bodies. The first byte selects the
//! request type the daemon would decode the body into; the rest is the body.
//! Oracle inside the target: no panic (except the listed panics of the
//! pinned rpki crate), and a body that decodes has a stable normal form:
//! value -> JSON -> value -> JSON gives the same JSON twice.
#![no_main]
#![allow(dead_code)]
use libfuzzer_sys::fuzz_target;
use serde::de::DeserializeOwned;
use serde::Serialize;

const KNOWN: [&str; 2] = ["src/resources/asn.rs", "src/ca/publication.rs"];

fn known(loc: &str) -> bool {
    loc.contains("rpki-") && KNOWN.iter().any(|k| loc.contains(k))
}

fn guard(f: impl FnOnce() + std::panic::UnwindSafe) {
    use std::sync::Once;
    static HOOK: Once = Once::new();
    static LAST: std::sync::Mutex<String> = std::sync::Mutex::new(String::new());
    HOOK.call_once(|| {
        std::panic::set_hook(Box::new(|info| {
            let loc = info.location().map(|l| format!("{}:{}", l.file(), l.line())).unwrap_or_default();
            *LAST.lock().unwrap_or_else(|e| e.into_inner()) = format!("{loc} {info}");
        }));
    });
    if std::panic::catch_unwind(f).is_err() {
        let last = LAST.lock().unwrap_or_else(|e| e.into_inner()).clone();
        if known(&last) && std::env::var("KVH_FUZZ_STRICT").is_err() {
            return;
        }
        eprintln!("PANIC {last}");
        std::process::abort();
    }
}

fn stable<T: DeserializeOwned + Serialize>(body: &[u8]) {
    let Ok(v) = serde_json::from_slice::<T>(body) else { return };
    let j1 = serde_json::to_value(&v).expect("a decoded request serialises");
    let v2: T = match serde_json::from_value(j1.clone()) {
        Ok(v2) => v2,
        Err(e) => panic!("{}: the serialised form of a decoded body does not decode: {e}: {j1}", std::any::type_name::<T>()),
    };
    let j2 = serde_json::to_value(&v2).expect("serialises");
    assert!(j1 == j2, "{}: normal form is not stable: {j1} vs {j2}", std::any::type_name::<T>());
}

fuzz_target!(|data: &[u8]| {
    if data.is_empty() {
        return;
    }
    let sel = data[0];
    let body = data[1..].to_vec();
    guard(move || {
        use krill::api;
        let body = body.as_slice();
        match sel % 16 {
            0 => stable::<api::roa::RoaConfigurationUpdates>(body),
            1 => stable::<api::aspa::AspaDefinitionUpdates>(body),
            2 => stable::<api::aspa::AspaProvidersUpdate>(body),
            3 => stable::<api::bgpsec::BgpSecDefinitionUpdates>(body),
            4 => stable::<api::admin::AddChildRequest>(body),
            5 => stable::<api::admin::UpdateChildRequest>(body),
            6 => stable::<api::admin::ParentCaReq>(body),
            7 => stable::<api::admin::ApiRepositoryContact>(body),
            8 => stable::<api::import::Structure>(body),
            9 => stable::<api::admin::RepoFileDeleteCriteria>(body),
            10 => stable::<api::admin::CertAuthInit>(body),
            11 => stable::<api::ta::ApiTrustAnchorSignedRequest>(body),
            12 => stable::<api::ta::TrustAnchorSignedResponse>(body),
            13 => stable::<api::roa::RoaPayload>(body),
            14 => stable::<rpki::repository::resources::ResourceSet>(body),
            _ => {
                // the announcements a dry run is made against
                if let Ok(upd) = serde_json::from_slice::<api::roa::RoaConfigurationUpdates>(body) {
                    let _ = upd.to_string();
                }
            }
        }
    });
});
