//! C16, coverage-guided part: textual notations a client can put into request
//! bodies, query strings and path segments. Oracle inside the target: no
//! panic (libFuzzer aborts on one, except the two listed panics of the
//! pinned rpki crate), and what parses prints to something that parses to
//! the same value.
#![no_main]
#![allow(dead_code)]
use std::str::FromStr;

use libfuzzer_sys::fuzz_target;

/// Panics of the pinned dependency that are recorded as known findings of
/// C16 (known_findings.jsonl); campaigns step over them.
const KNOWN: [&str; 2] = ["src/resources/asn.rs", "src/ca/publication.rs"];

fn known(loc: &str) -> bool {
    loc.contains("rpki-") && KNOWN.iter().any(|k| loc.contains(k))
}

fn guard(f: impl FnOnce() + std::panic::UnwindSafe) {
    use std::sync::Once;
    static HOOK: Once = Once::new();
    static LAST: std::sync::Mutex<String> = std::sync::Mutex::new(String::new());
    HOOK.call_once(|| {
        std::panic::set_hook(Box::new(|info| {
            let loc = info.location().map(|l| format!("{}:{}", l.file(), l.line())).unwrap_or_default();
            *LAST.lock().unwrap_or_else(|e| e.into_inner()) = format!("{loc} {info}");
        }));
    });
    if std::panic::catch_unwind(f).is_err() {
        let last = LAST.lock().unwrap_or_else(|e| e.into_inner()).clone();
        if known(&last) && std::env::var("KVH_FUZZ_STRICT").is_err() {
            return;
        }
        eprintln!("PANIC {last}");
        std::process::abort();
    }
}

macro_rules! roundtrip {
    ($t:ty, $s:expr) => {
        if let Ok(v) = <$t>::from_str($s) {
            let printed = v.to_string();
            match <$t>::from_str(&printed) {
                Ok(v2) => assert!(v == v2, "{}: {:?} prints as {:?} which parses to another value", stringify!($t), $s, printed),
                Err(_) => panic!("{}: {:?} prints as {:?} which does not parse", stringify!($t), $s, printed),
            }
        }
    };
}

fuzz_target!(|data: &[u8]| {
    if data.is_empty() {
        return;
    }
    let sel = data[0];
    let Ok(s) = std::str::from_utf8(&data[1..]) else { return };
    let s = s.to_string();
    guard(move || {
        let s = s.as_str();
        match sel % 12 {
            0 => roundtrip!(krill::api::roa::RoaPayload, s),
            1 => roundtrip!(krill::api::roa::TypedPrefix, s),
            2 => roundtrip!(krill::api::roa::AsNumber, s),
            3 => roundtrip!(krill::api::aspa::AspaDefinition, s),
            4 => {
                let _ = krill::api::bgpsec::BgpSecAsnKey::from_str(s);
            }
            5 => {
                let parts: Vec<&str> = s.splitn(3, '|').collect();
                if parts.len() == 3 {
                    if let Ok(r) = rpki::repository::resources::ResourceSet::from_strs(parts[0], parts[1], parts[2]) {
                        let j = serde_json::to_string(&r).expect("resource set serialises");
                        let r2: rpki::repository::resources::ResourceSet = serde_json::from_str(&j).expect("serialised resource set parses");
                        assert!(r == r2 || r.contains(&r2) && r2.contains(&r), "resource set round trip");
                    }
                }
            }
            6 => {
                if let Ok(h) = rpki::ca::idexchange::CaHandle::from_str(s) {
                    let _ = h.to_string();
                    let _: rpki::ca::idexchange::ChildHandle = h.convert();
                }
            }
            7 => {
                let _ = krill::api::bgp::Announcement::from_str(s);
            }
            8 => {
                let _ = rpki::uri::Rsync::from_str(s);
                let _ = rpki::uri::Https::from_str(s);
            }
            9 => {
                // a ROA payload and the arithmetic on it
                if let Ok(p) = krill::api::roa::RoaPayload::from_str(s) {
                    let _ = p.max_length_valid();
                    let _ = p.effective_max_length();
                    let _ = p.nr_of_specific_prefixes();
                    let _ = p.into_explicit_max_length();
                }
            }
            10 => {
                let _ = krill::api::roa::RoaConfigurationUpdates::from_str(s);
                let _ = krill::api::roa::Ipv4Prefix::from_str(s);
                let _ = krill::api::roa::Ipv6Prefix::from_str(s);
            }
            _ => {
                let _ = krill::api::roa::RoaConfiguration::from_str(s);
            }
        }
    });
});
